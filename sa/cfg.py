"""E0 - statement-level control-flow graph for one function, with dominators.

Nodes are ints; node 0 = ENTRY, node 1 = EXIT (normal return), node 2 = RAISE (exceptional exit).
Every simple statement and every compound-statement header (if/while test, for iterator,
with items, try marker) is one node carrying `.stmt`.  Statement kinds not handled raise
AnalysisError (the repo uses none of match/async).
"""
import ast

from .report import AnalysisError

ENTRY, EXIT, RAISE = 0, 1, 2


class CFG:
    def __init__(self, func_node):
        self.func = func_node
        self.stmt = {ENTRY: None, EXIT: None, RAISE: None}
        self.succ = {ENTRY: set(), EXIT: set(), RAISE: set()}
        self.kind = {ENTRY: "entry", EXIT: "exit", RAISE: "raise"}
        self.branch = {}          # (node, succ) -> True/False label for if/while tests
        self._n = 3
        self.node_of = {}         # id(stmt) -> node
        ends = self._block(func_node.body, [ENTRY], loop=None, handlers=[])
        self._link(ends, EXIT)
        self.pred = {n: set() for n in self.succ}
        for a, bs in self.succ.items():
            for b in bs:
                self.pred[b].add(a)
        self._dom = None
        self._pdom = None

    # -- construction ---------------------------------------------------------------
    def _new(self, stmt, kind):
        n = self._n
        self._n += 1
        self.stmt[n] = stmt
        self.kind[n] = kind
        self.succ[n] = set()
        if stmt is not None and id(stmt) not in self.node_of:
            self.node_of[id(stmt)] = n
        return n

    def _edge(self, a, b, label=None):
        self.succ[a].add(b)
        if label is not None:
            self.branch[(a, b)] = label

    def _link(self, preds, n):
        for p in preds:
            if isinstance(p, tuple):
                self._edge(p[0], n, p[1])
            else:
                self._edge(p, n)

    def _may_raise_to(self, n, handlers):
        # any statement inside a try body may transfer to each handler; otherwise to RAISE
        if handlers:
            for h in handlers[-1]:
                self._edge(n, h)
        else:
            self._edge(n, RAISE)

    def _block(self, stmts, preds, loop, handlers):
        for s in stmts:
            preds = self._stmt(s, preds, loop, handlers)
        return preds

    def _stmt(self, s, preds, loop, handlers):
        if isinstance(s, (ast.FunctionDef, ast.AsyncFunctionDef, ast.ClassDef, ast.Import, ast.ImportFrom,
                          ast.Pass, ast.Global, ast.Nonlocal)):
            n = self._new(s, "simple")
            self._link(preds, n)
            return [n]
        if isinstance(s, (ast.Assign, ast.AugAssign, ast.AnnAssign, ast.Expr, ast.Delete, ast.Assert)):
            n = self._new(s, "simple")
            self._link(preds, n)
            self._may_raise_to(n, handlers)
            return [n]
        if isinstance(s, ast.Return):
            n = self._new(s, "return")
            self._link(preds, n)
            self._edge(n, EXIT)
            self._may_raise_to(n, handlers)
            return []
        if isinstance(s, ast.Raise):
            n = self._new(s, "raisestmt")
            self._link(preds, n)
            self._may_raise_to(n, handlers)
            return []
        if isinstance(s, ast.If):
            n = self._new(s, "if")
            self._link(preds, n)
            self._may_raise_to(n, handlers)
            t = self._block(s.body, [(n, True)], loop, handlers)
            f = self._block(s.orelse, [(n, False)], loop, handlers) if s.orelse else [(n, False)]
            return t + f
        if isinstance(s, (ast.For, ast.While)):
            n = self._new(s, "loop")
            self._link(preds, n)
            self._may_raise_to(n, handlers)
            ctx = {"head": n, "breaks": []}
            body_end = self._block(s.body, [(n, True)], ctx, handlers)
            self._link(body_end, n)
            after = self._block(s.orelse, [(n, False)], loop, handlers) if s.orelse else [(n, False)]
            return after + ctx["breaks"]
        if isinstance(s, ast.Break):
            n = self._new(s, "break")
            self._link(preds, n)
            if loop is None:
                raise AnalysisError("break outside loop")
            loop["breaks"].append(n)
            return []
        if isinstance(s, ast.Continue):
            n = self._new(s, "continue")
            self._link(preds, n)
            self._edge(n, loop["head"])
            return []
        if isinstance(s, ast.With):
            n = self._new(s, "with")
            self._link(preds, n)
            self._may_raise_to(n, handlers)
            return self._block(s.body, [n], loop, handlers)
        if isinstance(s, ast.Try):
            n = self._new(s, "try")
            self._link(preds, n)
            hnodes = []
            for h in s.handlers:
                hn = self._new(h, "except")
                hnodes.append(hn)
            fin = None
            inner_handlers = handlers + [hnodes] if hnodes else handlers
            body_end = self._block(s.body, [n], loop, inner_handlers)
            if not hnodes and s.finalbody:
                pass
            else_end = self._block(s.orelse, body_end, loop, handlers) if s.orelse else body_end
            ends = list(else_end)
            for h, hn in zip(s.handlers, hnodes):
                ends += self._block(h.body, [hn], loop, handlers)
            if s.finalbody:
                ends = self._block(s.finalbody, ends, loop, handlers)
            return ends
        raise AnalysisError(f"CFG: unsupported statement kind {type(s).__name__} at line {getattr(s, 'lineno', '?')}")

    # -- dominators -------------------------------------------------------------------
    def _compute_dom(self, roots, succ, pred):
        nodes = list(self.succ)
        allset = set(nodes)
        dom = {n: set(allset) for n in nodes}
        for r in roots:
            dom[r] = {r}
        changed = True
        while changed:
            changed = False
            for n in nodes:
                if n in roots:
                    continue
                ps = [dom[p] for p in pred[n]]
                new = (set.intersection(*ps) if ps else set()) | {n}
                if new != dom[n]:
                    dom[n] = new
                    changed = True
        return dom

    @property
    def dom(self):
        if self._dom is None:
            self._dom = self._compute_dom([ENTRY], self.succ, self.pred)
        return self._dom

    def node(self, stmt):
        """CFG node of a statement (or of the statement enclosing an expression)."""
        while stmt is not None and id(stmt) not in self.node_of:
            stmt = getattr(stmt, "_parent", None)
        if stmt is None:
            raise AnalysisError("CFG: statement not in graph")
        return self.node_of[id(stmt)]

    def dominates(self, a, b):
        """Every path ENTRY -> b passes through a (a, b are nodes)."""
        return a in self.dom[b]

    def reachable(self, a, avoid=()):
        seen, work = set(), [a]
        while work:
            n = work.pop()
            for s in self.succ[n]:
                if s not in seen and s not in avoid:
                    seen.add(s)
                    work.append(s)
        return seen

    def can_reach(self, a, b, avoid=()):
        return b in self.reachable(a, avoid)

    def must_pass(self, a, through, target=EXIT):
        """Every path a -> target passes through one of `through` (nodes)."""
        return target not in self.reachable(a, avoid=set(through)) or a in through

    def guards(self, n):
        """List of (test_expr, truth) of if/while tests that *dominate* n on a single labelled branch."""
        out = []
        for d in self.dom[n]:
            if self.kind.get(d) in ("if", "loop") and d != n:
                labels = set()
                for s in self.succ[d]:
                    lab = self.branch.get((d, s))
                    if lab is None:
                        continue
                    if s == n or n in self.reachable(s, avoid={d}) :
                        labels.add(lab)
                if len(labels) == 1:
                    st = self.stmt[d]
                    if isinstance(st, (ast.If, ast.While)):
                        out.append((st.test, labels.pop()))
        return out


# ---- reaching definitions -------------------------------------------------------------

def _targets(t):
    if isinstance(t, ast.Name):
        yield t.id
    elif isinstance(t, (ast.Tuple, ast.List)):
        for e in t.elts:
            yield from _targets(e)
    elif isinstance(t, ast.Starred):
        yield from _targets(t.value)


def defs_of_stmt(stmt):
    """Names (re)bound by the *header* of this statement."""
    out = set()
    if isinstance(stmt, ast.Assign):
        for t in stmt.targets:
            out.update(_targets(t))
    elif isinstance(stmt, (ast.AugAssign, ast.AnnAssign)):
        out.update(_targets(stmt.target))
    elif isinstance(stmt, ast.For):
        out.update(_targets(stmt.target))
    elif isinstance(stmt, ast.With):
        for it in stmt.items:
            if it.optional_vars is not None:
                out.update(_targets(it.optional_vars))
    elif isinstance(stmt, (ast.Import, ast.ImportFrom)):
        for a in stmt.names:
            out.add((a.asname or a.name).split(".")[0])
    elif isinstance(stmt, ast.ExceptHandler):
        if stmt.name:
            out.add(stmt.name)
    elif isinstance(stmt, (ast.FunctionDef, ast.ClassDef)):
        out.add(stmt.name)
    # walrus / comprehension targets are ignored (comprehension scope is separate)
    return out


class ReachingDefs:
    """reach[n][name] = set of CFG nodes whose definition of `name` may reach the *entry* of n.
    ENTRY in the set means 'the parameter / free variable as it was on entry'."""

    def __init__(self, cfg):
        self.cfg = cfg
        params = set()
        a = cfg.func.args
        for x in a.posonlyargs + a.args + a.kwonlyargs:
            params.add(x.arg)
        if a.vararg:
            params.add(a.vararg.arg)
        if a.kwarg:
            params.add(a.kwarg.arg)
        self.params = params
        gen = {n: defs_of_stmt(cfg.stmt[n]) if cfg.stmt[n] is not None else set() for n in cfg.succ}
        IN = {n: {} for n in cfg.succ}
        OUT = {n: {} for n in cfg.succ}
        work = list(cfg.succ)
        while work:
            n = work.pop()
            newin = {}
            for p in cfg.pred[n]:
                for k, v in OUT[p].items():
                    newin.setdefault(k, set()).update(v)
            IN[n] = newin
            out = {k: set(v) for k, v in newin.items()}
            for name in gen[n]:
                out[name] = {n}
            if out != OUT[n]:
                OUT[n] = out
                work.extend(cfg.succ[n])
        self.IN = IN
        self.gen = gen

    def at(self, node, name):
        """Definition nodes of `name` reaching the entry of `node` (ENTRY = value at function entry)."""
        r = set(self.IN[node].get(name, set()))
        # paths on which no definition was seen: the entry value (parameter / global / closure)
        if self._entry_reaches(node, name):
            r.add(ENTRY)
        return r

    def _entry_reaches(self, node, name):
        seen, work = set(), [node]
        while work:
            n = work.pop()
            for p in self.cfg.pred[n]:
                if p in seen:
                    continue
                seen.add(p)
                if p == ENTRY:
                    return True
                if name in self.gen[p]:
                    continue
                work.append(p)
        return node == ENTRY
