"""E4 - units-of-measure, homogeneity-degree and angle-convention typing of xarray/numpy expressions.

A type Q carries: u (exponents of m, s, deg; radians are dimensionless), h (degree of homogeneity in the
spectrum: efth has 1), dims (which spectral dimensions the value still spans), ang (convention tags of an
angle-valued quantity: conv nautical|cartesian, sense from|to, mod360), log (value is a log10 of something).
Bare numeric literals are *polymorphic*: they adopt the unit of what they are added to / compared with and
are dimensionless in products.  The evaluator is an abstract interpreter over one function at a time with
call-site-constant specialisation (momf(0|1|2|4)); anything it does not understand is TOP (None) and an
anchored obligation that ends TOP is an ANALYSIS-ERROR, never a pass.
"""
import ast
from fractions import Fraction as Fr

from .model import UNKNOWN, FuncInfo, call_name, kwarg, unparse
from .report import AnalysisError

BASE = ("m", "s", "deg")


def parse_units(text):
    """CF-style 'm2 s degree-1' -> exponent dict."""
    u = {b: Fr(0) for b in BASE}
    if text is None:
        return None
    for tok in str(text).replace("^", "").split():
        name = tok.rstrip("-0123456789.")
        exp = tok[len(name):] or "1"
        try:
            e = Fr(exp)
        except ValueError:
            return None
        name = {"degree": "deg", "degrees": "deg", "degr": "deg", "Hz": "Hz", "hz": "Hz"}.get(name, name)
        if name == "Hz":
            u["s"] -= e
        elif name in u:
            u[name] += e
        elif name in ("", "1"):
            continue
        else:
            return None
    return u


class Q:
    __slots__ = ("u", "h", "dims", "ang", "log", "lit", "note")

    def __init__(self, u=None, h=Fr(0), dims=frozenset(), ang=None, log=False, lit=False, note=None):
        self.u = {b: Fr(0) for b in BASE}
        if u:
            for k, v in u.items():
                self.u[k] = Fr(v)
        self.h = h
        self.dims = frozenset(dims)
        self.ang = ang
        self.log = log
        self.lit = lit       # bare numeric literal: polymorphic unit
        self.note = note

    def copy(self, **kw):
        q = Q(self.u, self.h, self.dims, dict(self.ang) if self.ang else None, self.log, self.lit, self.note)
        for k, v in kw.items():
            setattr(q, k, v)
        return q

    def dimless(self):
        return all(v == 0 for v in self.u.values())

    def ustr(self):
        parts = [f"{b}{'' if e == 1 else '^' + str(e)}" for b, e in self.u.items() if e != 0]
        return " ".join(parts) or "1"

    def __repr__(self):
        a = f" ang={self.ang}" if self.ang else ""
        return f"<{self.ustr()} h={self.h} dims={sorted(self.dims)}{a}{' lit' if self.lit else ''}>"


def lit():
    return Q(lit=True)


class Problem:
    def __init__(self, kind, node, msg):
        self.kind, self.node, self.msg = kind, node, msg


class UEval:
    """Evaluate one function body.  `seeds`: name -> Q | tuple of Q | callable(args)->Q for parameters / self members."""

    def __init__(self, repo, fi, seeds, const_args=None, table=None, depth=0, self_seeds=None):
        self.repo, self.fi, self.mod = repo, fi, fi.module
        self.env = dict(seeds)
        self.consts = dict(const_args or {})     # parameter -> python constant (call-site specialisation)
        self.table = table                       # shared Typing instance (methods, memo)
        self.problems = []
        self.returns = []
        self.depth = depth
        self.compares = []                       # (node, left Q, right Q)
        self.self_seeds = self_seeds or {}
        self.stored = {}                         # dataset variable / coordinate name -> Q assigned by the function

    # ---- problems --------------------------------------------------------------------------------
    def prob(self, kind, node, msg):
        self.problems.append(Problem(kind, node, msg))

    # ---- statements ------------------------------------------------------------------------------
    def run(self):
        self.block(self.fi.node.body)
        return self

    def block(self, stmts):
        for s in stmts:
            self.stmt(s)

    def stmt(self, s):
        if isinstance(s, ast.Assign):
            v = self.ev(s.value)
            c = self.const(s.value)
            for t in s.targets:
                self.assign(t, v)
                if isinstance(t, ast.Name):
                    if isinstance(c, (int, float, str, bool)) or c is None:
                        self.consts[t.id] = c
                    else:
                        self.consts.pop(t.id, None)
        elif isinstance(s, ast.AugAssign):
            cur = self.ev(s.target) if isinstance(s.target, ast.Name) else None
            v = self.ev(s.value)
            r = self.binop(type(s.op), cur, v, s)
            if isinstance(s.target, ast.Name):
                self.env[s.target.id] = r
        elif isinstance(s, ast.Return):
            if s.value is not None:
                self.returns.append((s, self.ev(s.value)))
        elif isinstance(s, ast.If):
            c = self.const(s.test)
            self.ev(s.test)
            if c is not UNKNOWN and c is not None and not isinstance(c, (dict, list)):
                self.block(s.body if c else s.orelse)
                return
            e0 = dict(self.env)
            self.block(s.body)
            e1 = self.env
            self.env = dict(e0)
            self.block(s.orelse)
            for k in set(e1) | set(self.env):
                a, b = e1.get(k), self.env.get(k)
                self.env[k] = self.join(a, b, s, k)
        elif isinstance(s, (ast.For, ast.While)):
            if isinstance(s, ast.For):
                it = self.ev(s.iter)
                self.assign(s.target, self._elem(it, s.iter))
            for _ in range(2):
                self.block(s.body)
        elif isinstance(s, ast.Expr):
            if isinstance(s.value, ast.Call):
                nm = call_name(s.value)
                if nm.endswith(".attrs.update") or nm in ("set_spec_attributes", "check_same_coordinates", "warnings.warn"):
                    return
            self.ev(s.value)
        elif isinstance(s, (ast.With,)):
            self.block(s.body)
        elif isinstance(s, ast.Try):
            self.block(s.body)
            self.block(s.orelse)
        elif isinstance(s, (ast.Raise, ast.Pass, ast.Import, ast.ImportFrom, ast.Assert)):
            pass

    def _elem(self, it, node):
        if isinstance(it, tuple) and it:
            return it[0] if all(repr(x) == repr(it[0]) for x in it) else None
        if isinstance(node, ast.Call) and call_name(node) == "range":
            return lit()
        if isinstance(node, ast.Call) and call_name(node) == "enumerate" and node.args:
            inner = self.ev(node.args[0])
            return (lit(), self._elem(inner, node.args[0]))
        if isinstance(node, ast.Call) and call_name(node) == "zip":
            return tuple(self._elem(self.ev(a), a) for a in node.args)
        if isinstance(node, ast.Call) and call_name(node) in ("reversed", "sorted", "list", "tuple", "iter") and node.args:
            # same elements in another order / container
            return self._elem(self.ev(node.args[0]), node.args[0])
        return it if isinstance(it, Q) else None

    def join(self, a, b, node, name=""):
        if a is None or b is None:
            return a if b is None else b if a is None else None
        if isinstance(a, tuple) or isinstance(b, tuple):
            return a
        if a.lit and not b.lit:
            return b
        if b.lit and not a.lit:
            return a
        if a.u != b.u:
            return None
        return a if a.h == b.h else a.copy(h=None)

    def assign(self, t, v):
        if isinstance(t, ast.Name):
            self.env[t.id] = v
        elif isinstance(t, (ast.Tuple, ast.List)):
            for i, e in enumerate(t.elts):
                self.assign(e, v[i] if isinstance(v, tuple) and i < len(v) else None)
        elif isinstance(t, ast.Subscript):
            k = self.const(t.slice)
            if isinstance(k, str):
                self.stored[k] = v
        # attribute stores (name, attrs) do not change the value type

    # ---- constants -------------------------------------------------------------------------------
    def const(self, e):
        return self.repo.const(self.mod, e, env=self.consts)

    # ---- expressions -----------------------------------------------------------------------------
    def ev(self, e):
        m = getattr(self, "ev_" + type(e).__name__, None)
        if m is None:
            return None
        return m(e)

    def ev_Constant(self, e):
        if isinstance(e.value, (int, float)) and not isinstance(e.value, bool):
            q = lit()
            special = self.table.dimensioned_literal(self.fi, e.value) if self.table else None
            return special or q
        return None

    def ev_Name(self, e):
        if e.id in self.env:
            return self.env[e.id]
        c = self.const(e)
        if isinstance(c, (int, float)) and not isinstance(c, bool):
            q = self.table.named_constant(self.mod, e.id, c) if self.table else None
            return q or lit()
        return None

    def ev_Tuple(self, e):
        return tuple(self.ev(x) for x in e.elts)

    ev_List = ev_Tuple

    def ev_UnaryOp(self, e):
        v = self.ev(e.operand)
        if isinstance(e.op, ast.USub) and isinstance(v, Q) and v.ang:
            return v.copy(ang=None)
        if isinstance(e.op, (ast.Not, ast.Invert)):
            return Q() if v is not None else None
        return v

    def ev_BoolOp(self, e):
        vs = [self.ev(v) for v in e.values]
        return vs[-1]

    def ev_IfExp(self, e):
        c = self.const(e.test)
        if c is not UNKNOWN and not isinstance(c, (dict, list)):
            return self.ev(e.body if c else e.orelse)
        return self.join(self.ev(e.body), self.ev(e.orelse), e)

    def ev_Compare(self, e):
        l = self.ev(e.left)
        for op, c in zip(e.ops, e.comparators):
            r = self.ev(c)
            if isinstance(op, (ast.Lt, ast.LtE, ast.Gt, ast.GtE, ast.Eq, ast.NotEq)):
                self.compares.append((e, l, r, c))
                if isinstance(l, Q) and isinstance(r, Q) and not l.lit and not r.lit and l.u != r.u:
                    self.prob("units", e, f"comparison of {l.ustr()} with {r.ustr()}")
            l = r
        dims = frozenset()
        for x in [self.ev(e.left)] + [self.ev(c) for c in e.comparators]:
            if isinstance(x, Q):
                dims |= x.dims
        return Q(dims=dims)

    def ev_BinOp(self, e):
        if isinstance(e.op, (ast.Mult, ast.Div)):
            r = self._product_chain(e)
            if r is not NotImplemented:
                return r
        return self.binop(type(e.op), self.ev(e.left), self.ev(e.right), e)

    def _product_chain(self, e):
        """Fold the plain numeric factors (numbers, pi) of a product/quotient chain: pi/180 is a degree->radian factor
        however it is spelled (x * np.pi / 180, x / (180 / np.pi), D2R * x)."""
        fac = []

        def flat(x, sign):
            if isinstance(x, ast.BinOp) and isinstance(x.op, ast.Mult):
                flat(x.left, sign)
                flat(x.right, sign)
            elif isinstance(x, ast.BinOp) and isinstance(x.op, ast.Div):
                flat(x.left, sign)
                flat(x.right, -sign)
            else:
                fac.append((x, sign))
        flat(e, 1)
        plain, rest = 1.0, []
        nplain = 0
        for x, sgn in fac:
            c = self.const(x)
            is_plain = isinstance(c, (int, float)) and not isinstance(c, bool) and (
                isinstance(x, ast.Constant) or unparse(x) in ("np.pi", "pi", "numpy.pi", "math.pi")) and \
                not (self.table and isinstance(x, ast.Constant) and self.table.dimensioned_literal(self.fi, x.value))
            if is_plain and c != 0:
                plain = plain * c if sgn > 0 else plain / c
                nplain += 1
            else:
                rest.append((x, sgn))
        if nplain < 2:
            return NotImplemented
        conv = None
        if abs(plain - 0.017453292519943295) < 1e-12:
            conv = Q({"deg": -1})
        elif abs(plain - 57.29577951308232) < 1e-9:
            conv = Q({"deg": 1})
        if conv is None:
            return NotImplemented
        out = conv
        for x, sgn in rest:
            v = self.ev(x)
            out = self.binop(ast.Mult if sgn > 0 else ast.Div, out, v, e) if sgn > 0 else self.binop(ast.Div, out, v, e)
            if out is None:
                return None
        return out

    def binop(self, op, a, b, node):
        if not isinstance(a, Q) or not isinstance(b, Q):
            return None
        dims = a.dims | b.dims
        if op in (ast.Mult, ast.MatMult):
            if a.log or b.log:
                self.prob("log", node, "product with a logarithmic quantity")
            ang = None
            for x, y in ((a, b), (b, a)):
                if x.ang and not y.ang and (y.lit or (y.u["m"] == 0 and y.u["s"] == 0 and not y.dims)):
                    ang = dict(x.ang)       # scaling by a unit-conversion constant keeps convention and range
                    if y.u["deg"] == 1:
                        ang["rad"] = False
                    elif y.u["deg"] == -1:
                        ang["rad"] = True
            return Q({k: a.u[k] + b.u[k] for k in BASE}, _add(a.h, b.h), dims, ang=ang, lit=a.lit and b.lit)
        if op in (ast.Div, ast.FloorDiv):
            ang = dict(a.ang) if a.ang and not b.ang and (b.lit or (b.u["m"] == 0 and b.u["s"] == 0 and not b.dims)) else None
            if ang is not None and b.u["deg"] == -1:
                ang["rad"] = False
            elif ang is not None and b.u["deg"] == 1:
                ang["rad"] = True
            return Q({k: a.u[k] - b.u[k] for k in BASE}, _sub(a.h, b.h), dims, ang=ang, lit=a.lit and b.lit)
        if op is ast.Pow:
            if b.log and a.lit:
                return Q(b.u, Fr(1), dims)      # 10 ** log10(x)
            n = self._num(node.right) if isinstance(node, ast.BinOp) else None
            if n is None:
                if a.dimless() and (a.h == 0):
                    return Q(dims=dims)
                if b.dimless() and isinstance(node, ast.BinOp) and a.lit:
                    return Q(dims=dims)          # literal ** x
                if not b.dimless():
                    self.prob("units", node, f"exponent with units {b.ustr()}")
                # base ** non-constant exponent: only sound for dimensionless, degree-0 bases
                if a.dimless() and a.h == 0:
                    return Q(dims=dims)
                if isinstance(node, ast.BinOp) and isinstance(node.left, ast.Name) and not b.dimless():
                    return None
                # gamma ** exp(...) in JONSWAP: base must be dimensionless
                if not a.dimless():
                    self.prob("units", node, f"{a.ustr()} raised to a non-constant power")
                return Q(dims=dims, h=None if a.h not in (0, None) else a.h)
            if not b.dimless() and not b.lit:
                self.prob("units", node, f"exponent with units {b.ustr()}")
            return Q({k: a.u[k] * n for k in BASE}, _mul(a.h, n), dims, log=False, lit=a.lit)
        if op in (ast.Add, ast.Sub):
            if a.lit and not b.lit:
                return self._affine(b, a, node, op, lit_left=True)
            if b.lit and not a.lit:
                return self._affine(a, b, node, op, lit_left=False)
            if a.lit and b.lit:
                return lit()
            if a.u != b.u:
                self.prob("units", node, f"{'sum' if op is ast.Add else 'difference'} of {a.ustr()} and {b.ustr()}: '{unparse(node)[:70]}'")
                return Q(a.u, a.h, dims)
            h = a.h if a.h == b.h else None
            if a.h is not None and b.h is not None and a.h != b.h:
                self.prob("homog", node, f"sum of terms of homogeneity degree {a.h} and {b.h}: '{unparse(node)[:70]}'")
            ang = None
            if a.ang and b.ang and op is ast.Sub:
                ang = None       # difference of two directions: a relative angle
            elif a.ang and not b.ang:
                ang = None
            return Q(a.u, h, dims, ang=ang)
        if op is ast.Mod:
            if b.lit or a.u == b.u:
                ang = dict(a.ang) if a.ang else None
                n = self._num(node.right) if isinstance(node, ast.BinOp) else None
                r = a.copy(dims=dims)
                if n == 360 and a.u == {"m": 0, "s": 0, "deg": 1}:
                    r.ang = dict(a.ang or {"conv": None, "sense": None})
                    r.ang["mod"] = True
                return r
            self.prob("units", node, f"{a.ustr()} modulo {b.ustr()}")
            return a.copy(dims=dims)
        if op in (ast.BitAnd, ast.BitOr):
            return Q(dims=dims)
        return None

    def _affine(self, q, l, node, op, lit_left):
        """q +/- literal : the literal adopts q's unit.  Tracks angle-convention arithmetic for degrees."""
        r = q.copy(dims=q.dims | l.dims)
        if q.h not in (0, None):
            n = None
            if isinstance(node, ast.BinOp):
                n = self._num(node.left if lit_left else node.right)
            if n not in (0, 0.0):
                self.prob("homog", node, f"a constant is added to a quantity of homogeneity degree {q.h}: '{unparse(node)[:70]}'")
                r.h = None
        if q.ang is not None and isinstance(node, ast.BinOp):
            n = self._num(node.left if lit_left else node.right)
            a = dict(q.ang)
            a["mod"] = False
            if n in (180, 180.0) and not (lit_left and op is ast.Sub):
                if a.get("sense") in ("from", "to"):
                    a["sense"] = "to" if a["sense"] == "from" else "from"
            elif n in (270, 270.0) and lit_left and op is ast.Sub:
                # 270 - x : cartesian-to <-> nautical-from ; cartesian-from <-> nautical-to
                if a.get("conv") in ("cart", "naut") and a.get("sense") in ("from", "to"):
                    a = {"conv": "naut" if a["conv"] == "cart" else "cart", "sense": "from" if a["sense"] == "to" else "to", "mod": False}
                else:
                    a = {"conv": None, "sense": None, "mod": False}
            elif n in (90, 90.0) and lit_left and op is ast.Sub:
                if a.get("conv") in ("cart", "naut"):
                    a["conv"] = "naut" if a["conv"] == "cart" else "cart"
            elif n in (360, 360.0, 0):
                pass
            else:
                a = {"conv": a.get("conv"), "sense": a.get("sense"), "mod": False, "offset": True}
            r.ang = a
        return r

    def _num(self, e):
        v = self.const(e)
        if isinstance(v, bool):
            return None
        if isinstance(v, (int, float)):
            return Fr(v).limit_denominator(1000) if v == v else None
        return None

    def ev_Subscript(self, e):
        v = self.ev(e.value)
        if isinstance(v, tuple):
            if isinstance(e.slice, ast.Slice):
                return v
            i = self.const(e.slice)
            if isinstance(i, int) and -len(v) <= i < len(v):
                return v[i]
            if v and all(isinstance(x, Q) for x in v) and all(repr(x) == repr(v[0]) for x in v):
                return v[0]
            return None
        if not isinstance(v, Q):
            return None
        # x[{dim: int}] removes the dim; x[dim_name] of a dataset is unknown here
        d = self.const(e.slice)
        if isinstance(d, dict):
            dims = set(v.dims)
            for k, i in d.items():
                if isinstance(i, int):
                    dims.discard(k)
            return v.copy(dims=frozenset(dims))
        if isinstance(d, int) and len(v.dims) == 1:
            return v.copy(dims=frozenset())
        if isinstance(d, str):
            return self.table.coord(d) if self.table else None
        return v

    def ev_Attribute(self, e):
        if isinstance(e.value, ast.Name) and e.value.id == "self":
            if e.attr in self.self_seeds:
                s = self.self_seeds[e.attr]
                return s() if callable(s) else s
            if self.table:
                r = self.table.self_property(self, e.attr, e)
                if r is not NotImplemented:
                    return r
            return None
        c = self.const(e)
        if isinstance(c, (int, float)) and not isinstance(c, bool):
            q = self.table.named_constant(self.mod, unparse(e), c) if self.table else None
            return q or lit()
        v = self.ev(e.value)
        if isinstance(v, Q):
            if e.attr in ("values", "data", "T", "real"):
                return v
            if self.table and e.attr in self.table.coordnames:
                return self.table.coord(e.attr)
            if e.attr in ("size", "shape", "ndim"):
                return lit()
        return None

    def ev_Call(self, e):
        nm = call_name(e)
        f = e.func
        args = [self.ev(a) for a in e.args]
        # numpy / math functions ----------------------------------------------------------------------
        short = nm.replace("numpy.", "np.")
        if short in ("np.sqrt", "math.sqrt"):
            a = args[0] if args else None
            if not isinstance(a, Q):
                return None
            return Q({k: a.u[k] / 2 for k in BASE}, _mul(a.h, Fr(1, 2)), a.dims, lit=a.lit)
        if short in ("np.cos", "np.sin", "np.tan", "np.exp", "np.log", "np.log10", "np.tanh", "np.sinh", "np.cosh", "np.arccos", "np.arcsin"):
            a = args[0] if args else None
            if not isinstance(a, Q):
                return None
            if not a.dimless() and not a.lit:
                self.prob("units", e, f"{short}() of a quantity in {a.ustr()} (trigonometric / exponential functions need a dimensionless "
                                      f"argument; degrees must be converted to radians): '{unparse(e)[:70]}'")
            if a.h not in (0, None) and not a.lit:
                self.prob("homog", e, f"{short}() of a quantity of homogeneity degree {a.h}")
            return Q(dims=a.dims, h=Fr(0) if a.h == 0 or a.lit else None)
        if short in ("np.arctan2",):
            a, b = (args + [None, None])[:2]
            if isinstance(a, Q) and isinstance(b, Q):
                if a.u != b.u:
                    self.prob("units", e, f"arctan2 of {a.ustr()} and {b.ustr()}")
                if a.h != b.h:
                    self.prob("homog", e, f"arctan2 of terms of degree {a.h} and {b.h}")
                return Q(dims=a.dims | b.dims, ang={"conv": "cart", "sense": a.note or "to", "mod": False, "rad": True})
            return None
        if short in ("np.radians", "np.deg2rad"):
            a = args[0] if args else None
            if isinstance(a, Q):
                if a.u != {"m": 0, "s": 0, "deg": 1} and not a.lit:
                    self.prob("units", e, f"{short}() of a quantity in {a.ustr()}, expected degrees")
                return Q(dims=a.dims, h=a.h if a.h is not None else None)
            return None
        if short in ("np.degrees", "np.rad2deg"):
            a = args[0] if args else None
            if isinstance(a, Q):
                if not a.dimless():
                    self.prob("units", e, f"{short}() of a quantity in {a.ustr()}, expected radians")
                return Q({"deg": 1}, a.h, a.dims, ang=dict(a.ang, rad=False) if a.ang else None)
            return None
        if short in ("np.abs", "np.absolute", "abs", "np.round", "np.floor", "np.ceil", "np.squeeze", "np.asarray", "np.array", "np.atleast_1d",
                     "float", "int", "np.float32", "np.float64", "np.real", "np.nan_to_num", "np.flip"):
            return args[0] if args else None
        if short in ("np.maximum", "np.minimum", "np.fmax", "np.fmin", "max", "min"):
            qs = [a for a in args if isinstance(a, Q)]
            if len(qs) == 2:
                a, b = qs
                # np.maximum(x, c) / np.minimum(x, c) with a non-zero absolute constant c and x scaling with the spectrum: a floor /
                # ceiling that is not homogeneous in the spectrum
                for x_, c_, ce_ in ((a, b, e.args[1] if len(e.args) > 1 else None), (b, a, e.args[0] if e.args else None)):
                    if c_.lit and ce_ is not None and x_.h not in (0, None) and short.startswith("np."):
                        v_ = self.const(ce_)
                        if isinstance(v_, (int, float)) and not isinstance(v_, bool) and v_ != 0:
                            self.prob("homog", e, f"{short}() of a quantity of homogeneity degree {x_.h} with the absolute constant {v_}: '{unparse(e)[:70]}'")
                if a.lit:
                    return b
                if b.lit:
                    return a
                if a.u != b.u:
                    self.prob("units", e, f"{short} of {a.ustr()} and {b.ustr()}")
                return a.copy(dims=a.dims | b.dims, h=a.h if a.h == b.h else None)
            return qs[0] if qs else None
        if short in ("np.where", "xr.where"):
            if len(args) == 3:
                return self.join(args[1], args[2], e)
            return None
        if short in ("np.gradient", "np.diff"):
            a = args[0] if args else None
            return a.copy(ang=None) if isinstance(a, Q) else None
        if short in ("np.logical_and", "np.logical_or", "np.isnan", "np.isfinite"):
            dims = frozenset().union(*[a.dims for a in args if isinstance(a, Q)]) if args else frozenset()
            return Q(dims=dims)
        if short in ("np.tile", "np.repeat", "np.expand_dims"):
            return args[0] if args else None
        if short in ("xr.DataArray",):
            d = kwarg(e, "data") or (e.args[0] if e.args else None)
            v = self.ev(d) if d is not None else None
            c = kwarg(e, "coords")
            if isinstance(v, Q) and c is not None:
                cv = self.ev(c)
            return v
        if short in ("np.ones_like", "np.zeros_like", "xr.ones_like", "xr.zeros_like", "np.ones", "np.zeros", "np.arange", "np.linspace"):
            return lit()
        if short in ("len", "range", "enumerate", "round", "np.size"):
            return lit()
        # methods on typed values ---------------------------------------------------------------------------
        if isinstance(f, ast.Attribute):
            # self.method(...)
            if isinstance(f.value, ast.Name) and f.value.id == "self" and self.table is not None:
                r = self.table.self_call(self, f.attr, e, args)
                if r is not NotImplemented:
                    return r
            recv = self.ev(f.value)
            m = f.attr
            if isinstance(recv, Q):
                return self.method(recv, m, e, args)
            if isinstance(recv, tuple) and m in ("append",):
                return None
        # module-level functions of the package --------------------------------------------------------------------
        sym = self.repo.resolve_expr(self.mod, f)
        if isinstance(sym, FuncInfo) and self.table is not None:
            return self.table.call_function(self, sym, e, args)
        return None

    def method(self, q, m, e, args):
        dims = set(q.dims)
        if m in ("sum", "mean", "max", "min", "std", "median", "integrate", "cumsum", "prod"):
            d = kwarg(e, "dim") or kwarg(e, "axis") or (e.args[0] if e.args else None)
            dv = self.const(d) if d is not None else None
            if dv is UNKNOWN and d is not None and unparse(d) == "self._spec_dims":
                dv = list(q.dims)
            if isinstance(dv, str):
                dv = [dv]
            if isinstance(dv, int):
                return q.copy(dims=frozenset())
            if isinstance(dv, (list, tuple)):
                for x in dv:
                    if x not in dims and self.table and x in self.table.spectral:
                        self.prob("dims", e, f".{m}(dim={x!r}) on a value that no longer has dimension {x!r}: '{unparse(e)[:70]}'")
                    dims.discard(x)
            else:
                dims = set()
            if m in ("cumsum",):
                dims = set(q.dims)
            return q.copy(dims=frozenset(dims), ang=None if m in ("sum", "mean", "std") else q.ang)
        if m in ("argmax", "argmin", "idxmax"):
            d = kwarg(e, "dim") or (e.args[0] if e.args else None)
            dv = self.const(d) if d is not None else None
            if isinstance(dv, str):
                dims.discard(dv)
            return Q(dims=frozenset(dims))
        if m in ("where",):
            if len(args) >= 2 and isinstance(args[1], Q) and not args[1].lit and args[1].u != q.u:
                self.prob("units", e, f"where() fills {q.ustr()} with {args[1].ustr()}")
            extra = frozenset().union(*[a.dims for a in args if isinstance(a, Q)]) if args else frozenset()
            return q.copy(dims=q.dims | extra)
        if m in ("fillna",):
            if q.log:
                self.prob("log", e, "fillna() on a logarithmic quantity: the fill value is an exponent, 0 means 1 unit of energy, not zero energy")
            return q
        if m in ("clip",):
            self.prob("clip", e, f"clip() truncates {unparse(e.func.value)[:40]}")
            # a floor / ceiling at a non-zero absolute constant on a quantity that scales with the spectrum is a comparison of that
            # quantity with the constant: the result is not homogeneous in the spectrum
            if q.h not in (0, None):
                for b_ in [kwarg(e, "min"), kwarg(e, "max")] + list(e.args):
                    if b_ is None:
                        continue
                    v_ = self.const(b_)
                    if isinstance(v_, (int, float)) and not isinstance(v_, bool) and v_ != 0:
                        self.prob("homog", e, f"clip() of a quantity of homogeneity degree {q.h} at the absolute constant {v_}: '{unparse(e)[:70]}'")
            return q.copy(note="clipped")
        if m == "assign_coords":
            for a_ in list(e.args) + [k.value for k in e.keywords if k.arg is None]:
                if isinstance(a_, ast.Dict):
                    for kk, vv in zip(a_.keys, a_.values):
                        key = self.const(kk) if kk is not None else None
                        if isinstance(key, str):
                            self.stored[key] = self.ev(vv)
            for k in e.keywords:
                if k.arg is not None:
                    self.stored[k.arg] = self.ev(k.value)
            return q
        if m in ("rename", "drop_vars", "astype", "chunk", "copy", "load", "compute", "transpose", "squeeze", "expand_dims", "round",
                 "assign_coords", "sortby", "sel", "reset_coords", "to_dataset", "rolling", "interp", "persist", "pipe", "notnull", "isnull"):
            if m in ("isel", "sel"):
                pass
            return q
        if m == "isel":
            for k in e.keywords:
                if k.arg in dims and isinstance(self.const(k.value), int):
                    dims.discard(k.arg)
            return q.copy(dims=frozenset(dims))
        if m in ("diff",):
            return q
        if m == "dot":
            return self.binop(ast.Mult, q, args[0] if args else None, e)
        return None


def _add(a, b):
    return None if a is None or b is None else a + b


def _sub(a, b):
    return None if a is None or b is None else a - b


def _mul(a, n):
    return None if a is None else a * n
