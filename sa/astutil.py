"""Shape-based AST helpers so that rules do not depend on local variable names, operand order of commutative operators,
keyword-vs-positional spelling of `dim`, or on whether a value is returned directly or through a temporary."""
import ast

from fractions import Fraction as Fr

from .model import UNKNOWN, call_name, kwarg, unparse


def assignments(fn_node, name):
    return [n for n in ast.walk(fn_node) if isinstance(n, ast.Assign) and len(n.targets) == 1 and
            isinstance(n.targets[0], ast.Name) and n.targets[0].id == name]


def resolve(fn_node, e, before=None, depth=0):
    """Follow `name` to the value of its last simple assignment located before line `before` (copy propagation)."""
    while depth < 6 and isinstance(e, ast.Name):
        cands = [a for a in assignments(fn_node, e.id) if before is None or a.lineno < before]
        if not cands:
            break
        a = max(cands, key=lambda x: x.lineno)
        # do not follow self-referential updates (x = f(x)) further than one step
        e2 = a.value
        before = a.lineno
        depth += 1
        if any(isinstance(n, ast.Name) and n.id == e.id for n in ast.walk(e2)):
            return e2
        e = e2
    return e


def returns(fn_node):
    """[(Return node, resolved value expression)] for every return with a value."""
    out = []
    for n in ast.walk(fn_node):
        if isinstance(n, ast.Return) and n.value is not None:
            out.append((n, resolve(fn_node, n.value, before=n.lineno + 1)))
    return out


def returned_names(fn_node):
    """Names returned, following pure copies (`tmp = name; return tmp`) but not defining expressions."""
    out = []
    for n in ast.walk(fn_node):
        if isinstance(n, ast.Return) and n.value is not None:
            e, before = n.value, n.lineno + 1
            for _ in range(6):
                if not isinstance(e, ast.Name):
                    break
                cands = [a for a in assignments(fn_node, e.id) if a.lineno < before]
                if len(cands) != 1 or not isinstance(cands[0].value, ast.Name):
                    break
                before, e = cands[0].lineno, cands[0].value
            out.append(e)
    return out


def dim_arg(call):
    """The dimension argument of a reduction: keyword dim= or the first positional."""
    d = kwarg(call, "dim")
    if d is None and call.args:
        d = call.args[0]
    return d


def factors(e):
    """Flatten a product: a * b * c -> [a, b, c]."""
    if isinstance(e, ast.BinOp) and isinstance(e.op, ast.Mult):
        return factors(e.left) + factors(e.right)
    return [e]


def terms(e):
    if isinstance(e, ast.BinOp) and isinstance(e.op, ast.Add):
        return terms(e.left) + terms(e.right)
    return [e]


def conj(e):
    """Flatten a & b & c / np.logical_and(a, b) / a and b."""
    if isinstance(e, ast.BinOp) and isinstance(e.op, ast.BitAnd):
        return conj(e.left) + conj(e.right)
    if isinstance(e, ast.BoolOp) and isinstance(e.op, ast.And):
        return [x for v in e.values for x in conj(v)]
    if isinstance(e, ast.Call) and call_name(e) in ("np.logical_and", "numpy.logical_and") and len(e.args) == 2:
        return conj(e.args[0]) + conj(e.args[1])
    return [e]


def canon(e):
    """Canonical text: commutative operands sorted, spaces removed.  Names are kept."""
    def c(n):
        if isinstance(n, ast.BinOp) and isinstance(n.op, ast.Mult):
            return "(" + "*".join(sorted(c(x) for x in factors(n))) + ")"
        if isinstance(n, ast.BinOp) and isinstance(n.op, ast.Add):
            return "(" + "+".join(sorted(c(x) for x in terms(n))) + ")"
        if isinstance(n, ast.BinOp):
            op = {ast.Sub: "-", ast.Div: "/", ast.Pow: "**", ast.Mod: "%", ast.BitAnd: "&", ast.BitOr: "|", ast.FloorDiv: "//"}.get(type(n.op), "?")
            return f"({c(n.left)}{op}{c(n.right)})"
        if isinstance(n, ast.Call):
            args = [c(a) for a in n.args] + sorted(f"{k.arg}={c(k.value)}" for k in n.keywords)
            return f"{c(n.func)}({','.join(args)})"
        if isinstance(n, ast.Attribute):
            return f"{c(n.value)}.{n.attr}"
        if isinstance(n, ast.Subscript):
            return f"{c(n.value)}[{c(n.slice)}]"
        if isinstance(n, ast.UnaryOp):
            return {ast.USub: "-", ast.Not: "not ", ast.Invert: "~", ast.UAdd: "+"}[type(n.op)] + c(n.operand)
        return unparse(n).replace(" ", "")
    return c(e)


def is_call_method(e, method):
    return isinstance(e, ast.Call) and isinstance(e.func, ast.Attribute) and e.func.attr == method


def find_calls(node, method=None, func=None):
    out = []
    for n in ast.walk(node):
        if isinstance(n, ast.Call):
            if method and isinstance(n.func, ast.Attribute) and n.func.attr == method:
                out.append(n)
            elif func and call_name(n) in ((func,) if isinstance(func, str) else func):
                out.append(n)
    return out


def target_name(assign):
    t = assign.targets[0] if isinstance(assign, ast.Assign) else None
    return t.id if isinstance(t, ast.Name) else None


def uses(node, name):
    return any(isinstance(n, ast.Name) and n.id == name for n in ast.walk(node))


def monomial(repo, mod, e, local, depth=0):
    """(coefficient, {symbol: exponent}) of a product / quotient / constant-power expression, or None."""
    if depth > 10:
        return None
    c = repo.const(mod, e)
    if isinstance(c, (int, float)) and not isinstance(c, bool):
        return (float(c), {})
    if isinstance(e, ast.Name) and e.id in local:
        return monomial(repo, mod, local[e.id], local, depth + 1)
    if isinstance(e, (ast.Name, ast.Attribute)):
        return (1.0, {unparse(e): Fr(1)})
    if isinstance(e, ast.UnaryOp) and isinstance(e.op, ast.USub):
        m = monomial(repo, mod, e.operand, local, depth + 1)
        return None if m is None else (-m[0], m[1])
    if isinstance(e, ast.BinOp) and isinstance(e.op, (ast.Mult, ast.Div)):
        l, r = monomial(repo, mod, e.left, local, depth + 1), monomial(repo, mod, e.right, local, depth + 1)
        if l is None or r is None:
            return None
        sign = 1 if isinstance(e.op, ast.Mult) else -1
        ex = dict(l[1])
        for k, v in r[1].items():
            ex[k] = ex.get(k, Fr(0)) + sign * v
        coef = l[0] * r[0] if sign == 1 else l[0] / r[0]
        return (coef, {k: v for k, v in ex.items() if v != 0})
    if isinstance(e, ast.BinOp) and isinstance(e.op, ast.Pow):
        n = repo.const(mod, e.right)
        b = monomial(repo, mod, e.left, local, depth + 1)
        if b is None or not isinstance(n, (int, float)):
            return None
        return (b[0] ** n, {k: v * Fr(n).limit_denominator(100) for k, v in b[1].items()})
    return None




def rel(cmp, is_subject):
    """A single comparison seen from the side of its *subject*: (subject expr, op string, other expr) with op one of
    '<' '<=' '>' '>=' '==' '!='; None when it is not a single comparison or no side is the subject.  (E0 stores every
    single `a > b` as `b < a`; rules therefore ask for the relation relative to the operand they care about.)"""
    if not (isinstance(cmp, ast.Compare) and len(cmp.ops) == 1):
        return None
    names = {ast.Lt: "<", ast.LtE: "<=", ast.Gt: ">", ast.GtE: ">=", ast.Eq: "==", ast.NotEq: "!="}
    flip = {"<": ">", "<=": ">=", ">": "<", ">=": "<=", "==": "==", "!=": "!="}
    op = names.get(type(cmp.ops[0]))
    if op is None:
        return None
    l, r = cmp.left, cmp.comparators[0]
    if is_subject(l):
        return l, op, r
    if is_subject(r):
        return r, flip[op], l
    return None


def signed_terms(e, sign=1):
    """Flatten sums and differences: a + b - (c - d) -> [(+1, a), (+1, b), (-1, c), (+1, d)]."""
    if isinstance(e, ast.BinOp) and isinstance(e.op, ast.Add):
        return signed_terms(e.left, sign) + signed_terms(e.right, sign)
    if isinstance(e, ast.BinOp) and isinstance(e.op, ast.Sub):
        return signed_terms(e.left, sign) + signed_terms(e.right, -sign)
    if isinstance(e, ast.UnaryOp) and isinstance(e.op, ast.USub):
        return signed_terms(e.operand, -sign)
    return [(sign, e)]


def ends_with_exit(stmts):
    if not stmts:
        return False
    last = stmts[-1]
    if isinstance(last, (ast.Return, ast.Raise, ast.Continue, ast.Break)):
        return True
    if isinstance(last, ast.If):
        return ends_with_exit(last.body) and ends_with_exit(last.orelse)
    return False


def if_branches(if_node):
    """(then-statements, else-statements) of an If, where a guard clause `if c: ...; return` followed by REST counts as
    `if c: ... else: REST` (the two spellings are the same program)."""
    orelse = if_node.orelse
    if not orelse and ends_with_exit(if_node.body):
        p = getattr(if_node, "_parent", None)
        for f in ("body", "orelse", "finalbody"):
            lst = getattr(p, f, None)
            if isinstance(lst, list) and if_node in lst:
                orelse = lst[lst.index(if_node) + 1:]
    return if_node.body, orelse


def bound_args(repo, fi, call):
    """{parameter name: argument expression} for a call to a function of the package (module-level, imported, or self.method),
    independent of keyword / positional spelling; defaults are filled in.  None when the callee cannot be resolved."""
    from .inline import _bind
    from .model import FuncInfo, ClassInfo
    f = call.func
    tgt, is_method = None, False
    if isinstance(f, ast.Name):
        tgt = repo.resolve_symbol(fi.module, f.id)
        if isinstance(tgt, ClassInfo):          # constructor call: bind against __init__
            tgt, is_method = tgt.methods.get("__init__"), True
    elif isinstance(f, ast.Attribute) and isinstance(f.value, ast.Name) and f.value.id == "self" and fi.cls is not None:
        tgt, is_method = fi.cls.methods.get(f.attr), True
    elif isinstance(f, ast.Attribute) and isinstance(f.value, ast.Name):
        imp = fi.module.imports.get(f.value.id)
        if imp and imp[1] is None and imp[0] in repo.modules:
            tgt = repo.modules[imp[0]].funcs.get(f.attr)
        elif imp and imp[1] and imp[0] in repo.modules:
            # from package import module as name
            sub = repo.modules.get(f"{imp[0]}.{imp[1]}")
            if sub is not None:
                tgt = sub.funcs.get(f.attr)
    if not isinstance(tgt, FuncInfo) and isinstance(f, ast.Attribute):
        tgt = repo._unique_methods().get(f.attr)
    if not isinstance(tgt, FuncInfo):
        return None
    if tgt.cls is not None and not is_method:
        is_method = True
    b = _bind(tgt.node, call, is_method)
    if b is not None and is_method:
        b.pop("self", None)
    return b


def path_conditions(func_node, target, guards=False):
    """[(test, truth)] of the If statements that enclose `target` in func_node (and of the guard clauses `if t: raise/return` that precede it in an enclosing block), outermost first; `elif` chains contribute the negation of
    every earlier test (an `elif` is an If inside an orelse)."""
    out = []

    def visit(stmts, conds):
        conds = list(conds)
        for st in stmts:
            if guards and isinstance(st, ast.If) and not st.orelse and st.body and isinstance(st.body[-1], (ast.Raise, ast.Return, ast.Continue, ast.Break)) \
                    and not any(n is target for n in ast.walk(st)):
                conds.append((st.test, False))       # a guard clause that leaves: what follows runs under the negated test
                continue
            if any(n is target for n in ast.walk(st)):
                if isinstance(st, ast.If):
                    if any(n is target for b in st.body for n in ast.walk(b)):
                        return visit(st.body, conds + [(st.test, True)])
                    if any(n is target for b in st.orelse for n in ast.walk(b)):
                        return visit(st.orelse, conds + [(st.test, False)])
                    return conds            # inside the test itself
                for fld in ("body", "orelse", "finalbody"):
                    blk = getattr(st, fld, None)
                    if isinstance(blk, list) and any(n is target for b in blk for n in ast.walk(b)):
                        return visit(blk, conds)
                if isinstance(st, ast.Try):
                    for h in st.handlers:
                        if any(n is target for b in h.body for n in ast.walk(b)):
                            return visit(h.body, conds)
                return conds
        return conds
    return visit(func_node.body, [])


def known_facts(func_node, target, total_order=True):
    """Atomic tests known TRUE where `target` executes, as canonical strings: conjuncts of enclosing `if` tests, and - on an else path - the
    negations of the disjuncts of the test (De Morgan), `not (a <= b)` read as `b < a` when total_order (lengths, sizes, indices)."""
    from .model import negate
    out = []

    def atoms(t, truth):
        if isinstance(t, ast.BoolOp):
            if isinstance(t.op, ast.And) and truth or isinstance(t.op, ast.Or) and not truth:
                for v in t.values:
                    atoms(v, truth)
            return
        if isinstance(t, ast.UnaryOp) and isinstance(t.op, ast.Not):
            atoms(t.operand, not truth)
            return
        if truth:
            out.append(t)
            return
        if isinstance(t, ast.Compare) and len(t.ops) == 1 and isinstance(t.ops[0], (ast.Lt, ast.LtE, ast.Gt, ast.GtE)):
            if not total_order:
                return
            a, b, o = t.left, t.comparators[0], t.ops[0]
            # not (a < b) == b <= a ;  not (a <= b) == b < a ;  not (a > b) == a <= b ;  not (a >= b) == a < b
            if isinstance(o, ast.Lt):
                out.append(ast.Compare(left=b, ops=[ast.LtE()], comparators=[a]))
            elif isinstance(o, ast.LtE):
                out.append(ast.Compare(left=b, ops=[ast.Lt()], comparators=[a]))
            elif isinstance(o, ast.Gt):
                out.append(ast.Compare(left=a, ops=[ast.LtE()], comparators=[b]))
            else:
                out.append(ast.Compare(left=a, ops=[ast.Lt()], comparators=[b]))
            return
        out.append(negate(t))
    for test, truth in path_conditions(func_node, target, guards=True):
        atoms(test, truth)
    res = []
    for a in out:
        if isinstance(a, ast.Compare) and len(a.ops) == 1 and isinstance(a.ops[0], (ast.Gt, ast.GtE)):
            a = ast.Compare(left=a.comparators[0], ops=[ast.Lt() if isinstance(a.ops[0], ast.Gt) else ast.LtE()], comparators=[a.left])
        res.append(ast.unparse(ast.fix_missing_locations(a)).replace(" ", ""))
    return res


def expand_table_comprehension(func_node, comp):
    """[x for x, _ in TABLE] / (d for _, d in TABLE) with TABLE a local name bound once to a literal list of tuples -> the selected column
    as a list of AST nodes (None when the shape is anything else)."""
    if not isinstance(comp, (ast.ListComp, ast.GeneratorExp)) or len(comp.generators) != 1:
        return None
    g = comp.generators[0]
    if g.ifs or not isinstance(g.iter, ast.Name) or not isinstance(comp.elt, ast.Name):
        return None
    defs = [a for a in ast.walk(func_node) if isinstance(a, ast.Assign) and any(isinstance(t, ast.Name) and t.id == g.iter.id for t in a.targets)]
    stores = [n for n in ast.walk(func_node) if isinstance(n, ast.Name) and n.id == g.iter.id and isinstance(n.ctx, ast.Store)]
    if len(defs) != 1 or len(stores) != 1 or not isinstance(defs[0].value, (ast.List, ast.Tuple)):
        return None
    rows = defs[0].value.elts
    if isinstance(g.target, ast.Name):
        return list(rows) if comp.elt.id == g.target.id else None
    if not isinstance(g.target, (ast.Tuple, ast.List)) or not all(isinstance(e, ast.Name) for e in g.target.elts):
        return None
    names = [e.id for e in g.target.elts]
    if comp.elt.id not in names or names.count(comp.elt.id) != 1:
        return None
    k = names.index(comp.elt.id)
    out = []
    for r in rows:
        if not isinstance(r, (ast.Tuple, ast.List)) or len(r.elts) != len(names):
            return None
        out.append(r.elts[k])
    return out


def simple_assigns(fn_node):
    """Assign statements `name = value` of a function, with parallel assignments `a, b = x, y` presented as the separate statements
    `a = x`, `b = y` (synthetic nodes positioned at the original statement)."""
    out = []
    for n in ast.walk(fn_node):
        if not isinstance(n, ast.Assign):
            continue
        if len(n.targets) == 1 and isinstance(n.targets[0], (ast.Tuple, ast.List)) and isinstance(n.value, (ast.Tuple, ast.List)) \
                and len(n.targets[0].elts) == len(n.value.elts) and not any(isinstance(e, ast.Starred) for e in n.value.elts):
            for t, v in zip(n.targets[0].elts, n.value.elts):
                a = ast.Assign(targets=[t], value=v, type_comment=None)
                ast.copy_location(a, n)
                a._parent = getattr(n, "_parent", None)
                out.append(a)
        else:
            out.append(n)
    return out
