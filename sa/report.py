"""Findings, known-findings matching, evidence writing and exit codes (shared by all checks).

Exit codes: 0 = every obligation discharged (known findings are printed, not alarmed);
1 = at least one violation not listed in known_findings.json (VIOLATION line printed);
2 = ANALYSIS-ERROR: an anchor vanished, an idiom is not understood, an instance count fell
    below the hand-confirmed floor, or the analyser crashed.  Never a silent pass.
"""
import json
import os
import sys
import time

VERIF = os.path.dirname(os.path.dirname(os.path.abspath(__file__)))
EVID = os.environ.get("VSA_EVID") or os.path.join(VERIF, "evidence")
KNOWN = os.path.join(VERIF, "known_findings.json")


class AnalysisError(Exception):
    """The analyser cannot decide: anchor vanished / idiom unknown / floor not met."""


class Finding:
    def __init__(self, rule, file, line, func, construct, reason, path=None, anchor=None):
        self.anchor = anchor
        self.rule = rule
        self.file = file
        self.line = line
        self.func = func
        self.construct = " ".join(str(construct).split())
        self.reason = reason
        self.path = path or []

    @property
    def key(self):
        # never keyed by line number: rule + function + a rule-chosen stable anchor (falls back to the construct text)
        return f"{self.rule}|{self.func}|{self.anchor or self.construct}"

    def as_dict(self):
        return {
            "rule": self.rule,
            "file": self.file,
            "line": self.line,
            "function": self.func,
            "construct": self.construct,
            "reason": self.reason,
            "path": self.path,
            "key": self.key,
        }


class Obligation:
    """One discharged (or failed) proof obligation, kept for evidence."""

    __slots__ = ("rule", "where", "what", "how", "nontrivial")

    def __init__(self, rule, where, what, how, nontrivial=True):
        self.rule, self.where, self.what, self.how, self.nontrivial = rule, where, what, how, nontrivial

    def as_dict(self):
        return {"rule": self.rule, "where": self.where, "obligation": self.what, "discharged_by": self.how}


class Report:
    def __init__(self, prop, tier="quick"):
        self.prop = prop
        self.tier = tier
        self.t0 = time.time()
        self.findings = []
        self.obligations = []
        self.rules = {}          # rule id -> one-line statement
        self.notes = []
        self.assumptions = []
        self.trusted = []
        self.analysed = {}
        self.floors = []         # (rule, name, count, floor)

    # -- recording -----------------------------------------------------------------
    def rule(self, rid, text):
        self.rules[rid] = text

    def ok(self, rule, where, what, how, nontrivial=True):
        self.obligations.append(Obligation(rule, where, what, how, nontrivial))

    def fail(self, rule, file, line, func, construct, reason, path=None, anchor=None):
        self.findings.append(Finding(rule, file, line, func, construct, reason, path, anchor))

    def floor(self, rule, name, count, floor):
        self.floors.append((rule, name, count, floor))
        if count < floor:
            raise AnalysisError(
                f"{rule}: only {count} instance(s) of '{name}' found, floor confirmed by hand is {floor} "
                "(anchor moved or idiom no longer recognised)"
            )

    def note(self, text):
        self.notes.append(text)

    def assume(self, text):
        if text not in self.assumptions:
            self.assumptions.append(text)

    def trust(self, text):
        if text not in self.trusted:
            self.trusted.append(text)

    def has_new_findings(self):
        """Is there a finding that is NOT a listed known finding? (A typing failure may be tolerated only then: the run is
        already decided as a violation; never on the strength of a known finding.)"""
        known = {k["key"] for k in self._known()}
        return any(f.key not in known for f in self.findings)

    # -- finishing -----------------------------------------------------------------
    def _known(self):
        if not os.path.exists(KNOWN):
            return []
        data = json.load(open(KNOWN))
        return [k for k in data.get("findings", []) if k.get("property") == self.prop]

    def finish(self, explanation, level="other"):
        known = self._known()
        known_keys = {k["key"]: k for k in known}
        new, listed = [], []
        for f in self.findings:
            (listed if f.key in known_keys else new).append(f)
        os.makedirs(os.path.join(EVID, "replay"), exist_ok=True)
        lines = []
        for f in listed:
            lines.append(f"KNOWN-FINDING: property={self.prop} {f.rule} {f.func}: {f.construct} -- {known_keys[f.key].get('what', f.reason)}")
        replay_paths = []
        for i, f in enumerate(new):
            rp = os.path.join(EVID, "replay", f"{self.prop}-{i}.json")
            json.dump({"property": self.prop, **f.as_dict(),
                       "rederive": f"./vcheck {self.prop} --explain {i}"}, open(rp, "w"), indent=1)
            replay_paths.append(rp)
            lines.append(f"VIOLATION property={self.prop} replay={rp}")
            lines.append(f"  {f.file}:{f.line} {f.rule} in {f.func}: {f.construct}")
            lines.append(f"    reason: {f.reason}")
            for p in f.path:
                lines.append(f"    via: {p}")
        n_ob = len(self.obligations) + len(self.findings)
        n_dis = len(self.obligations)
        distinct = len({(o.rule, o.where, o.what) for o in self.obligations if o.nontrivial})
        samples = [o.as_dict() for o in self._sample()]
        samples += [dict(f.as_dict(), status="known-finding") for f in listed]
        samples += [dict(f.as_dict(), status="VIOLATION") for f in new]
        ev = {
            "property_id": self.prop,
            "tier": self.tier,
            "seed": int(os.environ.get("VERIF_SEED", "0") or 0),
            "level": level,
            "coverage": {
                "explanation": explanation,
                "evaluations": max(n_ob, 1),
                "distinct_nontrivial": distinct,
                "rule": "; ".join(f"{k}: {v}" for k, v in sorted(self.rules.items())),
                "samples": samples or [{"note": "no obligations"}],
                "obligations": n_ob,
                "discharged": n_dis,
                "known_findings": len(listed),
                "checker_cmd": f"./vcheck {self.prop} --tier {self.tier}",
                "trusted_base": self.trusted,
                "analysed": self.analysed,
                "instance_floors": [
                    {"rule": r, "what": n, "found": c, "floor": fl} for r, n, c, fl in self.floors
                ],
                "notes": self.notes,
                "exhaustive": False,
            },
            "assumptions": self.assumptions,
            "wall_s": round(time.time() - self.t0, 3),
            "violations": len(new),
        }
        os.makedirs(EVID, exist_ok=True)
        json.dump(ev, open(os.path.join(EVID, f"{self.prop}.json"), "w"), indent=1, default=str)
        for ln in lines:
            print(ln)
        if new:
            print(f"FAIL property={self.prop} violations={len(new)} known={len(listed)} obligations={n_ob}")
            return 1
        print(f"OK property={self.prop} obligations={n_ob} discharged={n_dis} known_findings={len(listed)} "
              f"rules={len(self.rules)} wall={ev['wall_s']}s")
        return 0

    def _sample(self, per_rule=3):
        seen, out = {}, []
        for o in self.obligations:
            c = seen.get(o.rule, 0)
            if c < per_rule:
                out.append(o)
                seen[o.rule] = c + 1
        return out


def analysis_error(prop, tier, msg):
    """Write an (invalid-for-claim) evidence stub and return exit code 2."""
    print(f"ANALYSIS-ERROR property={prop} {msg}")
    os.makedirs(EVID, exist_ok=True)
    ev = {
        "property_id": prop, "tier": tier, "seed": 0, "level": "other",
        "coverage": {"explanation": f"ANALYSIS-ERROR: {msg}", "evaluations": 1, "distinct_nontrivial": 0,
                     "samples": [{"analysis_error": msg}]},
        "wall_s": 0.0, "violations": 0,
    }
    json.dump(ev, open(os.path.join(EVID, f"{prop}.json"), "w"), indent=1)
    return 2
