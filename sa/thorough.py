"""Extras of the thorough tier.  Everything here is still static (source is read, rewritten or handed to a static analyser;
wavespectra is never imported or executed) and NON-GATING: it is recorded in the evidence, it never turns a verdict.

1. clang static analyzer cross-reference on the C sources (properties with a native half).
2. Stability of the verdict over the behaviour-preserving rewrites of selftest/run.py: the whole rule set of the property is
   re-run on fifteen rewritten copies of the tree (renamed locals, swapped operands, flipped comparisons, split returns, hoisted constants, inserted log lines, positional dims,
   re-formatted / comment-stripped / blank-line-shifted sources).  A property that holds on /repo holds on each rewrite, so the
   expected result is the identical verdict; any difference is a defect of the CHECKER and is reported as such.
"""
import os
import subprocess
import sys

NATIVE = {"C03", "C04", "C05", "C06", "C07", "C17", "C18", "C20"}
VERIF = os.path.dirname(os.path.dirname(os.path.abspath(__file__)))


def clang_analyze(repo, rep):
    d = os.path.join(repo.root, "wavespectra", "partition", "specpart")
    src = os.path.join(d, "specpart.c")
    checkers = "core,unix,security,alpha.security.ArrayBoundV2"
    try:
        p = subprocess.run(["clang", "--analyze", "-Xclang", "-analyzer-output=text", "-Xanalyzer", f"-analyzer-checker={checkers}",
                            src, "-o", os.devnull], capture_output=True, text=True, timeout=300, cwd=d)
    except Exception as e:  # cross-reference only
        rep.note(f"thorough: clang --analyze not run ({type(e).__name__})")
        return
    warns = [l.strip() for l in p.stderr.splitlines() if " warning: " in l]
    rep.analysed["clang_analyzer_reports"] = len(warns)
    for w in warns:
        rep.note("thorough cross-reference (non-gating) clang --analyze: " + w.replace(d + "/", ""))
    rep.note(f"thorough: clang --analyze ({checkers}) gave {len(warns)} report(s) on specpart.c; the analyzer does not know that "
             "partinit() fills the work arrays nor the relation nspec == mk*mth, which R-C20-5 / R-C18-4 establish symbolically")


def variant_stability(prop, rep, rc_here):
    if os.environ.get("VSA_NO_VARIANTS") or os.environ.get("VSA_REPO"):
        return      # already inside a variant / scratch run
    sys.path.insert(0, VERIF)
    try:
        from selftest import run as st
    except Exception as e:
        rep.note(f"thorough: variant stability not run ({e})")
        return
    import concurrent.futures as cf
    names = ["identity"] + list(st.NEUTRAL_PY) + list(st.NEUTRAL_C)
    os.environ["VSA_PROPS"] = prop
    res = {}
    with cf.ProcessPoolExecutor(max_workers=min(10, len(names))) as ex:
        for name, r in ex.map(st.run_variant, names):
            res[name] = r[prop]
    base = res.pop("identity")
    stable = [n for n, r in res.items() if (r["rc"], r["known"]) == (base["rc"], base["known"])]
    rep.analysed["neutral_variants_tried"] = len(res)
    rep.analysed["neutral_variants_same_verdict"] = len(stable)
    for n, r in res.items():
        if n not in stable:
            rep.note(f"thorough (non-gating, CHECKER defect): verdict changed on behaviour-preserving variant '{n}': rc {base['rc']}->{r['rc']} {r['viol'] or r['err']}")
    rep.note(f"thorough: rule set re-run on {len(res)} behaviour-preserving rewrites of the tree ({', '.join(res)}): {len(stable)} gave the identical verdict")


def extras(prop, repo, rep):
    if prop in NATIVE:
        clang_analyze(repo, rep)
