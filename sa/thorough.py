"""Extras of the thorough tier.  Everything here is still static (source is read, rewritten or handed to a static analyser;
wavespectra is never imported or executed) and NON-GATING: it is recorded in the evidence, it never turns a verdict.

1. clang static analyzer cross-reference on the C sources (properties with a native half).
2. Stability of the verdict over the behaviour-preserving rewrites of selftest/run.py: the whole rule set of the property is
   re-run on fifteen rewritten copies of the tree (renamed locals, swapped operands, flipped comparisons, split returns, hoisted constants, inserted log lines, positional dims,
   re-formatted / comment-stripped / blank-line-shifted sources).  A property that holds on /repo holds on each rewrite, so the
   expected result is the identical verdict; any difference is a defect of the CHECKER and is reported as such.
"""
import os
import subprocess
import sys

NATIVE = {"C03", "C04", "C05", "C06", "C07", "C17", "C18", "C20"}
VERIF = os.path.dirname(os.path.dirname(os.path.abspath(__file__)))


def clang_analyze(repo, rep):
    d = os.path.join(repo.root, "wavespectra", "partition", "specpart")
    src = os.path.join(d, "specpart.c")
    checkers = "core,unix,security,alpha.security.ArrayBoundV2"
    try:
        p = subprocess.run(["clang", "--analyze", "-Xclang", "-analyzer-output=text", "-Xanalyzer", f"-analyzer-checker={checkers}",
                            src, "-o", os.devnull], capture_output=True, text=True, timeout=300, cwd=d)
    except Exception as e:  # cross-reference only
        rep.note(f"thorough: clang --analyze not run ({type(e).__name__})")
        return
    warns = [l.strip() for l in p.stderr.splitlines() if " warning: " in l]
    rep.analysed["clang_analyzer_reports"] = len(warns)
    for w in warns:
        rep.note("thorough cross-reference (non-gating) clang --analyze: " + w.replace(d + "/", ""))
    rep.note(f"thorough: clang --analyze ({checkers}) gave {len(warns)} report(s) on specpart.c; the analyzer does not know that "
             "partinit() fills the work arrays nor the relation nspec == mk*mth, which R-C20-5 / R-C18-4 establish symbolically")


def variant_stability(prop, rep, rc_here):
    if os.environ.get("VSA_NO_VARIANTS") or os.environ.get("VSA_REPO"):
        return      # already inside a variant / scratch run
    sys.path.insert(0, VERIF)
    try:
        from selftest import run as st
    except Exception as e:
        rep.note(f"thorough: variant stability not run ({e})")
        return
    import concurrent.futures as cf
    names = ["identity"] + list(st.NEUTRAL_PY) + list(st.NEUTRAL_C)
    os.environ["VSA_PROPS"] = prop
    res = {}
    with cf.ProcessPoolExecutor(max_workers=min(10, len(names))) as ex:
        for name, r in ex.map(st.run_variant, names):
            res[name] = r[prop]
    base = res.pop("identity")
    stable = [n for n, r in res.items() if (r["rc"], r["known"]) == (base["rc"], base["known"])]
    rep.analysed["neutral_variants_tried"] = len(res)
    rep.analysed["neutral_variants_same_verdict"] = len(stable)
    for n, r in res.items():
        if n not in stable:
            rep.note(f"thorough (non-gating, CHECKER defect): verdict changed on behaviour-preserving variant '{n}': rc {base['rc']}->{r['rc']} {r['viol'] or r['err']}")
    rep.note(f"thorough: rule set re-run on {len(res)} behaviour-preserving rewrites of the tree ({', '.join(res)}): {len(stable)} gave the identical verdict")


def _corpus_one(args):
    prop, patch, base = args
    import shutil, tempfile
    tmp = tempfile.mkdtemp(prefix="vsa-corpus-")
    try:
        shutil.copytree(os.path.join(os.environ.get("VSA_REPO_ORIG", "/repo"), "wavespectra"), os.path.join(tmp, "wavespectra"),
                        ignore=shutil.ignore_patterns("__pycache__", "*.so", "*.o"))
        r = subprocess.run(["patch", "-p1", "-s", "-d", tmp, "-i", patch], capture_output=True, text=True)
        if r.returncode:
            return patch, None
        env = dict(os.environ, VSA_REPO=tmp, VSA_EVID=os.path.join(tmp, "_e"), VSA_NO_VARIANTS="1")
        q = subprocess.run([os.path.join(VERIF, "vcheck"), prop], capture_output=True, text=True, env=env, cwd=VERIF, timeout=600)
        known = sum(1 for l in q.stdout.splitlines() if l.startswith("KNOWN-FINDING"))
        return patch, (q.returncode, known)
    finally:
        shutil.rmtree(tmp, ignore_errors=True)


def corpus_stability(prop, rep, base):
    """Re-run this property's rule set on every independently written behaviour-preserving refactoring kept under neutral/ and on
    every confirmed property-breaking change kept under seeded/ for this property (non-gating; scratch copies under $TMPDIR)."""
    if os.environ.get("VSA_NO_VARIANTS") or os.environ.get("VSA_REPO"):
        return
    import concurrent.futures as cf
    import glob
    neutral = sorted(glob.glob(os.path.join(VERIF, "neutral", "C*", "*ref*", "patch.diff")))
    seeded = sorted(glob.glob(os.path.join(VERIF, "seeded", f"{prop}-*", "patch.diff")))
    jobs = [(prop, p, base) for p in neutral + seeded]
    if not jobs:
        return
    res = {}
    with cf.ProcessPoolExecutor(max_workers=12) as ex:
        for p, r in ex.map(_corpus_one, jobs):
            res[p] = r
    same = [p for p in neutral if res.get(p) == base]
    rep.analysed["neutral_corpus_tried"] = len(neutral)
    rep.analysed["neutral_corpus_same_verdict"] = len(same)
    for p in neutral:
        if res.get(p) is not None and res[p] != base:
            rep.note(f"thorough (non-gating, CHECKER defect): verdict {base}->{res[p]} on behaviour-preserving refactoring {os.path.relpath(p, VERIF)}")
    caught = [p for p in seeded if res.get(p) and res[p][0] == 1]
    rep.analysed["seeded_changes_for_this_property"] = len(seeded)
    rep.analysed["seeded_changes_reported"] = len(caught)
    for p in seeded:
        if p not in caught:
            rep.note(f"thorough: seeded change {os.path.relpath(os.path.dirname(p), VERIF)} is NOT reported by this check (documented miss, DESIGN 10.3)"
                     if res.get(p) and res[p][0] == 0 else f"thorough: seeded change {os.path.relpath(os.path.dirname(p), VERIF)} -> {res.get(p)}")
    rep.note(f"thorough: {len(same)}/{len(neutral)} independent neutral refactorings keep the verdict; {len(caught)}/{len(seeded)} seeded "
             f"property-breaking changes for {prop} are reported")


def extras(prop, repo, rep):
    if prop in NATIVE:
        clang_analyze(repo, rep)
