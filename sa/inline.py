"""E0 normalisation: calls to NEW private helpers are inlined into their callers before any rule runs.

Why: "extract a private helper" is the most common behaviour-preserving refactoring; most rules reason about one function body
(CFG, reaching definitions, order provenance, path enumeration), and a statement moved into `_helper()` would otherwise vanish
from their view (exit 2) or be seen through a coarser interprocedural summary (false alarm).  Inlining a helper at its call
sites reproduces the body the rules were written for, so the verdict is that of the un-refactored code.

Which helpers: functions / methods of the package whose name starts with one underscore and is NOT in KNOWN_PRIVATE (the private
names that existed when the rules were written; some are anchors of rules and must keep their call sites).  A helper is inlined
only when that is sound as a source transformation:
  * plain `def` (no decorator other than staticmethod, no *args/**kwargs, no yield/await/global/nonlocal, not recursive);
  * every `return` is in tail position (last statement, possibly inside trailing if/else), so `return e` can become `target = e`;
  * call forms  `T = h(..)`,  `return h(..)`,  `h(..)` as a statement;  or anywhere in an expression when the body is a single
    `return <expr>`.
Locals of the helper are renamed apart; a parameter is substituted by its argument when the argument is a plain name/attribute/
constant and the helper never rebinds the parameter (or the call is `x = h(x, ..)` and every return returns that parameter);
otherwise it is bound by an explicit assignment in front.  Names the helper takes from its own module are made resolvable in the
caller's module.  Anything else is left as a call (the rules then see a call, as before).
"""
import ast


def _clone(node):
    """Structural copy of an AST (the repository model hangs `_parent` back-pointers on nodes: copy.deepcopy would follow them
    and copy the whole module for every expression)."""
    if isinstance(node, list):
        return [_clone(x) for x in node]
    if not isinstance(node, ast.AST):
        return node
    new = type(node)()
    for f in node._fields:
        if hasattr(node, f):
            setattr(new, f, _clone(getattr(node, f)))
    for a in ("lineno", "col_offset", "end_lineno", "end_col_offset"):
        if hasattr(node, a):
            setattr(new, a, getattr(node, a))
    return new


class copy:          # noqa: N801  (drop-in for the two call styles used below)
    deepcopy = staticmethod(_clone)

KNOWN_PRIVATE = frozenset("""
_append_spectrum _check_and_stack_dims _combine_last _construct_spectra _fit_gaussian _fit_jonswap _frequency_resolution
_get_cf_attributes _get_obs_files _get_timestamp _import_functions _interp_freq _is_180 _is_360 _is_circular _is_contiguous
_my_name _non_spec_dims _partition_stats _peak _plot_partitions _polar_dir _read_header _read_obscape_file _read_spotter_csv
_read_spotter_json _set_attributes _set_labels _set_metadata _spec_dims _standard_name _swap_longitude_convention _to_logradius
_to_period _units _validate _wrapper
""".split())


KNOWN_FUNCS = frozenset("""
__call__ __getattr__ __getitem__ __init__ __new__ __repr__ __setitem__ _append_spectrum _check_and_stack_dims _combine_last
_construct_spectra _fit_gaussian _fit_jonswap _frequency_resolution _get_cf_attributes _get_obs_files _get_timestamp
_import_functions _interp_freq _is_180 _is_360 _is_circular _is_contiguous _my_name _non_spec_dims _partition_stats _peak
_plot_partitions _polar_dir _read_header _read_obscape_file _read_spotter_csv _read_spotter_json _set_attributes _set_labels
_set_metadata _spec_dims _standard_name _swap_longitude_convention _to_logradius _to_period _units _validate _wrapper alpha angle
asymmetric bbox cartwright cbar_ticks celerity check_same_coordinates chunks_dict close combine_partitions_hp01 conditional
construct_dataset construct_partition construct_spectra convert coords crsd darr data dd df dfp_swell dfp_wsea dims dir dirs
distance dm dname dp dpm dpspr dspr extract_direction fdspr file_reader filenames fit_gaussian fit_gaussian_params
fit_gaussian_spectra fit_jonswap fit_jonswap_params fit_jonswap_spectra flatten_list fname format fp freq freqs from_era5
from_ncswan from_ndbc from_ww3 from_wwm funwave_spectrum gamma gaussian goda guess_can_open gw hmax hp01 hrms hs interp
interp_like interp_spec is_overlap jonswap kwargs load_function location lons main match_consecutive_partitions
mean_direction_at_peak_wave_period mom1 momd momf mss nearer nearest np_hp01 np_hp01_wseabins np_hp01_wseafrac_wseabins np_ptm1
np_ptm2 np_ptm3 np_track_partitions oned open open_dataset open_netcdf open_netcdf_or_zarr parse_awac_nmea
parse_awac_nmnea_wave_parameters parse_kwargs partition partition_and_reconstruct peak_directional_spread peak_wave_direction
peak_wave_period pierson_moskowitz plot polar_plot ptm1 ptm1_track ptm2 ptm3 ptm4 ptm5 radii_ticklabels radii_ticks read
read_ascii_or_binary read_awac read_awac_strings read_data read_dataset read_datawell read_era5 read_file read_funwave read_header
read_hotswan read_json read_ncswan read_ndbc read_ndbc_ascii read_netcdf read_obscape read_obscape_dir read_octopus read_params
read_spectra read_spotter read_swan read_swanow read_swans read_tab read_triaxys read_wavespectra read_ww3 read_ww3_station
read_wwm read_xwaves readall reconstruct regrid_spec rmax rmin rmse rotate run scale_by_hs scaled sel sel_bbox sel_idw sel_nearest
set_spec_attributes smooth smooth_spec spddir_to_uv spectra split spread_hp01 stats sw swe time tm01 tm02 tma to_coords to_energy
to_funwave to_json to_nautical to_netcdf to_octopus to_orcaflex to_swan to_ww3 tp tps track_partitions unique_indices unique_times
uss uss_x uss_y uv_to_spddir waveage wavelen wavenuma write_header write_spectra
""".split())


def _is_candidate_name(name):
    """A function that did not exist (under that name) when the rules were written: a helper produced by extract / split / move
    refactorings, private or not.  Dunder names never."""
    return not name.startswith("__") and name not in KNOWN_FUNCS and name not in KNOWN_PRIVATE


import json as _json
import os as _os

PIN = _json.load(open(_os.path.join(_os.path.dirname(_os.path.abspath(__file__)), "pin_tables.json")))
PIN_FUNCS = PIN["functions"]


def is_new_function(fi):
    """The function (by qualified name) did not exist when the rules were written: produced by an extract / split / move / method-to-function
    refactoring.  A module-level `_is_180(array)` next to the pinned method `Coordinates._is_180` is new although the bare name is not."""
    return fi is not None and not fi.name.startswith("__") and fi.qualname not in PIN_FUNCS


def _strip_doc(body):
    if body and isinstance(body[0], ast.Expr) and isinstance(body[0].value, ast.Constant) and isinstance(body[0].value.value, str):
        return body[1:]
    return body


def _ends_with_return(stmts):
    if not stmts:
        return False
    last = stmts[-1]
    if isinstance(last, ast.Return):
        return True
    if isinstance(last, ast.If):
        return _ends_with_return(last.body) and _ends_with_return(last.orelse)
    return False


def _else_form(stmts):
    """`if c: ...; return a` followed by REST  ==  `if c: ...; return a  else: REST` (so that every return is in tail position)."""
    out = []
    for i, st in enumerate(stmts):
        if isinstance(st, ast.If):
            st.body = _else_form(st.body)
            st.orelse = _else_form(st.orelse)
            if not st.orelse and _ends_with_return(st.body) and i + 1 < len(stmts):
                st.orelse = _else_form(stmts[i + 1:])
                out.append(st)
                return out
        out.append(st)
    return out


def _tail_returns(stmts):
    """Return nodes in tail position of a statement list."""
    if not stmts:
        return []
    last = stmts[-1]
    if isinstance(last, ast.Return):
        return [last]
    if isinstance(last, ast.If):
        return _tail_returns(last.body) + _tail_returns(last.orelse)
    return []


def _eligible(fn, is_method):
    if any(not (isinstance(d, ast.Name) and d.id == "staticmethod") for d in fn.decorator_list):
        return False
    a = fn.args
    if a.kwarg or a.posonlyargs:
        return False
    if a.vararg and any(isinstance(x, ast.Name) and x.id == a.vararg.arg and isinstance(x.ctx, ast.Store) for x in ast.walk(fn)):
        return False        # *args is bound to the tuple of the extra positional arguments; it must not be rebound
    # a mutable default is ONE object shared by all calls: substituting the default expression at each call site would change that
    for d in list(a.defaults) + [x for x in a.kw_defaults if x is not None]:
        if not (isinstance(d, ast.Constant) or (isinstance(d, ast.UnaryOp) and isinstance(d.operand, ast.Constant)) or
                isinstance(d, (ast.Name, ast.Attribute)) or (isinstance(d, ast.Tuple) and all(isinstance(e, ast.Constant) for e in d.elts))):
            return False
    for n in ast.walk(fn):
        if isinstance(n, (ast.Yield, ast.YieldFrom, ast.Await, ast.Global, ast.Nonlocal, ast.AsyncFunctionDef, ast.ClassDef)):
            return False
        if isinstance(n, (ast.Try, ast.With, ast.For, ast.While)) and any(isinstance(x, ast.Return) for x in ast.walk(n)):
            return False            # a return from inside a loop / try / with is not in tail position
        if isinstance(n, ast.FunctionDef) and n is not fn:
            return False
        if isinstance(n, ast.Call) and isinstance(n.func, ast.Name) and n.func.id == fn.name:
            return False
        if isinstance(n, ast.Call) and isinstance(n.func, ast.Attribute) and n.func.attr == fn.name and is_method:
            return False
        if isinstance(n, ast.Call) and isinstance(n.func, ast.Name) and n.func.id in ("locals", "vars", "eval", "exec", "globals"):
            return False
    body = _else_form(_clone(_strip_doc(fn.body)))
    holder = ast.Module(body=body, type_ignores=[])
    rets = [n for n in ast.walk(holder) if isinstance(n, ast.Return)]
    tails = _tail_returns(body)
    if len(rets) != len(tails) or any(r not in tails for r in rets):
        return False
    return True


def _assigned_names(fn):
    out = set()
    for n in ast.walk(fn):
        if isinstance(n, ast.Name) and isinstance(n.ctx, (ast.Store, ast.Del)):
            out.add(n.id)
        elif isinstance(n, (ast.Import, ast.ImportFrom)):
            out |= {(x.asname or x.name).split(".")[0] for x in n.names}
    # names bound only inside comprehensions are scoped there: leave them alone
    comp = set()
    for n in ast.walk(fn):
        if isinstance(n, (ast.ListComp, ast.SetComp, ast.DictComp, ast.GeneratorExp)):
            for g in n.generators:
                for x in ast.walk(g.target):
                    if isinstance(x, ast.Name):
                        comp.add(x.id)
    direct = set()
    for n in ast.walk(fn):
        if isinstance(n, (ast.Assign, ast.AugAssign, ast.AnnAssign, ast.For, ast.With, ast.NamedExpr)):
            tg = []
            if isinstance(n, ast.Assign):
                tg = n.targets
            elif isinstance(n, (ast.AugAssign, ast.AnnAssign, ast.NamedExpr)):
                tg = [n.target]
            elif isinstance(n, ast.For):
                tg = [n.target]
            elif isinstance(n, ast.With):
                tg = [i.optional_vars for i in n.items if i.optional_vars is not None]
            for t in tg:
                for x in ast.walk(t):
                    if isinstance(x, ast.Name) and isinstance(x.ctx, ast.Store):
                        direct.add(x.id)
    return (out - comp) | direct


class _Subst(ast.NodeTransformer):
    def __init__(self, names, exprs):
        self.names = names      # old local name -> new local name
        self.exprs = exprs      # parameter name -> expression (copied at each use)

    def visit_Name(self, n):
        if n.id in self.exprs and isinstance(n.ctx, ast.Load):
            return copy.deepcopy(self.exprs[n.id])
        if n.id in self.names:
            return ast.copy_location(ast.Name(id=self.names[n.id], ctx=n.ctx), n)
        return n


def _simple(e):
    return isinstance(e, (ast.Name, ast.Constant)) or (isinstance(e, ast.Attribute) and _simple(e.value))


def _bind(fn, call, is_method):
    """parameter -> argument expression (or None when the call cannot be bound statically)."""
    a = fn.args
    params = [x.arg for x in a.args] + [x.arg for x in a.kwonlyargs]
    pos = [x.arg for x in a.args]
    if is_method and pos and pos[0] in ("self", "cls"):
        bound = {pos[0]: ast.Name(id="self", ctx=ast.Load())}
        pos = pos[1:]
    else:
        bound = {}
    if any(isinstance(x, ast.Starred) for x in call.args) or any(k.arg is None for k in call.keywords):
        return None
    if len(call.args) > len(pos) and not a.vararg:
        return None
    for p, v in zip(pos, call.args):
        bound[p] = v
    if a.vararg:
        bound[a.vararg.arg] = ast.Tuple(elts=list(call.args[len(pos):]), ctx=ast.Load())
    for k in call.keywords:
        if k.arg not in params or k.arg in bound:
            return None
        bound[k.arg] = k.value
    dpos = dict(zip([x.arg for x in a.args][len(a.args) - len(a.defaults):], a.defaults))
    dkw = {x.arg: d for x, d in zip(a.kwonlyargs, a.kw_defaults) if d is not None}
    for p in params:
        if p not in bound:
            d = dpos.get(p, dkw.get(p))
            if d is None:
                return None
            bound[p] = d
    return bound


def _expand(fn, call, mode, target, uid, is_method):
    """Statements replacing a statement-level call; None when not possible."""
    bound = _bind(fn, call, is_method)
    if bound is None:
        return None
    body = _else_form(copy.deepcopy(_strip_doc(fn.body)))
    holder = ast.Module(body=body, type_ignores=[])
    assigned = _assigned_names(fn)
    params = list(bound)
    rebound = {p for p in params if p in assigned}
    prefix = f"_{fn.name.lstrip('_')}{uid}__"
    names = {n: prefix + n for n in assigned if n not in params}
    exprs, pre = {}, []
    ret_names = {r.value.id if isinstance(r.value, ast.Name) else None for r in _tail_returns(body)}
    if mode == "assign" and isinstance(target, ast.Name) and len(ret_names) == 1 and None not in ret_names:
        r = next(iter(ret_names))
        if r in names and r not in params and (target.id not in assigned or target.id == r) and not any(
                isinstance(a_, ast.Name) and a_.id == target.id for v_ in bound.values() for a_ in ast.walk(v_)):
            names[r] = target.id                # the helper's result variable becomes the caller's target
    trets = _tail_returns(body)
    if mode == "assign" and isinstance(target, ast.Tuple) and trets and all(isinstance(t_, ast.Name) for t_ in target.elts) and \
            all(isinstance(r_.value, ast.Tuple) and len(r_.value.elts) == len(target.elts) for r_ in trets):
        for i_, t_ in enumerate(target.elts):
            cand = {r_.value.elts[i_].id if isinstance(r_.value.elts[i_], ast.Name) else None for r_ in trets}
            if len(cand) == 1 and None not in cand:
                r = next(iter(cand))
                if r in names and r not in params and (t_.id not in assigned or t_.id == r) and t_.id not in names.values() and not any(
                        isinstance(a_, ast.Name) and a_.id == t_.id for v_ in bound.values() for a_ in ast.walk(v_)):
                    names[r] = t_.id
    for p in params:
        arg = bound[p]
        if p in rebound:
            # x = h(x, ..): inside the helper the parameter is a private copy of the reference; the caller's x is overwritten by the
            # result of this very statement, so letting the helper's rebinding act on x itself is unobservable
            same = mode == "assign" and isinstance(target, ast.Name) and isinstance(arg, ast.Name) and arg.id == target.id
            if same:
                names[p] = target.id            # x = h(x, ..) with every return returning that parameter: works on x itself
            else:
                names[p] = prefix + p
                pre.append(ast.Assign(targets=[ast.Name(id=prefix + p, ctx=ast.Store())], value=copy.deepcopy(arg)))
        elif _simple(arg):
            exprs[p] = arg
        else:
            uses = sum(1 for n in ast.walk(holder) if isinstance(n, ast.Name) and n.id == p)
            if uses <= 1 and not pre:
                exprs[p] = arg
            else:
                names[p] = prefix + p
                pre.append(ast.Assign(targets=[ast.Name(id=prefix + p, ctx=ast.Store())], value=copy.deepcopy(arg)))
    _Subst(names, exprs).visit(holder)

    def fix_tail(stmts):
        if not stmts:
            e0 = _ret_stmt(None)
            return (e0 if isinstance(e0, list) else [e0]) if (mode != "expr" and e0 is not None) else []
        last = stmts[-1]
        if isinstance(last, ast.Raise):
            return stmts
        if isinstance(last, ast.Return):
            rs = _ret_stmt(last.value)
            return stmts[:-1] + (rs if isinstance(rs, list) else [rs] if rs is not None else [])
        if isinstance(last, ast.If) and (any(isinstance(x, ast.Return) for x in ast.walk(last))):
            last.body = fix_tail(last.body) or [ast.Pass()]
            last.orelse = fix_tail(last.orelse)
            return stmts
        # falls off the end: returns None
        extra = _ret_stmt(None)
        return stmts + ((extra if isinstance(extra, list) else [extra]) if extra is not None and mode != "expr" else [])

    def _ret_stmt(value):
        v = value if value is not None else ast.Constant(value=None)
        if mode == "assign":
            if isinstance(target, ast.Name) and isinstance(v, ast.Name) and v.id == target.id:
                return None                     # x = x
            if isinstance(target, ast.Tuple) and isinstance(v, ast.Tuple) and len(target.elts) == len(v.elts) and \
                    all(isinstance(t_, ast.Name) for t_ in target.elts) and \
                    not any(isinstance(x, ast.Name) and x.id in {t_.id for t_, e2 in zip(target.elts, v.elts)
                                                                   if not (isinstance(e2, ast.Name) and e2.id == t_.id)}
                            for e_ in v.elts for x in ast.walk(e_)):
                return [ast.Assign(targets=[copy.deepcopy(t_)], value=e_) for t_, e_ in zip(target.elts, v.elts)
                        if not (isinstance(e_, ast.Name) and e_.id == t_.id)]
            return ast.Assign(targets=[copy.deepcopy(target)], value=v)
        if mode == "return":
            return ast.Return(value=v)
        if value is None or isinstance(value, (ast.Name, ast.Constant)):
            return None
        return ast.Expr(value=v)
    out = pre + fix_tail(holder.body)
    if not out:
        out = [ast.Pass()]
    for st in out:
        for n in ast.walk(st):
            n.lineno = getattr(call, "lineno", 1)
            n.col_offset = getattr(call, "col_offset", 0)
            n.end_lineno = getattr(call, "end_lineno", n.lineno)
            n.end_col_offset = getattr(call, "end_col_offset", 0)
    return out


def _single_expr(fn):
    body = _strip_doc(fn.body)
    if len(body) == 1 and isinstance(body[0], ast.Return) and body[0].value is not None:
        return body[0].value
    return None


class _Inliner(ast.NodeTransformer):
    def __init__(self, repo, module, cls_methods, resolver):
        self.repo, self.module, self.cls_methods, self.resolve = repo, module, cls_methods, resolver
        self.count = 0
        self.uid = 0
        self.used = []       # helpers inlined (FuncInfo)

    def _helper(self, call):
        f = call.func
        if isinstance(f, ast.Name):
            fi = self.resolve(f.id)
            if fi is not None and fi.cls is None and is_new_function(fi):
                return fi, False
        if isinstance(f, ast.Attribute) and isinstance(f.value, ast.Name) and f.value.id == "self":
            fi = self.cls_methods.get(f.attr)
            if fi is not None and not fi.is_property and is_new_function(fi):
                return fi, True
        if isinstance(f, ast.Attribute) and isinstance(f.value, ast.Name) and f.value.id != "self":
            imp = self.module.imports.get(f.value.id)
            if imp:
                cand = [imp[0]] if imp[1] is None else [f"{imp[0]}.{imp[1]}", imp[0]]
                for mn in cand:
                    src = self.repo.modules.get(mn)
                    if src is not None and f.attr in src.funcs and is_new_function(src.funcs[f.attr]):
                        return src.funcs[f.attr], False
        return None, False

    def _if_test(self, st):
        """`if h(..):` / `if not h(..):` with a multi-statement helper: evaluate it into a temporary first."""
        t = st.test
        neg = isinstance(t, ast.UnaryOp) and isinstance(t.op, ast.Not)
        c = t.operand if neg else t
        if not isinstance(c, ast.Call):
            return None
        fi, is_method = self._helper(c)
        if fi is None or not _eligible(fi.node, is_method) or _single_expr(fi.node) is not None:
            return None
        self.uid += 1
        tmp = f"_{fi.node.name.lstrip('_')}{self.uid}_result"
        out = _expand(fi.node, c, "assign", ast.Name(id=tmp, ctx=ast.Store()), self.uid, is_method)
        if out is None:
            return None
        name = ast.Name(id=tmp, ctx=ast.Load())
        st.test = ast.UnaryOp(op=ast.Not(), operand=name) if neg else name
        for n in ast.walk(st.test):
            ast.copy_location(n, c)
        self.count += 1
        self.used.append(fi)
        return out + [st]

    def _stmt(self, st):
        if isinstance(st, ast.If):
            return self._if_test(st)
        call = mode = target = None
        if isinstance(st, ast.Assign) and len(st.targets) == 1 and isinstance(st.value, ast.Call):
            call, mode, target = st.value, "assign", st.targets[0]
        elif isinstance(st, ast.Return) and isinstance(st.value, ast.Call):
            call, mode = st.value, "return"
        elif isinstance(st, ast.Expr) and isinstance(st.value, ast.Call):
            call, mode = st.value, "expr"
        if call is None:
            return None
        fi, is_method = self._helper(call)
        if fi is None or not _eligible(fi.node, is_method):
            return None
        self.uid += 1
        out = _expand(fi.node, call, mode, target, self.uid, is_method)
        if out is not None:
            self.count += 1
            self.used.append(fi)
        return out

    def _block(self, stmts):
        out = []
        for st in stmts:
            rep = self._stmt(st)
            if rep is None:
                out.append(self.generic_visit(st))
            else:
                out.extend(self.generic_visit(x) for x in rep)
        return out

    def generic_visit(self, node):
        for f in ("body", "orelse", "finalbody"):
            v = getattr(node, f, None)
            if isinstance(v, list) and v and isinstance(v[0], ast.stmt):
                setattr(node, f, self._block(v))
        for f, v in ast.iter_fields(node):
            if f in ("body", "orelse", "finalbody") and isinstance(v, list) and v and isinstance(v[0], ast.stmt):
                continue
            if isinstance(v, list):
                new = []
                for x in v:
                    if isinstance(x, ast.AST):
                        x = self.visit(x)
                        if x is None:
                            continue
                    new.append(x)
                v[:] = new
            elif isinstance(v, ast.AST):
                nv = self.visit(v)
                setattr(node, f, nv)
        return node

    def visit_Call(self, c):
        self.generic_visit(c)
        fi, is_method = self._helper(c)
        if fi is None or not _eligible(fi.node, is_method):
            return c
        e = _single_expr(fi.node)
        if e is None:
            return c
        bound = _bind(fi.node, c, is_method)
        if bound is None:
            return c
        e = copy.deepcopy(e)
        holder = ast.Expression(body=e)
        for p, arg in bound.items():
            uses = sum(1 for n in ast.walk(holder) if isinstance(n, ast.Name) and n.id == p)
            if uses > 1 and not _simple(arg):
                return c
        _Subst({}, bound).visit(holder)
        for n in ast.walk(holder.body):
            ast.copy_location(n, c)
        self.count += 1
        self.used.append(fi)
        return holder.body


def _monotone_lines(fn):
    """Statements of an expanded helper all carry the line of the call they replaced; rules order statements by line number
    (reaching assignment `before` a use).  Make line numbers strictly increasing in statement order inside this function; only
    statements that would otherwise tie or go backwards are moved (reports for such a function may then show a shifted line)."""
    prev = [fn.lineno]

    def bump(st):
        if getattr(st, "lineno", None) is None:
            return
        if st.lineno <= prev[0]:
            delta = prev[0] + 1 - st.lineno
            for n in ast.walk(st):
                if hasattr(n, "lineno") and n.lineno is not None:
                    n.lineno += delta
                if getattr(n, "end_lineno", None) is not None:
                    n.end_lineno += delta
        prev[0] = st.lineno

    def walk(stmts):
        for st in stmts:
            bump(st)
            for f in ("body", "orelse", "finalbody"):
                v = getattr(st, f, None)
                if isinstance(v, list) and v and isinstance(v[0], ast.stmt):
                    walk(v)
            if isinstance(st, ast.Try):
                for h in st.handlers:
                    walk(h.body)
            prev[0] = max(prev[0], getattr(st, "end_lineno", None) or prev[0]) if not any(
                isinstance(getattr(st, f, None), list) and getattr(st, f) and isinstance(getattr(st, f)[0], ast.stmt) for f in ("body", "orelse", "finalbody")) else prev[0]
    walk(fn.body)


_ALL_USED = set()


def inline_new_private_helpers(repo):
    """Mutates the function bodies of repo in place; returns the number of call sites expanded."""
    total = 0
    _ALL_USED.clear()
    for _round in range(3):
        n_round = 0
        for m in repo.modules.values():
            def resolver(name, m=m):
                fi = m.funcs.get(name)
                if fi is not None:
                    return fi
                imp = m.imports.get(name)
                if imp and imp[1]:
                    src = repo.modules.get(imp[0])
                    if src is not None:
                        return src.funcs.get(imp[1])
                return None
            todo = [(fi, {}) for fi in m.funcs.values()]
            for c in m.classes.values():
                todo += [(fi, c.methods) for fi in c.methods.values()]
            for fi, methods in todo:
                inl = _Inliner(repo, m, methods, resolver)
                inl.generic_visit(fi.node)
                if inl.count:
                    n_round += inl.count
                    _ALL_USED.update(h.name for h in inl.used)
                    # names the helpers take from their own module must resolve in this module too
                    for h in inl.used:
                        if h.module is not m:
                            for n in ast.walk(h.node):
                                if isinstance(n, ast.Name) and isinstance(n.ctx, ast.Load):
                                    g = n.id
                                    if g in m.imports or g in m.funcs or g in m.classes or g in m.consts:
                                        continue
                                    if g in h.module.imports:
                                        m.imports[g] = h.module.imports[g]
                                    elif g in h.module.funcs or g in h.module.classes or g in h.module.consts:
                                        m.imports[g] = (h.module.name, g)
                    ast.fix_missing_locations(fi.node)
                    _monotone_lines(fi.node)
        total += n_round
        if not n_round:
            break
    # helpers whose every call site was expanded are analysed in their callers' context only
    used_names = {}
    for m in repo.modules.values():
        pass
    repo.inlined_helpers = set()
    if total:
        remaining = set()
        new_names = {fi.name for m in repo.modules.values() for fi in list(m.funcs.values()) + [x for c in m.classes.values() for x in c.methods.values()]
                     if is_new_function(fi)}
        for m in repo.modules.values():
            for n in ast.walk(m.tree):
                if isinstance(n, ast.Call):
                    f = n.func
                    nm = f.id if isinstance(f, ast.Name) else f.attr if isinstance(f, ast.Attribute) else None
                    if nm and nm in new_names:
                        remaining.add(nm)
                elif isinstance(n, ast.Name) and isinstance(n.ctx, ast.Load) and n.id in new_names and not isinstance(getattr(n, "_parent", None), ast.Call):
                    remaining.add(n.id)          # passed around as a value
        for m in repo.modules.values():
            for fi in list(m.funcs.values()) + [x for c in m.classes.values() for x in c.methods.values()]:
                if is_new_function(fi) and fi.name not in remaining and fi.name in _ALL_USED:
                    repo.inlined_helpers.add(fi.qualname)
    if total:
        for m in repo.modules.values():
            for n in ast.walk(m.tree):
                for c in ast.iter_child_nodes(n):
                    c._parent = n
    return total
