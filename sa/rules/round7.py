"""Cross-cutting rules added in round 7 (each is wired into the properties it is a necessary condition of)."""
import ast

from ..model import call_name, unparse
from ..report import AnalysisError


# ---------------------------------------------------------------------------------------------------------------------
def _num_kind(e, defaults, consts):
    """Python-level numeric kind of an expression made of literals, parameters with literal defaults and module constants:
    'int' / 'float' / None (unknown: arrays, attributes, calls)."""
    if isinstance(e, ast.Constant):
        if isinstance(e.value, bool):
            return None
        if isinstance(e.value, int):
            return "int"
        if isinstance(e.value, float):
            return "float"
        return None
    if isinstance(e, ast.Name):
        if e.id in defaults:
            return _num_kind(defaults[e.id], {}, consts)
        if e.id in consts:
            return consts[e.id]
        return None
    if isinstance(e, ast.UnaryOp) and isinstance(e.op, (ast.USub, ast.UAdd)):
        return _num_kind(e.operand, defaults, consts)
    if isinstance(e, ast.BinOp):
        a, b = _num_kind(e.left, defaults, consts), _num_kind(e.right, defaults, consts)
        if isinstance(e.op, ast.Div):
            return "float" if a and b else None
        if a == "float" and b or b == "float" and a:
            return "float"
        if a == "int" and b == "int":
            return "int"
        return None
    if isinstance(e, ast.Call) and isinstance(e.func, ast.Name) and e.func.id == "float":
        return "float"
    return None


def _is_dir_coord(e):
    """self.dir / self.dir.values / <x>[attrs.DIRNAME] / <x>.dir (the direction coordinate as stored, integer labels possible)."""
    while isinstance(e, ast.Attribute) and e.attr in ("values", "data"):
        e = e.value
    if isinstance(e, ast.Attribute) and e.attr == "dir" and isinstance(e.value, ast.Name) and e.value.id == "self":
        return True
    return False


def int_meets_direction(repo, rep, rule):
    """NEP 50 (NumPy 2): a Python int combined with an integer-typed array adopts the array's dtype.  Direction labels may be
    stored as (unsigned) integers; `270 - dir` then wraps around or raises where `270.0 - dir` is exact.  In the accessor every
    constant offset that meets the stored direction coordinate additively is therefore a float (literal, default or constant)."""
    cls = repo.cls("wavespectra.specarray.SpecArray")
    n = 0
    for mn, fi in cls.methods.items():
        a = fi.node.args
        pos = a.posonlyargs + a.args
        defaults = dict(zip([x.arg for x in pos[len(pos) - len(a.defaults):]], a.defaults))
        defaults.update({x.arg: d for x, d in zip(a.kwonlyargs, a.kw_defaults) if d is not None})
        # parameters that are reassigned lose their default kind
        for s in ast.walk(fi.node):
            if isinstance(s, (ast.Assign, ast.AugAssign)):
                for t in (s.targets if isinstance(s, ast.Assign) else [s.target]):
                    for x in ast.walk(t):
                        if isinstance(x, ast.Name) and isinstance(x.ctx, ast.Store):
                            defaults.pop(x.id, None)
        for b in ast.walk(fi.node):
            if not (isinstance(b, ast.BinOp) and isinstance(b.op, (ast.Add, ast.Sub))):
                continue
            for d, o in ((b.left, b.right), (b.right, b.left)):
                if not _is_dir_coord(d):
                    continue
                n += 1
                k = _num_kind(o, defaults, {})
                if k == "int":
                    rep.fail(rule, fi.file, b.lineno, fi.qualname, unparse(b)[:100],
                             f"the integer-valued offset '{unparse(o)}' meets the stored direction coordinate: under NumPy 2 promotion a Python int adopts "
                             "the dtype of integer direction labels, so unsigned labels wrap around (or raise) instead of giving the signed angle; "
                             "the offset has to be a float", anchor=f"int-offset:{fi.short}")
                else:
                    rep.ok(rule, f"{fi.file}:{b.lineno} {fi.short}", unparse(b)[:80],
                           "offset is float-valued" if k == "float" else "offset is an array / caller-typed value (no literal int)")
    rep.floor(rule, "additive combinations of the stored direction coordinate with an offset", n, 6)


# ---------------------------------------------------------------------------------------------------------------------
def grid_dtype_from_data(repo, rep, rule, prefixes=("wavespectra.input.", "wavespectra.core.", "wavespectra.construct.", "wavespectra.specarray")):
    """A coordinate grid built with arange / linspace from a caller- or file-supplied step keeps the step's fractional part only if
    its dtype is left to NumPy or is a literal float type: `dtype=<dtype of some data variable>` truncates (integer data) or narrows
    the grid, so spectra are placed on wrong directions / frequencies."""
    n = 0
    FLOATS = {"float", "np.float64", "np.float32", "numpy.float64", "numpy.float32", "'float64'", "'float32'", "'f8'", "'f4'", "np.double", "'float'"}
    for fi in repo.all_funcs():
        if not fi.module.name.startswith(prefixes):
            continue
        for c in ast.walk(fi.node):
            if not (isinstance(c, ast.Call) and call_name(c).split(".")[-1] in ("arange", "linspace", "logspace", "geomspace")):
                continue
            n += 1
            dt = next((k.value for k in c.keywords if k.arg == "dtype"), None)
            if dt is None:
                rep.ok(rule, f"{fi.file}:{c.lineno} {fi.short}", unparse(c)[:80], "dtype left to NumPy (float for a fractional step)", nontrivial=False)
            elif unparse(dt) in FLOATS or unparse(dt) in ("int", "np.int64", "np.int32") and all(
                    _num_kind(a_, {}, {}) == "int" for a_ in c.args):
                rep.ok(rule, f"{fi.file}:{c.lineno} {fi.short}", unparse(c)[:80], "literal dtype that represents every argument")
            else:
                rep.fail(rule, fi.file, c.lineno, fi.qualname, unparse(c)[:100],
                         f"the grid's dtype is taken from data ({unparse(dt)}): an integer or narrower dtype truncates a fractional start / step, "
                         "so the coordinate values no longer are start + k*step", anchor=f"grid-dtype:{fi.short}")
    rep.floor(rule, "arange / linspace grid constructions", n, 8)


# ---------------------------------------------------------------------------------------------------------------------
def silent_zip_truncation(repo, rep, rule, prefixes=("wavespectra.input.",)):
    """zip() stops at its shortest argument.  Pairing a fixed-length literal (field names, column names) with columns / rows that come
    from a file silently drops the file's extra fields (seconds of a date vector, a trailing column): such a zip needs strict=True or
    operands of provably equal length."""
    n = 0
    for fi in repo.all_funcs():
        if not fi.module.name.startswith(prefixes):
            continue
        lits = {}
        for s in ast.walk(fi.node):
            if isinstance(s, ast.Assign) and len(s.targets) == 1 and isinstance(s.targets[0], ast.Name) and isinstance(s.value, (ast.Tuple, ast.List)) \
                    and s.value.elts and all(isinstance(x, ast.Constant) for x in s.value.elts):
                nm = s.targets[0].id
                stores = sum(1 for x in ast.walk(fi.node) if isinstance(x, ast.Name) and x.id == nm and isinstance(x.ctx, ast.Store))
                mutated = any(isinstance(x, ast.Attribute) and isinstance(x.value, ast.Name) and x.value.id == nm and
                              x.attr in ("append", "extend", "insert", "pop", "remove") for x in ast.walk(fi.node))
                if stores == 1 and not mutated:
                    lits[nm] = s.value
        for c in ast.walk(fi.node):
            if not (isinstance(c, ast.Call) and isinstance(c.func, ast.Name) and c.func.id == "zip" and len(c.args) >= 2):
                continue
            n += 1
            args = [lits.get(a.id, a) if isinstance(a, ast.Name) else a for a in c.args]
            fixed = [a for a in args if isinstance(a, (ast.Tuple, ast.List)) and a.elts and all(isinstance(x, ast.Constant) for x in a.elts)]
            strict = any(k.arg == "strict" and isinstance(k.value, ast.Constant) and k.value.value is True for k in c.keywords)
            if not fixed or len(fixed) == len(args) or strict:
                if len(fixed) == len(args) and len({len(a.elts) for a in fixed}) > 1:
                    rep.fail(rule, fi.file, c.lineno, fi.qualname, unparse(c)[:100], "literal operands of different lengths: the longer one is cut",
                             anchor=f"zip:{fi.short}")
                else:
                    rep.ok(rule, f"{fi.file}:{c.lineno} {fi.short}", unparse(c)[:80],
                           "strict=True" if strict else "no fixed-length literal is paired with data" if not fixed else "literals of equal length", nontrivial=bool(fixed))
                continue
            other = [a for a in args if a not in fixed]
            rep.fail(rule, fi.file, c.lineno, fi.qualname, unparse(c)[:100],
                     f"a literal of {len(fixed[0].elts)} names is zipped with '{unparse(other[0])[:40]}' whose length comes from the file: zip() silently drops "
                     "whatever the file holds beyond that (e.g. the seconds of a date vector), so records get wrong or duplicate values; "
                     "use strict=True or consume every column", anchor=f"zip:{fi.short}")
    rep.floor(rule, "zip() calls in the readers", n, 2)


# ---------------------------------------------------------------------------------------------------------------------
def _snapshot_reads(fn_node, snap_names):
    """`self.<name>` loads in a plugin function where <name> is one of the accessor attributes SpecDataset copies at construction."""
    a = fn_node.args
    if not (a.args and a.args[0].arg == "self"):
        return []
    return [n for n in ast.walk(fn_node)
            if isinstance(n, ast.Attribute) and isinstance(n.value, ast.Name) and n.value.id == "self" and n.attr in snap_names
            and isinstance(n.ctx, ast.Load)]


def writer_snapshot_reads(repo, rep, rule):
    """SpecDataset._wrapper copies every public attribute of the efth accessor onto the dataset accessor when it is constructed
    (known finding F-C18-b): `self.freq`, `self.dir`, `self.dd`, `self.df` and the bound statistics are the values / methods of
    the spectra seen THEN.  A writer (or any other SpecDataset method) that reads one of them pairs the current data with stale
    labels after an in-place edit of the dataset.  While that copy exists, no `to_*` plugin and no SpecDataset method reads one."""
    sd = repo.cls("wavespectra.specdataset.SpecDataset")
    sa = repo.cls("wavespectra.specarray.SpecArray")
    copies = any(isinstance(n, ast.Call) and isinstance(n.func, ast.Name) and n.func.id == "setattr" and n.args and
                 isinstance(n.args[0], ast.Name) and n.args[0].id == "self" for n in ast.walk(sd.node))
    snap = {m for m in sa.methods if not m.startswith("_")} - set(sd.methods)
    # the detector must fire on a positive example on every run (expected count on the tree is zero)
    probe = ast.parse("def to_x(self, f):\n    return len(self.freq) + self.dset.dir.size + self.hs()").body[0]
    if {n.attr for n in _snapshot_reads(probe, snap)} != {"freq", "hs"}:
        raise AnalysisError(f"{rule}: snapshot-read detector does not fire on its positive example (SpecArray public names: {len(snap)})")
    if not copies:
        rep.ok(rule, "wavespectra/specdataset.py SpecDataset", "no setattr(self, ...) copy of accessor attributes", "nothing is snapshotted: rule vacuous")
        return
    n = 0
    targets = []
    for m in repo.modules.values():
        if m.name.startswith("wavespectra.output."):
            targets += [fi for fi in m.all_funcs() if fi.name.startswith("to_") and fi.cls is None]
    targets += [fi for mn, fi in sd.methods.items() if mn not in ("_wrapper", "__init__")]
    for fi in targets:
        a = fi.node.args
        if not (a.args and a.args[0].arg == "self"):
            continue
        n += 1
        bad = _snapshot_reads(fi.node, snap)
        if not bad:
            rep.ok(rule, f"{fi.file}:{fi.node.lineno} {fi.short}", "reads of self.<accessor attribute>", "none: coordinates / statistics come from the dataset being processed")
        for b in bad:
            rep.fail(rule, fi.file, b.lineno, fi.qualname, f"self.{b.attr}",
                     f"'self.{b.attr}' is the copy SpecDataset._wrapper made when the accessor was constructed, not the dataset's current {b.attr}: after an "
                     "in-place edit (ds['dir'] = ..., ds['efth'] = ...) the output pairs current data with stale values; read it from the dataset "
                     "being written (dset / self.dset / self.efth.spec)", anchor=f"snapshot-read:{fi.short}:{b.attr}")
    rep.floor(rule, "writer plugins / SpecDataset methods examined", n, 8)
