"""Cross-cutting rules added in round 7 (each is wired into the properties it is a necessary condition of)."""
import ast

from ..model import call_name, unparse
from ..report import AnalysisError


# ---------------------------------------------------------------------------------------------------------------------
def _num_kind(e, defaults, consts):
    """Python-level numeric kind of an expression made of literals, parameters with literal defaults and module constants:
    'int' / 'float' / None (unknown: arrays, attributes, calls)."""
    if isinstance(e, ast.Constant):
        if isinstance(e.value, bool):
            return None
        if isinstance(e.value, int):
            return "int"
        if isinstance(e.value, float):
            return "float"
        return None
    if isinstance(e, ast.Name):
        if e.id in defaults:
            return _num_kind(defaults[e.id], {}, consts)
        if e.id in consts:
            return consts[e.id]
        return None
    if isinstance(e, ast.UnaryOp) and isinstance(e.op, (ast.USub, ast.UAdd)):
        return _num_kind(e.operand, defaults, consts)
    if isinstance(e, ast.BinOp):
        a, b = _num_kind(e.left, defaults, consts), _num_kind(e.right, defaults, consts)
        if isinstance(e.op, ast.Div):
            return "float" if a and b else None
        if a == "float" and b or b == "float" and a:
            return "float"
        if a == "int" and b == "int":
            return "int"
        return None
    if isinstance(e, ast.Call) and isinstance(e.func, ast.Name) and e.func.id == "float":
        return "float"
    return None


def _is_dir_coord(e):
    """self.dir / self.dir.values / <x>[attrs.DIRNAME] / <x>.dir (the direction coordinate as stored, integer labels possible)."""
    while isinstance(e, ast.Attribute) and e.attr in ("values", "data"):
        e = e.value
    if isinstance(e, ast.Attribute) and e.attr == "dir" and isinstance(e.value, ast.Name) and e.value.id == "self":
        return True
    return False


def int_meets_direction(repo, rep, rule):
    """NEP 50 (NumPy 2): a Python int combined with an integer-typed array adopts the array's dtype.  Direction labels may be
    stored as (unsigned) integers; `270 - dir` then wraps around or raises where `270.0 - dir` is exact.  In the accessor every
    constant offset that meets the stored direction coordinate additively is therefore a float (literal, default or constant)."""
    cls = repo.cls("wavespectra.specarray.SpecArray")
    n = 0
    for mn, fi in cls.methods.items():
        a = fi.node.args
        pos = a.posonlyargs + a.args
        defaults = dict(zip([x.arg for x in pos[len(pos) - len(a.defaults):]], a.defaults))
        defaults.update({x.arg: d for x, d in zip(a.kwonlyargs, a.kw_defaults) if d is not None})
        # parameters that are reassigned lose their default kind
        for s in ast.walk(fi.node):
            if isinstance(s, (ast.Assign, ast.AugAssign)):
                for t in (s.targets if isinstance(s, ast.Assign) else [s.target]):
                    for x in ast.walk(t):
                        if isinstance(x, ast.Name) and isinstance(x.ctx, ast.Store):
                            defaults.pop(x.id, None)
        for b in ast.walk(fi.node):
            if not (isinstance(b, ast.BinOp) and isinstance(b.op, (ast.Add, ast.Sub))):
                continue
            for d, o in ((b.left, b.right), (b.right, b.left)):
                if not _is_dir_coord(d):
                    continue
                n += 1
                k = _num_kind(o, defaults, {})
                if k == "int":
                    rep.fail(rule, fi.file, b.lineno, fi.qualname, unparse(b)[:100],
                             f"the integer-valued offset '{unparse(o)}' meets the stored direction coordinate: under NumPy 2 promotion a Python int adopts "
                             "the dtype of integer direction labels, so unsigned labels wrap around (or raise) instead of giving the signed angle; "
                             "the offset has to be a float", anchor=f"int-offset:{fi.short}")
                else:
                    rep.ok(rule, f"{fi.file}:{b.lineno} {fi.short}", unparse(b)[:80],
                           "offset is float-valued" if k == "float" else "offset is an array / caller-typed value (no literal int)")
    rep.floor(rule, "additive combinations of the stored direction coordinate with an offset", n, 6)


# ---------------------------------------------------------------------------------------------------------------------
def grid_dtype_from_data(repo, rep, rule, prefixes=("wavespectra.input.", "wavespectra.core.", "wavespectra.construct.", "wavespectra.specarray")):
    """A coordinate grid built with arange / linspace from a caller- or file-supplied step keeps the step's fractional part only if
    its dtype is left to NumPy or is a literal float type: `dtype=<dtype of some data variable>` truncates (integer data) or narrows
    the grid, so spectra are placed on wrong directions / frequencies."""
    n = 0
    FLOATS = {"float", "np.float64", "np.float32", "numpy.float64", "numpy.float32", "'float64'", "'float32'", "'f8'", "'f4'", "np.double", "'float'"}
    for fi in repo.all_funcs():
        if not fi.module.name.startswith(prefixes):
            continue
        for c in ast.walk(fi.node):
            if not (isinstance(c, ast.Call) and call_name(c).split(".")[-1] in ("arange", "linspace", "logspace", "geomspace")):
                continue
            n += 1
            dt = next((k.value for k in c.keywords if k.arg == "dtype"), None)
            if dt is None:
                rep.ok(rule, f"{fi.file}:{c.lineno} {fi.short}", unparse(c)[:80], "dtype left to NumPy (float for a fractional step)", nontrivial=False)
            elif unparse(dt) in FLOATS or unparse(dt) in ("int", "np.int64", "np.int32") and all(
                    _num_kind(a_, {}, {}) == "int" for a_ in c.args):
                rep.ok(rule, f"{fi.file}:{c.lineno} {fi.short}", unparse(c)[:80], "literal dtype that represents every argument")
            else:
                rep.fail(rule, fi.file, c.lineno, fi.qualname, unparse(c)[:100],
                         f"the grid's dtype is taken from data ({unparse(dt)}): an integer or narrower dtype truncates a fractional start / step, "
                         "so the coordinate values no longer are start + k*step", anchor=f"grid-dtype:{fi.short}")
    rep.floor(rule, "arange / linspace grid constructions", n, 8)


# ---------------------------------------------------------------------------------------------------------------------
def silent_zip_truncation(repo, rep, rule, prefixes=("wavespectra.input.",)):
    """zip() stops at its shortest argument.  Pairing a fixed-length literal (field names, column names) with columns / rows that come
    from a file silently drops the file's extra fields (seconds of a date vector, a trailing column): such a zip needs strict=True or
    operands of provably equal length."""
    n = 0
    for fi in repo.all_funcs():
        if not fi.module.name.startswith(prefixes):
            continue
        lits = {}
        for s in ast.walk(fi.node):
            if isinstance(s, ast.Assign) and len(s.targets) == 1 and isinstance(s.targets[0], ast.Name) and isinstance(s.value, (ast.Tuple, ast.List)) \
                    and s.value.elts and all(isinstance(x, ast.Constant) for x in s.value.elts):
                nm = s.targets[0].id
                stores = sum(1 for x in ast.walk(fi.node) if isinstance(x, ast.Name) and x.id == nm and isinstance(x.ctx, ast.Store))
                mutated = any(isinstance(x, ast.Attribute) and isinstance(x.value, ast.Name) and x.value.id == nm and
                              x.attr in ("append", "extend", "insert", "pop", "remove") for x in ast.walk(fi.node))
                if stores == 1 and not mutated:
                    lits[nm] = s.value
        for c in ast.walk(fi.node):
            if not (isinstance(c, ast.Call) and isinstance(c.func, ast.Name) and c.func.id == "zip" and len(c.args) >= 2):
                continue
            n += 1
            args = [lits.get(a.id, a) if isinstance(a, ast.Name) else a for a in c.args]
            fixed = [a for a in args if isinstance(a, (ast.Tuple, ast.List)) and a.elts and all(isinstance(x, ast.Constant) for x in a.elts)]
            strict = any(k.arg == "strict" and isinstance(k.value, ast.Constant) and k.value.value is True for k in c.keywords)
            if not fixed or len(fixed) == len(args) or strict:
                if len(fixed) == len(args) and len({len(a.elts) for a in fixed}) > 1:
                    rep.fail(rule, fi.file, c.lineno, fi.qualname, unparse(c)[:100], "literal operands of different lengths: the longer one is cut",
                             anchor=f"zip:{fi.short}")
                else:
                    rep.ok(rule, f"{fi.file}:{c.lineno} {fi.short}", unparse(c)[:80],
                           "strict=True" if strict else "no fixed-length literal is paired with data" if not fixed else "literals of equal length", nontrivial=bool(fixed))
                continue
            other = [a for a in args if a not in fixed]
            rep.fail(rule, fi.file, c.lineno, fi.qualname, unparse(c)[:100],
                     f"a literal of {len(fixed[0].elts)} names is zipped with '{unparse(other[0])[:40]}' whose length comes from the file: zip() silently drops "
                     "whatever the file holds beyond that (e.g. the seconds of a date vector), so records get wrong or duplicate values; "
                     "use strict=True or consume every column", anchor=f"zip:{fi.short}")
    rep.floor(rule, "zip() calls in the readers", n, 2)


# ---------------------------------------------------------------------------------------------------------------------
def _snapshot_reads(fn_node, snap_names):
    """`self.<name>` loads in a plugin function where <name> is one of the accessor attributes SpecDataset copies at construction."""
    a = fn_node.args
    if not (a.args and a.args[0].arg == "self"):
        return []
    return [n for n in ast.walk(fn_node)
            if isinstance(n, ast.Attribute) and isinstance(n.value, ast.Name) and n.value.id == "self" and n.attr in snap_names
            and isinstance(n.ctx, ast.Load)]


def writer_snapshot_reads(repo, rep, rule):
    """SpecDataset._wrapper copies every public attribute of the efth accessor onto the dataset accessor when it is constructed
    (known finding F-C18-b): `self.freq`, `self.dir`, `self.dd`, `self.df` and the bound statistics are the values / methods of
    the spectra seen THEN.  A writer (or any other SpecDataset method) that reads one of them pairs the current data with stale
    labels after an in-place edit of the dataset.  While that copy exists, no `to_*` plugin and no SpecDataset method reads one."""
    sd = repo.cls("wavespectra.specdataset.SpecDataset")
    sa = repo.cls("wavespectra.specarray.SpecArray")
    copies = any(isinstance(n, ast.Call) and isinstance(n.func, ast.Name) and n.func.id == "setattr" and n.args and
                 isinstance(n.args[0], ast.Name) and n.args[0].id == "self" for n in ast.walk(sd.node))
    snap = {m for m in sa.methods if not m.startswith("_")} - set(sd.methods)
    # the detector must fire on a positive example on every run (expected count on the tree is zero)
    probe = ast.parse("def to_x(self, f):\n    return len(self.freq) + self.dset.dir.size + self.hs()").body[0]
    if {n.attr for n in _snapshot_reads(probe, snap)} != {"freq", "hs"}:
        raise AnalysisError(f"{rule}: snapshot-read detector does not fire on its positive example (SpecArray public names: {len(snap)})")
    if not copies:
        rep.ok(rule, "wavespectra/specdataset.py SpecDataset", "no setattr(self, ...) copy of accessor attributes", "nothing is snapshotted: rule vacuous")
        return
    n = 0
    targets = []
    for m in repo.modules.values():
        if m.name.startswith("wavespectra.output."):
            targets += [fi for fi in m.all_funcs() if fi.name.startswith("to_") and fi.cls is None]
    targets += [fi for mn, fi in sd.methods.items() if mn not in ("_wrapper", "__init__")]
    for fi in targets:
        a = fi.node.args
        if not (a.args and a.args[0].arg == "self"):
            continue
        n += 1
        bad = _snapshot_reads(fi.node, snap)
        if not bad:
            rep.ok(rule, f"{fi.file}:{fi.node.lineno} {fi.short}", "reads of self.<accessor attribute>", "none: coordinates / statistics come from the dataset being processed")
        for b in bad:
            rep.fail(rule, fi.file, b.lineno, fi.qualname, f"self.{b.attr}",
                     f"'self.{b.attr}' is the copy SpecDataset._wrapper made when the accessor was constructed, not the dataset's current {b.attr}: after an "
                     "in-place edit (ds['dir'] = ..., ds['efth'] = ...) the output pairs current data with stale values; read it from the dataset "
                     "being written (dset / self.dset / self.efth.spec)", anchor=f"snapshot-read:{fi.short}:{b.attr}")
    rep.floor(rule, "writer plugins / SpecDataset methods examined", n, 8)


# ---------------------------------------------------------------------------------------------------------------------
def falsy_zero_defaulting(repo, rep, rule, prefixes, floor=0):
    """`p = p or K` (or `p or K` used in place) on a numeric parameter replaces a caller-supplied 0 by K.  Where K is a non-zero
    constant (literal, module constant, DEFAULTS[...] entry) and 0 lies in the parameter's domain (a threshold, a factor, a
    tolerance: `x < 0` / `0 * wspd` have a definite meaning), the function no longer applies the stated rule for that argument.
    Accepted: `p if p is not None else K`, `K if p is None else p`, defaults that are not fixed non-zero numbers."""
    n = 0
    # positive example on every run
    probe = ast.parse("def f(a, b=None):\n    b = b or 1.7\n    return a * b").body[0]
    if len(list(_falsy_sites(probe, lambda e: e.value if isinstance(e, ast.Constant) else None))) != 1:
        raise AnalysisError(f"{rule}: detector does not fire on its positive example")
    for fi in repo.all_funcs():
        if not fi.module.name.startswith(tuple(prefixes)):
            continue
        n += 1
        sites = list(_falsy_sites(fi.node, lambda e, m=fi.module: repo.const(m, e)))
        for b, p, k in sites:
            rep.fail(rule, fi.file, b.lineno, fi.qualname, unparse(b)[:100],
                     f"a caller-supplied {p} = 0 is falsy and gets replaced by the constant {k!r}: 0 is a legitimate value of a numeric control parameter "
                     f"(no bin passes a test against a zero threshold / factor), so the stated rule is not applied for that argument; test `{p} is None` instead",
                     anchor=f"falsy-zero:{fi.short}:{p}")
        if not sites:
            rep.ok(rule, f"{fi.file}:{fi.node.lineno} {fi.short}", "`param or <non-zero constant>`", "absent", nontrivial=False)
    rep.floor(rule, "functions scanned for falsy-zero defaulting", n, max(floor, 1))


def _falsy_sites(fn_node, const):
    a = fn_node.args
    params = {x.arg for x in a.posonlyargs + a.args + a.kwonlyargs} - {"self", "cls"}
    for b in ast.walk(fn_node):
        if not (isinstance(b, ast.BoolOp) and isinstance(b.op, ast.Or) and len(b.values) == 2):
            continue
        p, k = b.values
        if not (isinstance(p, ast.Name) and p.id in params):
            continue
        try:
            v = const(k)
        except Exception:
            v = None
        if isinstance(v, bool) or not isinstance(v, (int, float)) or v == 0:
            continue
        yield b, p.id, v


# ---------------------------------------------------------------------------------------------------------------------
def _deps_along_all_true_path(fn_node, params):
    """Strong-update dependency sets along the path that takes every `if` body (guards that only raise are skipped):
    name -> set of parameters its current value was computed from.  Returns the dependency set of each `return` met on that path."""
    deps = {p: {p} for p in params}
    rets = []

    def of(e):
        out = set()
        for x in ast.walk(e):
            if isinstance(x, ast.Name) and isinstance(x.ctx, ast.Load):
                out |= deps.get(x.id, set())
        return out

    def run(stmts):
        for s in stmts:
            if isinstance(s, ast.Assign):
                d = of(s.value)
                for t in s.targets:
                    if isinstance(t, ast.Name):
                        deps[t.id] = set(d)
                    elif isinstance(t, (ast.Tuple, ast.List)):
                        for x in t.elts:
                            if isinstance(x, ast.Name):
                                deps[x.id] = set(d)
                    else:           # store into an attribute / element: the base keeps its value and gains the new dependency
                        base = t
                        while isinstance(base, (ast.Attribute, ast.Subscript)):
                            base = base.value
                        if isinstance(base, ast.Name):
                            deps[base.id] = deps.get(base.id, set()) | d
            elif isinstance(s, ast.AugAssign) and isinstance(s.target, ast.Name):
                deps[s.target.id] = deps.get(s.target.id, set()) | of(s.value)
            elif isinstance(s, ast.Expr) and isinstance(s.value, ast.Call) and isinstance(s.value.func, ast.Attribute):
                base = s.value.func.value           # x.update(...) and the like
                while isinstance(base, (ast.Attribute, ast.Subscript)):
                    base = base.value
                if isinstance(base, ast.Name):
                    deps[base.id] = deps.get(base.id, set()) | of(s.value)
            elif isinstance(s, ast.If):
                if all(isinstance(x, ast.Raise) for x in s.body):
                    run(s.orelse)
                    continue
                run(s.body)                         # data dependence only: a test that merely looks at the running result does not carry its value
            elif isinstance(s, (ast.For, ast.While, ast.With, ast.Try)):
                run(s.body)
            elif isinstance(s, ast.Return) and s.value is not None:
                rets.append((s, of(s.value)))
    run(fn_node.body)
    return rets


def result_depends_on(repo, rep, rule, qual, needed, what):
    """On the path where every optional step is taken, the value returned by `qual` is computed from ALL of `needed` (strong updates:
    a later step that restarts from the original object instead of the running result silently discards the earlier steps)."""
    fi = repo.func(qual)
    missing_params = [p for p in needed if p not in fi.params]
    if missing_params:
        raise AnalysisError(f"{rule}: {fi.short} has no parameter(s) {missing_params}")
    rets = _deps_along_all_true_path(fi.node, [p for p in fi.params if p != "self"])
    if not rets:
        raise AnalysisError(f"{rule}: {fi.short}: no return on the all-steps path")
    for r, d in rets:
        lost = [p for p in needed if p not in d]
        if lost:
            rep.fail(rule, fi.file, r.lineno, fi.qualname, unparse(r)[:80],
                     f"{what}: with every limit given, the returned value no longer depends on {lost}: a later step starts again from the original "
                     "object rather than from the result of the earlier steps", anchor=f"lost-dependency:{fi.short}")
        else:
            rep.ok(rule, f"{fi.file}:{r.lineno} {fi.short}", unparse(r)[:60], f"depends on all of {list(needed)} on the all-steps path")


# ---------------------------------------------------------------------------------------------------------------------
def _blend_sites(tree):
    """`c * a + (1 - c) * b`: an arithmetic blend with a mask and its complement (0 * NaN = NaN leaks the unselected alternative)."""
    from ..astutil import factors
    out = []
    for b in ast.walk(tree):
        if not (isinstance(b, ast.BinOp) and isinstance(b.op, ast.Add)):
            continue
        fl, fr = [unparse(x) for x in factors(b.left)], [unparse(x) for x in factors(b.right)]
        for f1, f2 in ((fl, fr), (fr, fl)):
            for c in f1:
                if any(x.replace(" ", "") in (f"(1-{c})".replace(" ", ""), f"1-{c}".replace(" ", ""), f"(1.0-{c})".replace(" ", ""), f"(~{c})".replace(" ", ""), f"~{c}".replace(" ", "")) for x in f2):
                    out.append((b, c))
                    break
            else:
                continue
            break
    return out


def no_arithmetic_blend(repo, rep, rule, prefixes):
    """A choice between two alternatives by a condition is made with where(): `cond * a + (1 - cond) * b` evaluates BOTH alternatives into
    the result, so a NaN / inf in the alternative that was NOT selected (0 * NaN = NaN) ends up in the output."""
    probe = ast.parse("y = cond * a + (1 - cond) * b\nz = w * a + (1 - v) * b")
    if len(_blend_sites(probe)) != 1:
        raise AnalysisError(f"{rule}: blend detector does not fire exactly on its positive example")
    n = 0
    for fi in repo.all_funcs():
        if not fi.module.name.startswith(tuple(prefixes)):
            continue
        n += 1
        for b, c in _blend_sites(fi.node):
            rep.fail(rule, fi.file, b.lineno, fi.qualname, unparse(b)[:100],
                     f"the alternatives are blended arithmetically with '{c}' and its complement: a NaN / inf in the alternative that is NOT selected "
                     "propagates (0 * NaN = NaN), so the constructed spectrum is NaN where the selected shape is perfectly defined; select with where()",
                     anchor=f"blend:{fi.short}")
    rep.ok(rule, "package", f"{n} functions", "no mask / complement arithmetic blend")
    rep.floor(rule, "functions scanned for arithmetic blends", n, 5)


# ---------------------------------------------------------------------------------------------------------------------
_SHAPE_FROM_DATA = ("dropna",)


def no_data_dependent_shape(repo, rep, rule, prefixes=("wavespectra.specarray", "wavespectra.core.xrstats", "wavespectra.core.npstats")):
    """Statistics keep the grid of the spectrum: `dropna(dim)` / `where(..., drop=True)` remove the coordinates at which ALL spectra of the
    object are missing - the axis a positional peak index (`ipeak`) refers to then no longer is the axis of the array it indexes, and which
    bins exist depends on the OTHER spectra of the dataset."""
    probe = ast.parse("a = x.dropna(dim='freq', how='all')\nb = x.where(x > 0, drop=True)\nc = x.where(x > 0)")
    if len(_shape_sites(probe)) != 2:
        raise AnalysisError(f"{rule}: detector does not fire on its positive examples")
    n = 0
    for fi in repo.all_funcs():
        if not fi.module.name.startswith(tuple(prefixes)):
            continue
        n += 1
        for c in _shape_sites(fi.node):
            rep.fail(rule, fi.file, c.lineno, fi.qualname, unparse(c)[:100],
                     "the length of a spectral axis now depends on the data (coordinates missing in every spectrum are dropped): a positional peak index "
                     "computed on the full axis reads another bin, and the result of one spectrum depends on the other spectra in the object",
                     anchor=f"data-dependent-shape:{fi.short}")
    rep.ok(rule, "statistics", f"{n} functions", "no dropna / where(drop=True)")
    rep.floor(rule, "statistic functions scanned", n, 60)


def _shape_sites(tree):
    out = []
    for c in ast.walk(tree):
        if isinstance(c, ast.Call) and isinstance(c.func, ast.Attribute):
            if c.func.attr in _SHAPE_FROM_DATA:
                out.append(c)
            elif c.func.attr == "where" and any(k.arg == "drop" and not (isinstance(k.value, ast.Constant) and k.value.value is False) for k in c.keywords):
                out.append(c)
    return out


# ---------------------------------------------------------------------------------------------------------------------
def unconditional_boundary_fill(repo, rep, rule):
    """smooth_spec: the centred rolling mean leaves NaN in the outermost rows / columns; they are filled from the input on EVERY path
    (a NaN bin can never be re-attached by the watershed and its energy vanishes from every partition)."""
    fi = repo.func("wavespectra.core.utils.smooth_spec")
    found = 0

    def is_fill(v):
        for c in ast.walk(v):
            if isinstance(c, ast.Call):
                nm = call_name(c).split(".")[-1]
                if nm == "fillna" or nm == "combine_first":
                    return True
                if nm == "where" and c.args and any(isinstance(x, ast.Call) and call_name(x).split(".")[-1] in ("notnull", "isnull", "isnan", "notna", "isna") for x in ast.walk(c.args[0])):
                    return True
        return False

    def walk(stmts, conds):
        nonlocal found
        for s in stmts:
            if isinstance(s, ast.Assign) and is_fill(s.value):
                found += 1
                bad = [t for t in conds if not any(isinstance(x, ast.Call) and call_name(x).split(".")[-1] in ("isnull", "notnull", "isnan", "any") for x in ast.walk(t))]
                if bad:
                    rep.fail(rule, fi.file, s.lineno, fi.qualname, f"if {unparse(bad[0])[:50]}: {unparse(s)[:60]}",
                             "the NaN the centred window leaves at the grid edges is filled from the input only under a condition that is not about the NaN "
                             "themselves: on the other path the smoothed spectrum keeps NaN rows, which the watershed turns into bins owned by no partition "
                             "(energy is lost)", anchor="smooth_spec:boundary-fill")
                else:
                    rep.ok(rule, f"{fi.file}:{s.lineno} smooth_spec", unparse(s)[:70], "edge NaN filled from the input on every path")
            elif isinstance(s, ast.If):
                walk(s.body, conds + [s.test])
                walk(s.orelse, conds + [s.test])
            elif isinstance(s, (ast.For, ast.While, ast.With, ast.Try)):
                walk(s.body, conds)
    walk(fi.node.body, [])
    if not found:
        raise AnalysisError(f"{rule}: smooth_spec: boundary fill (where(notnull) / fillna) not found")


# ---------------------------------------------------------------------------------------------------------------------
def _deep_resolve(fn_node, e, depth=0):
    """Substitute local names that have exactly one simple assignment in the function by their value (recursively, bounded)."""
    defs = {}
    for n in ast.walk(fn_node):
        if isinstance(n, ast.Assign) and len(n.targets) == 1 and isinstance(n.targets[0], ast.Name):
            defs.setdefault(n.targets[0].id, []).append(n.value)
    params = {a.arg for a in fn_node.args.posonlyargs + fn_node.args.args + fn_node.args.kwonlyargs}

    class Sub(ast.NodeTransformer):
        def __init__(self, d):
            self.d = d

        def visit_Name(self, n):
            if isinstance(n.ctx, ast.Load) and n.id in defs and len(defs[n.id]) == 1 and n.id not in params and self.d < 6:
                import copy
                return Sub(self.d + 1).visit(copy.deepcopy(defs[n.id][0]))
            return n
    import copy
    return Sub(depth).visit(copy.deepcopy(e))


def no_limiter_on(repo, rep, rule, qual, target_pow_of, what):
    """The exponent of the cos-2s curve is the exact function of the requested spread: a limiter (maximum / minimum / clip / where) on it makes
    every request beyond the limit come out with the limit's spread."""
    from ..astutil import resolve
    fi = repo.func(qual)
    n = 0
    for b in ast.walk(fi.node):
        if isinstance(b, ast.BinOp) and isinstance(b.op, ast.Pow) and any(isinstance(x, ast.Call) and call_name(x).split(".")[-1] == target_pow_of for x in ast.walk(b.left)):
            n += 1
            e = b.right
            full = _deep_resolve(fi.node, e)
            lim = [call_name(c).split(".")[-1] for c in ast.walk(full) if isinstance(c, ast.Call) and call_name(c).split(".")[-1] in ("maximum", "minimum", "clip", "where", "fmax", "fmin", "max", "min")]
            if lim:
                rep.fail(rule, fi.file, b.lineno, fi.qualname, unparse(full)[:100],
                         f"{what} passes through a limiter ({lim[0]}): requested values beyond the limit are silently replaced, so the spectrum built does not "
                         "have the spread it was built from", anchor=f"limiter:{fi.short}")
            else:
                rep.ok(rule, f"{fi.file}:{b.lineno} {fi.short}", unparse(full)[:80], "exact function of the requested spread (no limiter)")
    rep.floor(rule, f"powers of {target_pow_of}() in {fi.short}", n, 1)


# ---------------------------------------------------------------------------------------------------------------------
def difference_orientation(repo, rep, rule, qual, param, what):
    """A signed difference between consecutive steps that is compared with an ASYMMETRIC window must be current - previous: minuend taken
    at column 1 (current step) of `param`, subtrahend at column 0 (previous step)."""
    fi = repo.func(qual)
    if param not in fi.params:
        raise AnalysisError(f"{rule}: {fi.short} has no parameter {param}")
    n = 0

    def cols(e):
        out = set()
        for s in ast.walk(e):
            if isinstance(s, ast.Subscript) and any(isinstance(x, ast.Name) and x.id == param for x in ast.walk(s.value)) or \
                    isinstance(s, ast.Subscript) and isinstance(s.value, ast.Name) and s.value.id == param:
                idx = s.slice.elts if isinstance(s.slice, ast.Tuple) else [s.slice]
                for x in idx:
                    if isinstance(x, ast.Constant) and isinstance(x.value, int) and not isinstance(x.value, bool):
                        out.add(x.value)
        return out
    for b in ast.walk(fi.node):
        if not (isinstance(b, ast.BinOp) and isinstance(b.op, ast.Sub)):
            continue
        l, r = cols(b.left), cols(b.right)
        if not l or not r or l == r:
            continue
        # skip differences wrapped in abs() (orientation immaterial)
        n += 1
        if l == {1} and r == {0}:
            rep.ok(rule, f"{fi.file}:{b.lineno} {fi.short}", unparse(b)[:80], "current (column 1) minus previous (column 0)")
        elif l == {0} and r == {1}:
            # harmless under an absolute value
            par = [p for p in ast.walk(fi.node) if isinstance(p, ast.Call) and call_name(p).split(".")[-1] in ("abs", "absolute", "fabs") and any(x is b for x in ast.walk(p))]
            if par:
                rep.ok(rule, f"{fi.file}:{b.lineno} {fi.short}", unparse(b)[:80], "orientation immaterial under abs()")
            else:
                rep.fail(rule, fi.file, b.lineno, fi.qualname, unparse(b)[:100],
                         f"{what} is taken as previous - current: the asymmetric window (growth limit upward, swell limit downward) is applied mirrored",
                         anchor=f"difference-orientation:{fi.short}:{param}")
    rep.floor(rule, f"signed step differences of {param}", n, 1)


# ---------------------------------------------------------------------------------------------------------------------
def kernel_shared_state(repo, rep, rule, eng):
    """Per-spectrum kernels (the functions apply_ufunc vectorises over the non-spectral dimensions) and everything they reach write no
    module-level object and no mutable default: such state outlives the spectrum being processed."""
    from ..ufunc import sites
    from .c07 import _reachable
    from .c18 import written_mutable_defaults
    nk, seen = 0, set()
    for s_ in sites(repo):
        for kf in s_.kernels():
            if kf.qualname in seen:
                continue
            seen.add(kf.qualname)
            nk += 1
            sm = eng.summ.get(kf.qualname)
            for gk, e_ in (sm.gsites.items() if sm else []):
                if "AttrDict.__getitem__" in e_.func:
                    continue        # insert-on-miss of the attribute table: known finding F-C18-c (C18), idempotent, not per-spectrum data
                rep.fail(rule, e_.file, e_.line, kf.qualname, e_.construct,
                         f"kernel {kf.short} writes the module-level object {e_.root[2:]} ({e_.what}): what it leaves there is seen by the next spectrum",
                         list(e_.via))
    reach = _reachable(repo, eng, seen)
    for fi_, pname, e0 in written_mutable_defaults(repo, eng):
        if fi_.qualname in reach:
            rep.fail(rule, e0.file, e0.line, fi_.qualname, f"{e0.construct}  [default of '{pname}']",
                     "a mutable default is one object shared by every call: the kernel's result for one spectrum depends on earlier spectra", list(e0.via))
    rep.ok(rule, "package", f"{nk} kernels, {len(reach)} functions reachable from them", "no write to module-level objects or mutable defaults")
    rep.floor(rule, "apply_ufunc kernels examined", nk, 15)
