"""C01 - integrated parameters equal their defining integrals (type-checking of the formulas, not their values)."""
import ast
from fractions import Fraction as Fr

from ..model import UNKNOWN, call_name, kwarg, unparse
from ..report import AnalysisError
from ..spectyping import Typing
from ..units import Q, parse_units
from ..astutil import assignments, dim_arg

# statistic -> (attributes.yml key for the CF units | explicit unit dict, remaining spectral dims)
ORACLE = {
    "hs": ("hs", ()), "hrms": ("hrms", ()), "hmax": ("hmax", ()), "tm01": ("tm01", ()), "tm02": ("tm02", ()),
    "dm": ("dm", ()), "dspr": ("dspr", ()), "swe": ("swe", ()), "sw": ("sw", ()), "goda": ("goda", ()),
    "uss_x": ("uss_x", ()), "uss_y": ("uss_y", ()), "uss": ("uss", ()), "mss": ("mss", ()),
    "to_energy": ("energy", ("freq", "dir")), "tp": ("tp", ()), "fp": ("fp", ()), "dpm": ("dpm", ()), "dp": ("dp", ()),
    "dpspr": ("dpspr", ()), "gamma": ("gamma", ()),
    "oned": ({"m": 2, "s": 1}, ("freq",)), "fdspr": ({"deg": 1}, ("freq",)),
    "celerity": ({"m": 1, "s": -1}, ("freq",)), "wavelen": ({"m": 1}, ("freq",)),
    "crsd": ({"m": 2, "s": 1}, ("freq",)),
}
MOMF = {0: {"m": 2}, 1: {"m": 2, "s": -1}, 2: {"m": 2, "s": -2}, 4: {"m": 2, "s": -4}}
# attributes.yml entries that cannot serve as oracle (reason stated) -> override
OVERRIDE = {"alpha": ({}, "Phillips' constant is dimensionless; attributes.yml says 'm s-3'")}


def _u(d):
    return {k: Fr(v) for k, v in {"m": 0, "s": 0, "deg": 0, **d}.items()}


def typed_statistics(repo, rep, T, rule_units, rule_dims):
    n = 0
    for name, (src, dims) in ORACLE.items():
        fi = T.sa.methods.get(name)
        if fi is None:
            raise AnalysisError(f"SpecArray.{name} vanished")
        if isinstance(src, str):
            ent = repo.attrs.ATTRS.get(src)
            if ent is None or "units" not in ent:
                raise AnalysisError(f"attributes.yml has no units for '{src}'")
            want = parse_units(ent["units"])
            if want is None:
                raise AnalysisError(f"cannot parse units '{ent['units']}' of '{src}'")
            osrc = f"attributes.yml {src}.units = '{ent['units']}'"
        else:
            want = _u(src)
            osrc = "definition"
        for variant, consts in (("default", None),) + ((("finite depth", {}),) if "depth" in fi.params else ()):
            if consts is not None:
                consts = {k: v for k, v in T._defaults(fi).items() if k != "depth"}
            q = T.eval_method(fi, None, [], None, consts=consts)
            n += 1
            where = f"{fi.file}:{fi.node.lineno} SpecArray.{name} ({variant})"
            if not isinstance(q, Q):
                raise AnalysisError(f"units of SpecArray.{name} could not be inferred (expression form not understood)")
            if q.u != want:
                rep.fail(rule_units, fi.file, fi.node.lineno, fi.qualname, f"returns {q.ustr()}; oracle {osrc}",
                         f"the formula's units are {q.ustr()} but the statistic is defined in {Q(want).ustr()}: a bin width, a power "
                         "of frequency or a degree/radian conversion is missing, doubled or misplaced")
            else:
                rep.ok(rule_units, where, f"units {q.ustr()}", f"== {osrc}")
            want_dims = frozenset(d for d in dims)
            if frozenset(q.dims) != want_dims:
                rep.fail(rule_dims, fi.file, fi.node.lineno, fi.qualname, f"result spans spectral dims {sorted(q.dims)}, expected {sorted(want_dims)}",
                         "a reduction runs over the wrong named dimension (or is missing): the statistic keeps or loses a spectral dimension")
            else:
                rep.ok(rule_dims, where, f"spectral dims left: {sorted(q.dims)}", "as defined")
    fi = T.sa.methods["momf"]
    for mom, u in MOMF.items():
        q = T.eval_method(fi, None, [], None, consts={"mom": mom})
        n += 1
        if not isinstance(q, Q):
            raise AnalysisError("units of momf could not be inferred")
        if q.u != _u(u) or q.dims:
            rep.fail(rule_units, fi.file, fi.node.lineno, fi.qualname, f"momf({mom}) returns {q.ustr()} over {sorted(q.dims)}",
                     f"the {mom}-th frequency moment is m^2 Hz^{mom} with no spectral dimension left")
        else:
            rep.ok(rule_units, f"{fi.file}:{fi.node.lineno} SpecArray.momf({mom})", f"units {q.ustr()}", f"m^2 Hz^{mom}")
    fi = T.sa.methods["momd"]
    q = T.eval_method(fi, None, [], None, consts={"mom": 1, "theta": 90.0})
    n += 1
    if not (isinstance(q, tuple) and len(q) == 2 and all(isinstance(x, Q) for x in q)):
        raise AnalysisError("momd: pair of moments not inferred")
    for x in q:
        if x.u != _u({"m": 2, "s": 1}) or x.dims != frozenset({T.F}):
            rep.fail(rule_units, fi.file, fi.node.lineno, fi.qualname, f"momd returns {x.ustr()} over {sorted(x.dims)}", "directional moments are m^2 s per frequency")
        else:
            rep.ok(rule_units, f"{fi.file}:{fi.node.lineno} SpecArray.momd", f"units {x.ustr()} over {sorted(x.dims)}", "m^2 s, direction integrated")
    # helpers with finite depth
    for qual, want in (("wavespectra.core.utils.wavenuma", {"m": -1}), ("wavespectra.core.utils.celerity", {"m": 1, "s": -1}), ("wavespectra.core.utils.wavelen", {"m": 1})):
        fi = repo.func(qual)
        from ..spectyping import _SpecEval
        seeds = {fi.params[0]: T.coord(T.F), fi.params[1]: Q({"m": 1})}
        ev = _SpecEval(repo, fi, seeds, {}, T)
        ev.run()
        n += 1
        for p in ev.problems:
            T.problems.append((fi, p))
        for node, v in ev.returns:
            if not isinstance(v, Q):
                raise AnalysisError(f"{qual}: units not inferred")
            if v.u != _u(want):
                rep.fail(rule_units, fi.file, node.lineno, fi.qualname, f"{unparse(node)[:80]}  -> {v.ustr()}", f"expected {Q(want).ustr()}")
            else:
                rep.ok(rule_units, f"{fi.file}:{node.lineno} {fi.short}", f"{unparse(node)[:60]} : {v.ustr()}", "finite-depth / deep-water branch")
    # alpha override, gw observation
    rep.note("oracle override: alpha -> dimensionless (" + OVERRIDE["alpha"][1] + ")")
    return n


def problems(rep, T, rule, kinds, skip_funcs=()):
    seen = set()
    for fi, p in T.problems:
        if p.kind not in kinds:
            continue
        key = (fi.qualname, p.node.lineno, p.msg)
        if key in seen:
            continue
        seen.add(key)
        if fi.name in skip_funcs:
            rep.note(f"observation (not a finding): {fi.short}: {p.msg}")
            continue
        rep.fail(rule, fi.file, p.node.lineno, fi.qualname, unparse(p.node)[:120], p.msg)


def single_path(repo, rep, T):
    """R-C01-3: frequency-integrated statistics obtain the direction-integrated spectrum through oned() (identity for 1-D),
    or integrate dir themselves only after raising ValueError for 1-D spectra."""
    D = T.D
    for name, fi in T.sa.methods.items():
        if name.startswith("_") or name in ("oned", "plot", "rmse", "rotate", "split", "smooth", "interp", "interp_like", "partition", "to_energy", "scale_by_hs", "stats"):
            continue
        sums_dir = []
        for n in ast.walk(fi.node):
            if isinstance(n, ast.Call) and isinstance(n.func, ast.Attribute) and n.func.attr == "sum":
                d = kwarg(n, "dim") or (n.args[0] if n.args else None)
                v = repo.const(fi.module, d) if d is not None else None
                if v == D or (isinstance(v, (list, tuple)) and D in v):
                    sums_dir.append(n)
        uses_dir = any(isinstance(n, ast.Attribute) and unparse(n) == "self.dir" for n in ast.walk(fi.node))
        if not sums_dir and not uses_dir:
            continue
        guard = [s for s in fi.node.body if isinstance(s, ast.If) and unparse(s.test).replace(" ", "") == "self.dirisNone"
                 and any(isinstance(x, ast.Raise) for x in s.body)]
        if name in ("dd", "dir", "_is_circular"):
            continue
        if sums_dir or uses_dir:
            gtests = {id(x) for g in guard for x in ast.walk(g.test)}
            first_use = min([n.lineno for n in sums_dir] + [n.lineno for n in ast.walk(fi.node) if isinstance(n, ast.Attribute)
                                                             and unparse(n) == "self.dir" and id(n) not in gtests] or [10**9])
            if name in ("uss", "crsd"):
                # integrate dir without a 1-D guard: evidence note (1-D input fails inside xarray instead of ValueError)
                rep.note(f"observation: SpecArray.{name} integrates '{D}' without a 1-D ValueError guard")
                continue
            # order by statement position (inlined helper bodies share one line number)
            body_ = fi.node.body
            def _pos(node_):
                for i_, st_ in enumerate(body_):
                    if any(x_ is node_ for x_ in ast.walk(st_)):
                        return i_
                return 10**9
            uses_ = [n for n in sums_dir] + [n for n in ast.walk(fi.node) if isinstance(n, ast.Attribute) and unparse(n) == "self.dir" and id(n) not in gtests]
            first_pos = min([_pos(n) for n in uses_] or [10**9])
            if guard and body_.index(guard[0]) < first_pos:
                exc = [x for x in guard[0].body if isinstance(x, ast.Raise)][0].exc
                nm = unparse(exc.func) if isinstance(exc, ast.Call) else unparse(exc)
                if nm == "ValueError":
                    rep.ok("R-C01-3", f"{fi.file}:{guard[0].lineno} SpecArray.{name}", "if self.dir is None: raise ValueError", "directional statistic refuses 1-D spectra before touching dir")
                else:
                    rep.fail("R-C01-3", fi.file, guard[0].lineno, fi.qualname, unparse(guard[0])[:80], "1-D spectra must be rejected with ValueError")
            elif name in ("df", "freq"):
                continue
            else:
                rep.fail("R-C01-3", fi.file, fi.node.lineno, fi.qualname, f"uses '{D}' without a dominating 1-D guard",
                         "a statistic that integrates direction itself must raise ValueError for 1-D spectra first; frequency-integrated "
                         "statistics must go through oned() so that 1-D and 2-D spectra give the same value")
    # oned: 1-D branch is the identity copy, 2-D branch is dd * sum over dir
    from ..astutil import factors, dim_arg
    fi = T.sa.methods["oned"]
    two_d = one_d = False
    for n in ast.walk(fi.node):
        if isinstance(n, ast.BinOp) and isinstance(n.op, ast.Mult):
            fs = factors(n)
            if len(fs) == 2 and any(unparse(f) == "self.dd" for f in fs):
                o = [f for f in fs if unparse(f) != "self.dd"][0]
                if isinstance(o, ast.Call) and isinstance(o.func, ast.Attribute) and o.func.attr == "sum" and unparse(o.func.value) == "self._obj" \
                        and dim_arg(o) is not None and repo.const(fi.module, dim_arg(o)) == D:
                    two_d = True
        if isinstance(n, ast.Call) and isinstance(n.func, ast.Attribute) and n.func.attr == "copy" and unparse(n.func.value) == "self._obj":
            one_d = True
    if two_d and one_d:
        rep.ok("R-C01-3", f"{fi.file}:{fi.node.lineno} SpecArray.oned", "2-D: dd * sum(dir); 1-D: copy", "single integration path")
    else:
        rep.fail("R-C01-3", fi.file, fi.node.lineno, fi.qualname, "oned()", "oned must be dd*sum over dir for 2-D spectra and the identity for 1-D spectra")


def twins(repo, rep):
    """R-C01-4: SpecArray.hs <-> hrms <-> npstats.hs ; SpecArray.dm <-> npstats.dm : same constants."""
    def consts_of(fi, names=None):
        out = []
        for n in ast.walk(fi.node):
            if isinstance(n, ast.Constant) and isinstance(n.value, (int, float)) and not isinstance(n.value, bool):
                p = getattr(n, "_parent", None)
                if isinstance(p, ast.Expr):
                    continue
                out.append(float(n.value))
        return sorted(out)
    sa = repo.cls("wavespectra.specarray.SpecArray")
    hs, hrms, nhs = sa.methods["hs"], sa.methods["hrms"], repo.func("wavespectra.core.npstats.hs")
    def tail(fi):
        thr = coef = None
        for n in ast.walk(fi.node):
            if isinstance(n, ast.Compare) and len(n.ops) == 1 and isinstance(n.ops[0], (ast.Gt, ast.Lt)):
                # E0 canonical form: `freq[-1] > 0.333` is stored as `0.333 < freq[-1]`
                v = repo.const(fi.module, n.left if isinstance(n.ops[0], ast.Lt) else n.comparators[0])
                if isinstance(v, float):
                    thr = v
            if isinstance(n, ast.BinOp) and isinstance(n.op, ast.Mult):
                v = repo.const(fi.module, n.left)
                if isinstance(v, float) and v == 0.25:
                    coef = v
        return thr, coef
    t = {f.short: tail(f) for f in (hs, hrms, nhs)}
    if len(set(t.values())) == 1 and None not in next(iter(t.values())):
        rep.ok("R-C01-4", "SpecArray.hs / hrms / npstats.hs", f"tail threshold and coefficient {next(iter(t.values()))}", "identical in the three siblings")
    else:
        rep.fail("R-C01-4", hs.file, hs.node.lineno, hs.qualname, str(t), "the high-frequency tail (threshold on the last frequency, coefficient 0.25) differs between sibling implementations of Hs")
    # final factors: hs = 4 sqrt(E), hrms = sqrt(8 E), npstats.hs = 4 sqrt(Etot)
    def four(fi):
        for n in ast.walk(fi.node):
            if isinstance(n, ast.BinOp) and isinstance(n.op, ast.Mult):
                for a, b in ((n.left, n.right), (n.right, n.left)):
                    if repo.const(fi.module, a) in (4, 4.0) and isinstance(b, ast.Call) and call_name(b) in ("np.sqrt", "numpy.sqrt"):
                        return True
        return False
    for f in (hs, nhs):
        if four(f):
            rep.ok("R-C01-4", f"{f.file}:{f.node.lineno} {f.short}", "4 * sqrt(m0)", "Hm0 definition")
        else:
            rep.fail("R-C01-4", f.file, f.node.lineno, f.qualname, "Hs factor", "significant height must be 4*sqrt(m0)")
    ok8 = any(isinstance(n, ast.Call) and call_name(n) in ("np.sqrt",) and n.args and isinstance(n.args[0], ast.BinOp) and
              8 in (repo.const(hrms.module, n.args[0].left), repo.const(hrms.module, n.args[0].right)) for n in ast.walk(hrms.node))
    if ok8:
        rep.ok("R-C01-4", f"{hrms.file}:{hrms.node.lineno} SpecArray.hrms", "sqrt(8 * m0)", "Hrms definition")
    else:
        rep.fail("R-C01-4", hrms.file, hrms.node.lineno, hrms.qualname, "Hrms factor", "rms height must be sqrt(8*m0)")
    dm, ndm, mom1, momd = sa.methods["dm"], repo.func("wavespectra.core.npstats.dm"), repo.func("wavespectra.core.npstats.mom1"), sa.methods["momd"]
    def dirconsts(*fis):
        s = set()
        for f in fis:
            for n in ast.walk(f.node):
                if isinstance(n, ast.Constant) and isinstance(n.value, (int, float)) and n.value in (270, 180, 360, 360.0, 90, 90.0):
                    s.add(float(n.value))
            a = f.node.args
            for d in a.defaults:
                v = repo.const(f.module, d)
                if v in (90, 90.0):
                    s.add(90.0)
        return s
    a, b = dirconsts(dm, momd), dirconsts(ndm, mom1)
    if a == b == {270.0, 180.0, 360.0, 90.0}:
        rep.ok("R-C01-4", "SpecArray.dm/momd <-> npstats.dm/mom1", "convention constants 270, 180+theta, theta=90, % 360", "equal in both implementations")
    else:
        rep.fail("R-C01-4", dm.file, dm.node.lineno, dm.qualname, f"xarray {sorted(a)} vs numpy {sorted(b)}", "the direction-convention constants differ between the xarray and numpy implementations of the mean direction")


def closed_forms(repo, rep):
    """R-C01-5: deep-water celerity 1.56/f and wavelength 1.56/f^2 (coefficient and exponent)."""
    from ..astutil import monomial
    sites = []
    sa = repo.cls("wavespectra.specarray.SpecArray")
    targets = [(repo.func("wavespectra.core.utils.celerity"), -1), (repo.func("wavespectra.core.utils.wavelen"), -2)] + \
        [(sa.methods[m], -2) for m in ("uss_x", "uss_y", "uss", "mss")]
    for fi, power in targets:
        found = False
        seen = set()
        for n in ast.walk(fi.node):
            if not isinstance(n, ast.BinOp) or id(n) in seen:
                continue
            m = monomial(repo, fi.module, n, {})
            if m is None or abs(m[0] - 1.56) > 1e-12 or len(m[1]) != 1:
                continue
            # maximal monomial subtree only
            for sub in ast.walk(n):
                seen.add(id(sub))
            (sym, exp), = m[1].items()
            found = True
            sites.append(fi)
            if sym.split(".")[-1] in ("freq",) and exp == power:
                rep.ok("R-C01-5", f"{fi.file}:{n.lineno} {fi.short}", unparse(n), f"1.56 * f^{power}")
            else:
                rep.fail("R-C01-5", fi.file, n.lineno, fi.qualname, unparse(n)[:100], f"the deep-water closed form must be exactly 1.56 * f^{power} (found 1.56 * {sym}^{exp})")
        if not found and fi.name in ("uss_x", "uss_y"):
            # one Stokes-drift component written through the other:  uss_y(theta) = uss_x(theta - 90)   [sin(a) = cos(a - 90)]
            sib = "uss_x" if fi.name == "uss_y" else "uss_y"
            from ..astutil import bound_args, signed_terms
            calls = [c for c in ast.walk(fi.node) if isinstance(c, ast.Call) and call_name(c) in (f"self.{sib}", f"self._obj.spec.{sib}")]
            if len(calls) == 1:
                b = bound_args(repo, fi, calls[0]) or {}
                th = b.get("theta")
                want = -90 if fi.name == "uss_y" else 90          # required  theta' - theta  (mod 360)
                okdel = False
                if th is not None:
                    terms = signed_terms(th)
                    coef = sum(sg for sg, t in terms if isinstance(t, ast.Name) and t.id == "theta")
                    const = sum(sg * repo.const(fi.module, t) for sg, t in terms if isinstance(repo.const(fi.module, t), (int, float)))
                    rest = [t for sg, t in terms if not (isinstance(t, ast.Name) and t.id == "theta") and not isinstance(repo.const(fi.module, t), (int, float))]
                    okdel = coef == 1 and not rest and (const - want) % 360 == 0
                found = True
                sites.append(fi)
                if okdel and unparse(b.get("depth")) == "depth":
                    rep.ok("R-C01-5", f"{fi.file}:{calls[0].lineno} {fi.short}", unparse(calls[0])[:80], f"{fi.name}(theta) = {sib}(theta {want:+d}): the same integral projected on the other axis")
                else:
                    rep.fail("R-C01-5", fi.file, calls[0].lineno, fi.qualname, unparse(calls[0])[:100],
                             f"{fi.name} is obtained from {sib} with theta -> {unparse(th) if th is not None else '?'}: sin(180 + theta - dir) equals "
                             f"cos(180 + theta' - dir) only for theta' = theta {want:+d} (mod 360); any other offset is another projection (right only at the "
                             "default theta)")
        if not found:
            rep.fail("R-C01-5", fi.file, fi.node.lineno, fi.qualname, "deep-water branch", f"the deep-water closed form 1.56 * f^{power} is missing")
    rep.floor("R-C01-5", "deep-water closed-form sites", len(sites), 6)
    # finite depth: linear dispersion through the wavenumber, c = 2 pi f / k(f, h), L = 2 pi / k(f, h); the deep-water closed form
    # belongs to the `depth is None` branch only (a depth-dependent shortcut to 1.56/f is off by more than 0.1 % near h = L/2)
    import math
    from ..astutil import returns as _rets, resolve as _res
    for fi, fpow in ((repo.func("wavespectra.core.utils.celerity"), 1), (repo.func("wavespectra.core.utils.wavelen"), 0)):
        dpar = fi.params[1]
        branch = None
        for i_ in ast.walk(fi.node):
            if isinstance(i_, ast.If) and isinstance(i_.test, ast.Compare) and unparse(i_.test.left) == dpar and repo.const(fi.module, i_.test.comparators[0]) is None:
                from ..astutil import if_branches
                b_, o_ = if_branches(i_)
                branch = (b_, o_) if isinstance(i_.test.ops[0], ast.IsNot) else (o_, b_)
        if branch is None:
            raise AnalysisError(f"{fi.short}: `if {dpar} is not None` branch not found")
        finite, deep = branch
        fnodes = {id(x) for st in finite for x in ast.walk(st)}
        bad = [n for n in ast.walk(fi.node) if isinstance(n, ast.BinOp) and id(n) in fnodes and
               (lambda m_: m_ is not None and abs(m_[0] - 1.56) < 1e-12)(monomial(repo, fi.module, n, {}))]
        rets = [(r_, v_) for r_, v_ in _rets(fi.node) if id(r_) in fnodes]
        ok_form = False
        if len(rets) == 1 and not bad:
            v_ = rets[0][1]
            if isinstance(v_, ast.BinOp) and isinstance(v_.op, ast.Div) and isinstance(v_.right, ast.Call) and call_name(v_.right).split(".")[-1] == "wavenuma" \
                    and [unparse(a_) for a_ in v_.right.args] == fi.params[:2]:
                num = _res(fi.node, v_.left, before=rets[0][0].lineno + 1)
                local = {}
                m_ = monomial(repo, fi.module, num, local)
                if m_ is not None and abs(m_[0] - 2 * math.pi) < 1e-12:
                    exps = {k.split(".")[-1]: e for k, e in m_[1].items()}
                    ok_form = (exps == {fi.params[0]: fpow}) if fpow else (exps == {})
        if ok_form:
            rep.ok("R-C01-5", f"{fi.file}:{rets[0][0].lineno} {fi.short}", unparse(rets[0][1])[:60], "2 pi f^%d / wavenuma(freq, depth) for every finite depth" % fpow)
        else:
            where = bad[0] if bad else (rets[0][0] if rets else fi.node)
            rep.fail("R-C01-5", fi.file, where.lineno, fi.qualname, unparse(where)[:100],
                     f"with a depth given, {fi.name} must be 2 pi f^{fpow} / wavenuma(freq, depth) for EVERY depth: a deep-water shortcut (1.56/f) "
                     "inside the finite-depth branch breaks the linear dispersion relation by more than 0.1 % near depth = wavelength / 2",
                     anchor=f"finite-depth-form:{fi.name}")
    from .shared import wavenumber_polynomial
    wavenumber_polynomial(repo, rep, "R-C01-5")


def literal_axes(repo, rep, rule):
    """The numpy-level twins receive (freq, dir) arrays by the apply_ufunc core-dim contract: the axis a reduction runs over is a literal, never inferred
    from array shapes (shape.index(len(dir)) picks the FIRST axis of that length: on a square grid the integral runs over frequency instead of direction)."""
    n_ = 0
    m = repo.module("wavespectra.core.npstats")
    for fi in m.all_funcs():
        for c in ast.walk(fi.node):
            if not (isinstance(c, ast.Call) and isinstance(c.func, ast.Attribute) and c.func.attr in ("sum", "mean", "max", "min", "argmax", "argmin", "cumsum", "trapz", "prod", "std")):
                continue
            ax = kwarg(c, "axis")
            if ax is None and c.args and not (isinstance(c.func.value, ast.Name) and c.func.value.id in ("np", "numpy")):
                ax = c.args[0]
            elif ax is None and len(c.args) >= 2 and isinstance(c.func.value, ast.Name) and c.func.value.id in ("np", "numpy") and c.func.attr != "trapz":
                ax = c.args[1]
            if ax is None:
                continue
            n_ += 1
            v = repo.const(fi.module, ax)
            if isinstance(v, int) and not isinstance(v, bool) or (isinstance(v, tuple) and all(isinstance(x, int) for x in v)) or v is None and isinstance(ax, ast.Constant):
                rep.ok(rule, f"{fi.file}:{c.lineno} {fi.short}", unparse(c)[:60], f"axis {v}: fixed by the (freq, dir) kernel contract")
            else:
                rep.fail(rule, fi.file, c.lineno, fi.qualname, unparse(c)[:100],
                         f"the reduced axis '{unparse(ax)[:50]}' is computed at run time (from shapes / lengths): when both spectral dimensions have the same size it "
                         "designates the wrong one and the statistic integrates over the other variable", anchor=f"computed-axis:{fi.short}")
    return n_


_PASS = ("rename", "fillna", "where", "astype", "squeeze", "transpose", "isel", "sel", "chunk", "copy", "load", "compute", "drop_vars", "expand_dims",
         "reset_coords", "sortby", "persist", "assign_coords", "real", "sum", "mean")


def freq_measure(repo, rep, rule):
    """R-C01-15: a sum over the frequency axis approximates an integral only if every summand carries its own bin width (the frequency widths are an
    array: log-spaced and irregular grids are in the quantifier), so the operand of every frequency sum in the integrated statistics must contain the
    widths as a factor of every term.  (The direction width is one scalar on the uniform direction grid and may multiply the sum afterwards.)"""
    sa_mod = repo.module("wavespectra.specarray")
    np_mod = repo.module("wavespectra.core.npstats")
    scope = [fi for fi in sa_mod.all_funcs() if fi.cls is not None and fi.cls.name == "SpecArray"]
    np_scope = [fi for fi in np_mod.all_funcs() if fi.cls is None and fi.name in ("hs", "dm", "mom1")]
    if len(np_scope) != 3:
        raise AnalysisError("R-C01-15: numpy twins hs/dm/mom1 not found (anchor vanished)")
    by_short = {fi.name: fi for fi in scope}
    np_by_short = {fi.name: fi for fi in np_mod.all_funcs() if fi.cls is None}

    def is_freq_sum(fi, c):
        """Returns the summed operand when `c` is a reduction by summation along frequency, else None."""
        if not isinstance(c, ast.Call):
            return None
        xr_level = fi.module.name == "wavespectra.specarray"
        if isinstance(c.func, ast.Attribute) and c.func.attr == "sum" and not (isinstance(c.func.value, ast.Name) and c.func.value.id in ("np", "numpy")):
            if xr_level:
                d = dim_arg(c)
                v = repo.const(fi.module, d) if d is not None else None
                if v == "freq" or (isinstance(v, (list, tuple)) and "freq" in v):
                    return c.func.value
                return None
            ax = kwarg(c, "axis") or (c.args[0] if c.args else None)
            v = repo.const(fi.module, ax) if ax is not None else None
            if ax is None or v == 0:
                return c.func.value
            return None
        if not xr_level and call_name(c) in ("np.sum", "numpy.sum", "sum", "np.nansum") and c.args:
            ax = kwarg(c, "axis") or (c.args[1] if len(c.args) > 1 else None)
            v = repo.const(fi.module, ax) if ax is not None else None
            if ax is None or v == 0:
                return c.args[0]
        return None

    def tuple_binding(fi, name, before):
        best = None
        for a in ast.walk(fi.node):
            if isinstance(a, ast.Assign) and len(a.targets) == 1 and isinstance(a.targets[0], ast.Tuple) and a.lineno < before:
                for i, t in enumerate(a.targets[0].elts):
                    if isinstance(t, ast.Name) and t.id == name and (best is None or a.lineno > best[0].lineno):
                        best = (a, i)
        return best

    def is_width(fi, e):
        if isinstance(e, ast.Attribute) and e.attr == "df" and isinstance(e.value, ast.Name) and e.value.id == "self":
            return True
        names = {n.id for n in ast.walk(e) if isinstance(n, ast.Name)} - {"np", "numpy", "abs", "self"}
        attrs_ = {n.attr for n in ast.walk(e) if isinstance(n, ast.Attribute) and isinstance(n.value, ast.Name) and n.value.id == "self"}
        if not (names | attrs_) or not (names | attrs_) <= {"freq"}:
            return False
        for n in ast.walk(e):
            if isinstance(n, ast.Call) and call_name(n) in ("np.diff", "np.gradient", "numpy.diff", "numpy.gradient", "np.ediff1d"):
                return True
            if isinstance(n, ast.BinOp) and isinstance(n.op, ast.Sub) and isinstance(n.left, ast.Subscript) and isinstance(n.right, ast.Subscript):
                return True
        return False

    def has(fi, e, before, idx=None, depth=0, prov=None):
        """True when every term of `e` (a value still spanning frequency) carries the frequency bin widths as a factor."""
        if depth > 12:
            return False
        if is_width(fi, e):
            return True
        if isinstance(e, ast.Name):
            cands = [a for a in assignments(fi.node, e.id) if a.lineno < before]
            tb = tuple_binding(fi, e.id, before)
            if cands and (tb is None or max(c.lineno for c in cands) > tb[0].lineno):
                a = max(cands, key=lambda x: x.lineno)
                return has(fi, a.value, a.lineno, None, depth + 1, prov)
            if tb is not None:
                a, i = tb
                if isinstance(a.value, ast.Tuple) and i < len(a.value.elts):
                    return has(fi, a.value.elts[i], a.lineno, None, depth + 1, prov)
                return has(fi, a.value, a.lineno, i, depth + 1, prov)
            return False
        if isinstance(e, ast.Tuple) and idx is not None and idx < len(e.elts):
            return has(fi, e.elts[idx], before, None, depth + 1, prov)
        if isinstance(e, ast.BinOp):
            if isinstance(e.op, (ast.Mult, ast.MatMult)):
                return has(fi, e.left, before, None, depth + 1, prov) or has(fi, e.right, before, None, depth + 1, prov)
            if isinstance(e.op, (ast.Div, ast.Pow)):
                return has(fi, e.left, before, None, depth + 1, prov)
            if isinstance(e.op, (ast.Add, ast.Sub)):
                return has(fi, e.left, before, None, depth + 1, prov) and has(fi, e.right, before, None, depth + 1, prov)
            return False
        if isinstance(e, ast.UnaryOp):
            return has(fi, e.operand, before, None, depth + 1, prov)
        if isinstance(e, ast.Subscript):
            return has(fi, e.value, before, idx, depth + 1, prov)
        if isinstance(e, ast.IfExp):
            return has(fi, e.body, before, idx, depth + 1, prov) and has(fi, e.orelse, before, idx, depth + 1, prov)
        if isinstance(e, ast.Call):
            if is_freq_sum(fi, e) is not None:
                return False          # the measure was consumed by that sum: what is left is a number per spectrum
            cn = call_name(e)
            callee = None
            if isinstance(e.func, ast.Attribute) and isinstance(e.func.value, ast.Name) and e.func.value.id == "self":
                callee = by_short.get(e.func.attr)
            elif cn in np_by_short and fi.module.name == "wavespectra.core.npstats":
                callee = np_by_short[cn]
            elif cn and cn.split(".")[-1] in np_by_short and cn.split(".")[0] in ("npstats",):
                callee = np_by_short[cn.split(".")[-1]]
            if callee is not None:
                if prov is not None:
                    prov.append(f"{callee.name}(){'' if idx is None else '[%d]' % idx}")
                rets = [r for r in ast.walk(callee.node) if isinstance(r, ast.Return) and r.value is not None]
                return bool(rets) and all(has(callee, r.value, r.lineno + 1, idx, depth + 1, None) for r in rets)
            if isinstance(e.func, ast.Attribute) and e.func.attr in _PASS:
                return has(fi, e.func.value, before, idx, depth + 1, prov)
            if cn in ("np.squeeze", "np.abs", "abs", "np.asarray", "np.nan_to_num", "np.real") and e.args:
                return has(fi, e.args[0], before, idx, depth + 1, prov)
            return False
        return False

    n = 0
    for fi in scope + np_scope:
        k = 0
        for c in sorted((x for x in ast.walk(fi.node) if isinstance(x, ast.Call)), key=lambda x: (x.lineno, x.col_offset)):
            operand = is_freq_sum(fi, c)
            if operand is None:
                continue
            n += 1
            prov = []
            good = has(fi, operand, c.lineno + 1, None, 0, prov)
            if good:
                rep.ok(rule, f"{fi.file}:{c.lineno} {fi.short}", unparse(c)[:80], "every term of the summed operand carries the frequency bin widths")
            else:
                src = prov[0] if prov else f"#{k}"
                rep.fail(rule, fi.file, c.lineno, fi.qualname, unparse(c)[:100],
                         "a sum over the frequency axis whose operand does not carry the frequency bin widths: on a log-spaced or irregular frequency grid the "
                         "bins enter with equal weight instead of their widths, so the result is not the defining integral (the direction width is a scalar; "
                         "the frequency widths are not)", anchor=f"{fi.name}:unweighted-freq-sum:{src}")
            k += 1
    return n


def run(repo, rep, tier):
    rep.rule("R-C01-w1", "no direction bin width is derived from the extent max(dir) - min(dir) of the axis (a sector straddling north has extent ~360)")
    from .round7b import extent_width
    extent_width(repo, rep, "R-C01-w1")
    from .round7b import hygiene
    hygiene(repo, rep, "C01", ('wavespectra.specarray', 'wavespectra.core.xrstats', 'wavespectra.core.npstats', 'wavespectra.core.utils'), falsy=True)
    rep.rule("R-C01-12", "in the numpy-level statistics the axis of every reduction is a literal (the kernels get (freq, dir) arrays by contract), never derived from shapes")
    rep.floor("R-C01-12", "axis arguments in npstats", literal_axes(repo, rep, "R-C01-12"), 3)
    rep.rule("R-C01-15", "every sum over the frequency axis inside an integrated statistic (accessor methods and the numpy twins hs / dm / mom1) has an operand each of whose "
                         "terms carries the frequency bin widths (self.df, or differences of the frequency coordinate): the widths are an array, so they cannot be applied after the sum")
    rep.floor("R-C01-15", "frequency sums in the integrated statistics", freq_measure(repo, rep, "R-C01-15"), 12)
    rep.rule("R-C01-13", "(shared with C10) the mean direction is (270 - atan2(..) in degrees) reduced modulo 360 as the outermost operation (precedence included)")
    from .c10 import mod360_last as _m360
    from .c07 import _Relabel
    class _Only(_Relabel):
        def fail(self, rule, *a, **k):
            return self._rep.fail(self._rule, *a, **k) if rule == "R-C10-2" else None
        def ok(self, rule, *a, **k):
            return self._rep.ok(self._rule, *a, **k) if rule == "R-C10-2" else None
    _m360(repo, _Only(rep, "R-C01-13"))
    rep.rule("R-C01-14", "(shared with C20) a statistic that takes differences of a coordinate (hmax: the sea-state duration from the time axis) does so only under a test "
                         "that the coordinate has at least two values: otherwise the statistic of a valid one-record spectrum is NaN")
    from .c20 import diff_reductions as _dr
    _dr(repo, _Relabel(rep, "R-C01-14"), "R-C01-14", modules=("wavespectra.specarray", "wavespectra.core.npstats", "wavespectra.core.xrstats"))
    rep.rule("R-C01-7", "every parameter of the functions behind this property is read (statistics): none is accepted and then ignored, and no control parameter (cutoff, limit, tolerance, window, count, switch) is replaced by another value before use (coercion and default filling aside)")
    from .shared import unused_parameters
    unused_parameters(repo, rep, "R-C01-7", ("wavespectra.specarray", "wavespectra.core.npstats", "wavespectra.core.xrstats", "wavespectra.core.utils"), "statistics")
    rep.rule("R-C01-1", "the inferred units of every integrated statistic equal its CF units in attributes.yml (helpers: definitions)")
    rep.rule("R-C01-2", "every statistic leaves exactly the spectral dimensions its definition says (reductions over the right named dims)")
    rep.rule("R-C01-3", "one integration path for 1-D and 2-D spectra: oned(), or a ValueError guard before direction is used")
    rep.rule("R-C01-4", "sibling implementations (xarray / numpy) agree on tail threshold, coefficients and direction-convention constants")
    rep.rule("R-C01-5", "deep-water closed forms are exactly 1.56/f and 1.56/f^2; the wavenumber polynomial sums all its coefficients")
    rep.rule("R-C01-6", "(shared with C05/C18) bin widths are circular and never cached on the accessor")
    rep.rule("R-C01-8", "normalised moments (periods, mean direction, spreads, widths) take numerator and denominator over the same band: no energy "
                        "total from hs() (which adds the high-frequency tail by default) inside a ratio statistic")
    from .shared import same_band_ratios
    same_band_ratios(repo, rep, "R-C01-8")
    T = Typing(repo, two_d=True)
    shared_c01(repo, rep, T)
    try:
        n = typed_statistics(repo, rep, T, "R-C01-1", "R-C01-2")
    except AnalysisError as e:
        if not rep.has_new_findings():
            raise
        rep.note(f"typing stopped early ({e}); the violations above already decide the run")
        return "see violations"
    problems(rep, T, "R-C01-1", ("units", "dims", "log"), skip_funcs=("gw",))
    # R-C01-9 (shared with C10): a guard inside an integrated parameter that compares an energy-dependent quantity with an absolute constant
    # replaces the defining integral by a fill value below that level
    rep.rule("R-C01-9", "(shared with C10) degenerate-case guards inside the integrated parameters compare scale-free quantities (or the result "
                        "itself): a guard on an energy-dependent quantity against an absolute constant returns a fill value instead of the "
                        "defining integral for low-energy spectra")
    from .shared import RATIO_STATS, scale_free_guards
    scale_free_guards(repo, rep, "R-C01-9", T, RATIO_STATS + ("hs", "hrms", "mss", "uss", "uss_x", "uss_y"))
    rep.rule("R-C01-11", "(shared with C09) statistics requested with band limits are computed on one split of the spectrum that receives all four "
                         "limits, and each statistic is looked up on that split spectrum")
    from .c09 import stats_dispatch
    stats_dispatch(repo, rep, "R-C01-11")
    rep.rule("R-C01-10", "(shared with C05) label-level code never combines a bare ndarray taken out of a labelled array with labelled data, nor "
                         "applies a positional axis to it: the directional weights / bin widths meet the spectrum by dimension name")
    from .c05 import raw_positional
    raw_positional(repo, rep, "R-C01-10")
    rep.floor("R-C01-1", "typed statistics", n, 30)
    T1 = Typing(repo, two_d=False)
    for name in ("hs", "hrms", "tm01", "tm02", "swe", "sw", "goda", "mss"):
        q = T1.eval_method(T1.sa.methods[name], None, [], None)
        q2 = T.eval_method(T.sa.methods[name], None, [], None)
        if isinstance(q, Q) and isinstance(q2, Q) and q.u == q2.u and q.dims == q2.dims:
            rep.ok("R-C01-3", f"SpecArray.{name}", f"1-D spectrum E(f) types as {q.ustr()}", "same as the direction-integrated 2-D spectrum")
        else:
            rep.fail("R-C01-3", T.sa.methods[name].file, T.sa.methods[name].node.lineno, T.sa.methods[name].qualname,
                     f"1-D: {q}  2-D: {q2}", "a 1-D spectrum must give the same frequency-integrated statistic as the direction-integrated 2-D one")
    single_path(repo, rep, T)
    twins(repo, rep)
    closed_forms(repo, rep)
    return explanation_c01(rep)


def shared_c01(repo, rep, T):
    from .c05 import circular_width
    circular_width(repo, rep, "R-C01-6")
    from ..effects import Engine
    eng = Engine(repo)
    eng.solve()
    from .c18 import accessor_state
    for f, ln, fn, cons, why in accessor_state(repo, eng, T.sa):
        rep.fail("R-C01-6", f, ln, fn, cons, why + ": a bin width / intermediate is cached on the accessor instance: after the coordinates are edited the statistics are integrated with stale values")
    rep.ok("R-C01-6", "SpecArray", "no derived state on the accessor", "df, dd recomputed from the current coordinates")
    # a statistic that writes into the spectrum it is measuring changes every statistic computed afterwards (1-D vs 2-D paths differ:
    # only the path that hands out a view of the data is hit)
    nst = 0
    _seen_sites = set()
    for mname, fi in T.sa.methods.items():
        if mname.startswith("__"):
            continue
        nst += 1
        sm = eng.summ.get(fi.qualname)
        for (r, rp), e in (sm.effects.items() if sm else []):
            if r == "self" and rp in ("B", "Bc") and (e.file, e.line) not in _seen_sites:
                _seen_sites.add((e.file, e.line))
                rep.fail("R-C01-6", e.file, e.line, fi.qualname, e.construct,
                         f"{e.what}: the statistic overwrites values of the spectrum it integrates (reached on the path where the "
                         "intermediate is a view of the data, e.g. 1-D spectra), so it and later statistics no longer equal the defining integrals",
                         list(e.via), anchor=f"statistic-writes-data:{mname}")
                break
    rep.ok("R-C01-6", "SpecArray", f"{nst} methods", "no method writes the buffer of the wrapped spectrum")


def explanation_c01(rep):
    rep.trust("attributes.yml as units oracle; dimensioned-literal table (1.56 = g/2pi m s^-2, 0.10194 = 1/g); Python ast")
    rep.note("observation: gw as coded adds m^2 s^-2 to m^4 s^-2 (Bunney et al. expression; reference not available offline): no unit "
             "obligation is stated for gw")
    rep.note("not decided: numerical equality with the integrals on any grid; df vs freq (same unit Hz) mix-ups; float32/float64 agreement; "
             "the 0.1 % accuracy of the Chen-Thomson polynomial's coefficients; hmax's wave count")
    return ("Static units-of-measure and dimension typing of every integrated statistic: an abstract interpreter over the SpecArray "
            "methods (units m/s/deg, spectral dims, call-site-constant specialisation, interprocedural) infers each return type from "
            "the types of efth, freq, dir, df, dd and compares it with the CF units of attributes.yml; plus 1-D/2-D agreement, the "
            "single integration path, sibling-constant agreement with the numpy twins, and the deep-water closed forms.")
