"""C09 - threshold, wave-age and box splits assign every bin by the stated rule."""
import ast

from ..cfg import CFG
from ..model import UNKNOWN, call_name, kwarg, unparse
from ..order import OrderAnalysis
from ..report import AnalysisError

PART = "wavespectra.partition.partition.Partition"


def _local(fi, name):
    """The single assignment `name = expr` in the function (None if 0 or >1)."""
    vals = [n.value for n in ast.walk(fi.node) if isinstance(n, ast.Assign) and len(n.targets) == 1
            and isinstance(n.targets[0], ast.Name) and n.targets[0].id == name]
    return vals[0] if len(vals) == 1 else None


def _resolve(fi, e, depth=0):
    if depth < 4 and isinstance(e, ast.Name):
        v = _local(fi, e.id)
        if v is not None:
            return _resolve(fi, v, depth + 1)
    if depth < 4 and isinstance(e, ast.Subscript) and isinstance(e.value, ast.Name) and isinstance(e.slice, (ast.Constant, ast.UnaryOp)):
        v = _local(fi, e.value.id)
        try:
            i = ast.literal_eval(e.slice)
        except Exception:
            i = None
        if isinstance(v, ast.Tuple) and isinstance(i, int) and -len(v.elts) <= i < len(v.elts):
            return _resolve(fi, v.elts[i], depth + 1)
    return e


def _factors(e):
    if isinstance(e, ast.BinOp) and isinstance(e.op, ast.Mult):
        return _factors(e.left) + _factors(e.right)
    return [e]


def waveage_rule(repo, rep):
    fi = repo.func("wavespectra.core.utils.waveage")
    ps = fi.params      # freq, dir, wspd, wdir, dpt, agefac
    rets = [n for n in ast.walk(fi.node) if isinstance(n, ast.Return)]
    if len(rets) != 1:
        raise AnalysisError("waveage: expected one return")
    r = _resolve(fi, rets[0].value)
    if isinstance(r, ast.BinOp) and isinstance(r.op, (ast.BitAnd, ast.BitOr)) or isinstance(r, ast.BoolOp) or \
            (isinstance(r, ast.Call) and call_name(r) in ("np.logical_and", "np.logical_or")):
        rep.fail("R-C09-1", fi.file, rets[0].lineno, fi.qualname, unparse(rets[0])[:140],
                 "the wind-sea mask is the single comparison celerity <= agefac*wspd*cos(dir - wdir); an extra condition changes "
                 "which bins are wind sea (and a plain |dir - wdir| test is not circular at the 0/360 seam)")
        return
    if not (isinstance(r, ast.Compare) and len(r.ops) == 1):
        raise AnalysisError("waveage: return is not a comparison")
    l, op, rr = _resolve(fi, r.left), r.ops[0], _resolve(fi, r.comparators[0])
    def is_cel(e):
        return isinstance(e, ast.Call) and call_name(e).split(".")[-1] == "celerity"
    if is_cel(rr) and not is_cel(l):
        l, rr = rr, l
        op = {ast.Lt: ast.Gt, ast.LtE: ast.GtE, ast.Gt: ast.Lt, ast.GtE: ast.LtE}[type(op)]()
    if not is_cel(l):
        rep.fail("R-C09-1", fi.file, rets[0].lineno, fi.qualname, unparse(rets[0])[:140], "one side must be the celerity of the bin")
        return
    cargs = [unparse(a) for a in l.args] + [unparse(k.value) for k in l.keywords]
    if cargs[:2] != [ps[0], ps[4]]:
        rep.fail("R-C09-1", fi.file, l.lineno, fi.qualname, unparse(l), f"celerity must be evaluated at ({ps[0]}, {ps[4]}) = the bin frequency and the given depth")
    if not isinstance(op, ast.LtE):
        rep.fail("R-C09-1", fi.file, rets[0].lineno, fi.qualname, unparse(rets[0])[:140],
                 "a bin is wind sea exactly when its celerity does NOT EXCEED the wind component (celerity <= component)")
    else:
        rep.ok("R-C09-1", f"{fi.file}:{rets[0].lineno} waveage", unparse(rets[0]), "celerity <= wind component")
    fs = [_resolve(fi, f) for f in _factors(rr)]
    names = sorted(unparse(f) for f in fs if isinstance(f, ast.Name))
    cos = [f for f in fs if isinstance(f, ast.Call) and call_name(f) in ("np.cos", "numpy.cos")]
    if names != sorted([ps[5], ps[2]]) or len(cos) != 1 or len(fs) != 3:
        rep.fail("R-C09-1", fi.file, rets[0].lineno, fi.qualname, unparse(rr)[:120], f"the wind component must be {ps[5]} * {ps[2]} * cos(dir - wdir)")
        return
    arg = cos[0].args[0]
    afs = _factors(arg)
    d2r = [f for f in afs if isinstance(repo.const(fi.module, f), float) and abs(repo.const(fi.module, f) - 0.017453292519943295) < 1e-12]
    diff = [f for f in afs if isinstance(f, ast.BinOp) and isinstance(f.op, ast.Sub)]
    if len(afs) == 1 and isinstance(arg, ast.Call) and call_name(arg) in ("np.radians", "np.deg2rad"):
        diff = [arg.args[0]] if isinstance(arg.args[0], ast.BinOp) else []
        d2r = [arg]
    if len(d2r) != 1 or len(diff) != 1:
        rep.fail("R-C09-1", fi.file, cos[0].lineno, fi.qualname, unparse(cos[0]), "the cosine argument must be the direction difference converted from degrees to radians")
        return
    pair = {unparse(diff[0].left), unparse(diff[0].right)}
    if pair != {ps[1], ps[3]}:
        rep.fail("R-C09-1", fi.file, cos[0].lineno, fi.qualname, unparse(cos[0]), f"the angle is between the bin direction '{ps[1]}' and the wind direction '{ps[3]}'")
    else:
        rep.ok("R-C09-1", f"{fi.file}:{cos[0].lineno} waveage", unparse(rr), "agefac * wspd * cos(D2R * (dir - wdir))")


def _name_concat_parts(fi):
    """`xr.concat([x.where(a), x.where(b)], dim=..)` is the same program as binding the two masked objects to names first: give
    the list elements names so that one set of checks serves both spellings."""
    for st in ast.walk(fi.node):
        for f_ in ("body", "orelse"):
            lst = getattr(st, f_, None)
            if not (isinstance(lst, list) and lst and isinstance(lst[0], ast.stmt)):
                continue
            for i, s_ in enumerate(list(lst)):
                for n in ast.walk(s_) if not isinstance(s_, (ast.For, ast.While, ast.If, ast.With, ast.Try, ast.FunctionDef)) else []:
                    if isinstance(n, ast.Call) and call_name(n) in ("xr.concat", "xarray.concat") and n.args and isinstance(n.args[0], (ast.List, ast.Tuple)) \
                            and any(isinstance(e, ast.Call) for e in n.args[0].elts):
                        new = []
                        for k, e in enumerate(n.args[0].elts):
                            if isinstance(e, ast.Call):
                                nm = f"_concat_part{k}"
                                a = ast.Assign(targets=[ast.Name(id=nm, ctx=ast.Store())], value=e)
                                ast.copy_location(a, s_)
                                ast.fix_missing_locations(a)
                                a._parent = st
                                for x in ast.walk(a):
                                    for ch in ast.iter_child_nodes(x):
                                        ch._parent = x
                                new.append(a)
                                nn = ast.copy_location(ast.Name(id=nm, ctx=ast.Load()), e)
                                nn._parent = n.args[0]
                                n.args[0].elts[k] = nn
                        j = lst.index(s_)
                        lst[j:j] = new


def ptm4_rule(repo, rep):
    fi = repo.func(f"{PART}.ptm4")
    _name_concat_parts(fi)
    mask = None
    for n in ast.walk(fi.node):
        if isinstance(n, ast.Assign) and isinstance(n.value, ast.Call) and call_name(n.value).split(".")[-1] == "waveage":
            mask = n.targets[0].id
            args = [unparse(a) for a in n.value.args]
            obj = args[0].split(".")[0] if args else None
            if len(args) < 6 or not args[0].endswith(".freq") or not args[1].endswith(".dir") or args[1].split(".")[0] != obj:
                rep.fail("R-C09-1", fi.file, n.lineno, fi.qualname, unparse(n)[:120], "the mask must be built from the spectrum's own freq/dir coordinates")
    if mask is None:
        raise AnalysisError("ptm4: waveage call not found")
    wheres = {}
    for n in ast.walk(fi.node):
        if isinstance(n, ast.Assign) and isinstance(n.value, ast.Call) and isinstance(n.value.func, ast.Attribute) and n.value.func.attr == "where":
            wheres[n.targets[0].id] = (n, unparse(n.value.func.value), unparse(n.value.args[0]) if n.value.args else "")
    pos = [k for k, v in wheres.items() if v[2] == mask]
    negs = [k for k, v in wheres.items() if v[2] == f"~{mask}"]
    if len(pos) != 1 or len(negs) != 1 or wheres[pos[0]][1] != wheres[negs[0]][1]:
        rep.fail("R-C09-1", fi.file, fi.node.lineno, fi.qualname, "sea/swell masks",
                 "sea and swell must be the same object masked by the wave-age mask and by its exact complement (~mask): "
                 "otherwise the two partitions overlap or lose bins")
        return
    rep.ok("R-C09-1", f"{fi.file}:{wheres[pos[0]][0].lineno} ptm4", f"where({mask}) / where(~{mask}) of {wheres[pos[0]][1]}", "complementary split")
    _concat_order(repo, rep, fi, [pos[0], negs[0]], "R-C09-1", "wind sea first, swell second")
    _fillna(rep, fi, "R-C09-1")


def _concat_order(repo, rep, fi, want, rule, what):
    for n in ast.walk(fi.node):
        if isinstance(n, ast.Call) and call_name(n) in ("xr.concat", "xarray.concat") and n.args and isinstance(n.args[0], (ast.List, ast.Tuple)):
            got = [unparse(e) for e in n.args[0].elts]
            d = kwarg(n, "dim")
            if got == want and d is not None and repo.const(fi.module, d) == "part":
                rep.ok(rule, f"{fi.file}:{n.lineno} {fi.short}", unparse(n), what)
            else:
                rep.fail(rule, fi.file, n.lineno, fi.qualname, unparse(n), f"partitions must be stacked along 'part' in the order {want}")
            return
    raise AnalysisError(f"{fi.short}: concat of the partitions not found")


def _fillna(rep, fi, rule):
    from ..astutil import returns as _rets
    rr = _rets(fi.node)
    rets = [x[0] for x in rr]
    r = rr[-1][1]
    if isinstance(r, ast.Call) and isinstance(r.func, ast.Attribute) and r.func.attr == "fillna" and r.args and \
            isinstance(r.args[0], ast.Constant) and r.args[0].value in (0, 0.0):
        rep.ok(rule, f"{fi.file}:{rets[-1].lineno} {fi.short}", unparse(rets[-1]), "masked-out bins become zero")
    else:
        rep.fail(rule, fi.file, rets[-1].lineno, fi.qualname, unparse(rets[-1])[:100], "bins outside a partition must be zero (fillna(0.0)), not NaN or another value")


def ptm5_rule(repo, rep):
    fi = repo.func(f"{PART}.ptm5")
    _name_concat_parts(fi)
    wheres = {}
    for n in ast.walk(fi.node):
        if isinstance(n, ast.Assign) and isinstance(n.value, ast.Call) and isinstance(n.value.func, ast.Attribute) and n.value.func.attr == "where":
            cond = n.value.args[0] if n.value.args else None
            if isinstance(cond, ast.Compare) and len(cond.ops) == 1:
                wheres[n.targets[0].id] = (n, unparse(n.value.func.value), cond)
    from ..astutil import rel as _rel
    def _frel(c):
        r_ = _rel(c, lambda e: unparse(e).endswith(".freq"))
        return r_ if r_ is not None and unparse(r_[2]) == "fcut" else None
    hi = [k for k, (n, o, c) in wheres.items() if _frel(c) and _frel(c)[1] == ">="]
    lo = [k for k, (n, o, c) in wheres.items() if _frel(c) and _frel(c)[1] == "<="]
    if len(hi) != 1 or len(lo) != 1:
        n0 = next(iter(wheres.values()))[0] if wheres else fi.node
        rep.fail("R-C09-3", fi.file, n0.lineno, fi.qualname, "; ".join(unparse(v[2]) for v in wheres.values()),
                 "the sea keeps freq >= fcut and the swell keeps freq <= fcut (closed on both sides of the cutoff, zero strictly beyond)")
        return
    o1, o2 = wheres[hi[0]][1], wheres[lo[0]][1]
    c1, c2 = wheres[hi[0]][2], wheres[lo[0]][2]
    if o1 != o2 or unparse(_frel(c1)[0]).split(".")[0] != o1 or unparse(_frel(c2)[0]).split(".")[0] != o1:
        rep.fail("R-C09-3", fi.file, wheres[hi[0]][0].lineno, fi.qualname, f"{unparse(wheres[hi[0]][0])}; {unparse(wheres[lo[0]][0])}",
                 "both partitions and both masks must come from the same (regridded) object")
    else:
        rep.ok("R-C09-3", f"{fi.file}:{wheres[hi[0]][0].lineno} ptm5", f"{o1}.where(freq >= fcut) / {o1}.where(freq <= fcut)", "closed cutoff masks on one object")
    # the cutoff compared in the masks is the caller's: the parameter is never redefined (scalar coercion of itself aside)
    if "fcut" not in fi.params:
        raise AnalysisError("ptm5: parameter fcut not found")
    redef = None
    for n in ast.walk(fi.node):
        if isinstance(n, (ast.Assign, ast.AugAssign)):
            tg = n.targets if isinstance(n, ast.Assign) else [n.target]
            if any(isinstance(x, ast.Name) and x.id == "fcut" for t_ in tg for x in ast.walk(t_)):
                v_ = n.value
                coercion = isinstance(n, ast.Assign) and isinstance(v_, ast.Call) and call_name(v_).split(".")[-1] in ("float", "float64", "float32", "asarray", "array") \
                    and len(v_.args) == 1 and unparse(v_.args[0]) == "fcut" and not v_.keywords
                if not coercion:
                    redef = n
    if redef is not None:
        rep.fail("R-C09-3", fi.file, redef.lineno, fi.qualname, unparse(redef)[:110],
                 "the cutoff is replaced by another value (e.g. snapped to a grid frequency) before the masks are built: for an off-grid cutoff "
                 "without interpolation the partitions are then cut at a neighbouring frequency, not zero strictly beyond the requested one")
    else:
        rep.ok("R-C09-3", f"{fi.file}:{fi.node.lineno} ptm5", "fcut", "the masks compare against the cutoff as given")
    _concat_order(repo, rep, fi, [hi[0], lo[0]], "R-C09-3", "sea (high frequencies) first, swell second")
    _fillna(rep, fi, "R-C09-3")
    # regrid only when the cutoff is not a grid frequency
    ok = False
    for n in ast.walk(fi.node):
        if isinstance(n, ast.If) and isinstance(n.test, ast.Compare) and _rel(n.test, lambda e: unparse(e).startswith("len(")) is not None and _rel(n.test, lambda e: unparse(e).startswith("len("))[1] == ">" \
                and ".freq.size" in unparse(_rel(n.test, lambda e: unparse(e).startswith("len("))[2]) and any(isinstance(c, ast.Call) and call_name(c) == "regrid_spec" for c in ast.walk(n)):
            ok = True
    if ok:
        rep.ok("R-C09-3", f"{fi.file} ptm5", "regrid_spec only when fcut adds a frequency", "on-grid cutoffs leave the input untouched")
    else:
        rep.fail("R-C09-3", fi.file, fi.node.lineno, fi.qualname, "regrid guard", "the spectrum is regridded (and rescaled) even when the cutoff is a grid frequency")


def _separating_tests(scope):
    """{(rectangle, high-edge slot)} for comparisons `high edge of one rectangle <= low edge of the other (same axis)` found in scope,
    rectangles being two 4-tuples unpacked as (low-x, low-y, high-x, high-y)."""
    unp = [n.targets[0] for n in ast.walk(scope) if isinstance(n, ast.Assign) and isinstance(n.targets[0], ast.Tuple) and len(n.targets[0].elts) == 4
           and all(isinstance(e, ast.Name) for e in n.targets[0].elts)]
    # rectangles unpacked in the header of an enclosing loop:  for (l1, b1, r1, t1), (l2, b2, r2, t2) in combinations(..)
    p_ = scope
    while p_ is not None and not isinstance(p_, (ast.FunctionDef, ast.AsyncFunctionDef)):
        if isinstance(p_, (ast.For, ast.AsyncFor)):
            unp = [t for t in ast.walk(p_.target) if isinstance(t, (ast.Tuple, ast.List)) and len(t.elts) == 4 and all(isinstance(e, ast.Name) for e in t.elts)] + unp
            unp += [n.targets[0] for n in p_.body if isinstance(n, ast.Assign) and isinstance(n.targets[0], ast.Tuple) and len(n.targets[0].elts) == 4
                    and all(isinstance(e, ast.Name) for e in n.targets[0].elts) and not any(n.targets[0] is u_ for u_ in unp)]
        p_ = getattr(p_, "_parent", None)
    if len(unp) != 2:
        return None
    pos = {}
    for k, u in enumerate(unp):
        for i, e in enumerate(u.elts):
            pos[e.id] = (k, i)
    good = set()
    for n in ast.walk(scope):
        if isinstance(n, ast.Compare) and len(n.ops) == 1 and isinstance(n.ops[0], ast.LtE) and isinstance(n.left, ast.Name) and isinstance(n.comparators[0], ast.Name):
            a_, b_ = pos.get(n.left.id), pos.get(n.comparators[0].id)
            if a_ and b_ and a_[0] != b_[0] and a_[1] in (2, 3) and b_[1] == a_[1] - 2:
                good.add((a_[0], a_[1]))
    return good


def bbox_rule(repo, rep):
    fi = repo.func(f"{PART}.bbox")
    cfg = CFG(fi.node)
    # (d) defaults
    want = {"fmin": ("freq", "min"), "fmax": ("freq", "max"), "dmin": ("dir", "min"), "dmax": ("dir", "max")}
    seen = set()
    role_of = {}
    for n in ast.walk(fi.node):
        if isinstance(n, ast.Assign) and isinstance(n.targets[0], ast.Name):
            keys = [repo.const(fi.module, c.args[0]) for c in ast.walk(n.value) if isinstance(c, ast.Call) and isinstance(c.func, ast.Attribute)
                    and c.func.attr == "get" and c.args]
            keys += [repo.const(fi.module, c.slice) for c in ast.walk(n.value) if isinstance(c, ast.Subscript) and isinstance(repo.const(fi.module, c.slice), str)]
            keys = [k for k in keys if k in want]
            if not keys:
                continue
            k = keys[0]
            role_of[n.targets[0].id] = k
            v = n.value
            exprs = []
            chain = v.values if isinstance(v, ast.BoolOp) and isinstance(v.op, ast.Or) else [v]
            getcall = None
            for c in chain:
                if isinstance(c, ast.Call) and isinstance(c.func, ast.Attribute) and c.func.attr == "get" and c.args:
                    getcall = c
                    if repo.const(fi.module, c.args[0]) != k:
                        rep.fail("R-C09-2", fi.file, n.lineno, fi.qualname, unparse(n), f"limit '{k}' is read from another key")
                    if len(c.args) == 2:
                        exprs.append(c.args[1])
                elif isinstance(c, ast.Subscript) and repo.const(fi.module, c.slice) == k:
                    getcall = c
                else:
                    exprs.append(c)
            if getcall is None:
                continue
            if not exprs:
                continue
            seen.add(k)
            coord, red = want[k]
            bad = False
            for e in exprs:
                e = _resolve(fi, e)
                inner = e
                while isinstance(inner, ast.Call) and call_name(inner) == "float" and inner.args:
                    inner = inner.args[0]
                ok = isinstance(inner, ast.Call) and isinstance(inner.func, ast.Attribute) and inner.func.attr == red and \
                    isinstance(inner.func.value, ast.Attribute) and inner.func.value.attr == coord
                if not ok:
                    bad = True
            if bad:
                rep.fail("R-C09-2", fi.file, n.lineno, fi.qualname, unparse(n)[:130],
                         f"an omitted '{k}' must default to {coord}.{red}() of the spectrum (an order-insensitive reduction); "
                         "another default keeps the wrong bins (e.g. a single direction, or an empty box for unsorted storage)")
            else:
                rep.ok("R-C09-2", f"{fi.file}:{n.lineno} bbox", unparse(n)[:100], f"default {coord}.{red}() on both fallbacks")
    if seen != set(want):
        raise AnalysisError(f"bbox: default handling of {sorted(set(want) - seen)} not found")
    # (a) overlap check over all pairs raises before any mask is built
    raise_node = mask_node = None
    for n in ast.walk(fi.node):
        if isinstance(n, ast.For) and isinstance(n.iter, ast.Call) and call_name(n.iter).split(".")[-1] == "combinations":
            a = n.iter.args
            if len(a) == 2 and repo.const(fi.module, a[1]) == 2:
                for r in ast.walk(n):
                    if isinstance(r, ast.Raise):
                        exc = r.exc
                        nm = unparse(exc.func) if isinstance(exc, ast.Call) else unparse(exc)
                        if nm == "ValueError" and (any(isinstance(c, ast.Call) and call_name(c) == "is_overlap" for c in ast.walk(n))
                                                   or _separating_tests(n) == {(0, 2), (1, 2), (0, 3), (1, 3)}):
                            raise_node = n
        if isinstance(n, ast.Call) and isinstance(n.func, ast.Attribute) and n.func.attr == "where" and mask_node is None:
            mask_node = n
    if raise_node is None:
        rep.fail("R-C09-2", fi.file, fi.node.lineno, fi.qualname, "overlap check", "overlapping boxes must be rejected with ValueError for EVERY pair of boxes")
    elif mask_node is not None and raise_node.lineno > mask_node.lineno:
        rep.fail("R-C09-2", fi.file, raise_node.lineno, fi.qualname, "overlap check after masking", "the overlap check must precede the construction of the partitions")
    else:
        rep.ok("R-C09-2", f"{fi.file}:{raise_node.lineno} bbox", "for r1, r2 in combinations(rectangles, 2): if is_overlap: raise ValueError", "all pairs, before masking")
    # (b) mask = four closed comparisons (names mapped to roles through rectangles.append([...]) and the unpacking)
    order = None
    for n in ast.walk(fi.node):
        if isinstance(n, ast.Call) and isinstance(n.func, ast.Attribute) and n.func.attr == "append" and n.args and isinstance(n.args[0], (ast.List, ast.Tuple)) \
                and len(n.args[0].elts) == 4 and all(isinstance(e, ast.Name) and e.id in role_of for e in n.args[0].elts):
            order = [role_of[e.id] for e in n.args[0].elts]
    if order is None:
        raise AnalysisError("bbox: rectangles.append([fmin, dmin, fmax, dmax]) not found")
    found_mask = False
    for n in ast.walk(fi.node):
        if isinstance(n, ast.For):
            # the box's four numbers, unpacked in the loop header (normal form: `for (fmin, dmin, fmax, dmax) in rectangles`)
            unp = [t_ for t_ in ast.walk(n.target) if isinstance(t_, (ast.Tuple, ast.List)) and len(t_.elts) == 4 and all(isinstance(e, ast.Name) for e in t_.elts)]
            if isinstance(n.target, ast.Name):
                unp = [s_.targets[0] for s_ in n.body if isinstance(s_, ast.Assign) and isinstance(s_.targets[0], ast.Tuple) and len(s_.targets[0].elts) == 4
                       and isinstance(s_.value, ast.Name) and s_.value.id == n.target.id]
            if not unp:
                continue
            role2 = {e.id: order[i] for i, e in enumerate(unp[0].elts) if isinstance(e, ast.Name)}
            for s_ in n.body:
                if isinstance(s_, ast.Assign) and len([c for c in ast.walk(s_.value) if isinstance(c, ast.Compare)]) == 4:
                    found_mask = True
                    cmps = [c for c in ast.walk(s_.value) if isinstance(c, ast.Compare)]
                    from ..astutil import rel as _rel2
                    opname = {">=": "GtE", "<=": "LtE", ">": "Gt", "<": "Lt", "==": "Eq", "!=": "NotEq"}
                    got = []
                    for c in cmps:
                        r_ = _rel2(c, lambda e: unparse(e).split(".")[-1] in ("freq", "dir") and "." in unparse(e))
                        if r_ is None:
                            got.append((unparse(c.left), type(c.ops[0]).__name__, unparse(c.comparators[0])))
                        else:
                            got.append((unparse(r_[0]).split(".")[-1], opname[r_[1]], role2.get(unparse(r_[2]), unparse(r_[2]))))
                    got = sorted(got)
                    need = sorted([("freq", "GtE", "fmin"), ("freq", "LtE", "fmax"), ("dir", "GtE", "dmin"), ("dir", "LtE", "dmax")])
                    ors = [b_ for b_ in ast.walk(s_.value) if isinstance(b_, ast.BinOp) and isinstance(b_.op, ast.BitOr)]
                    if got != need or ors:
                        rep.fail("R-C09-2", fi.file, s_.lineno, fi.qualname, unparse(s_)[:160],
                                 "a box holds exactly the bins with fmin <= freq <= fmax and dmin <= dir <= dmax (closed on all four sides)")
                    else:
                        rep.ok("R-C09-2", f"{fi.file}:{s_.lineno} bbox", unparse(s_.value)[:110], "four closed comparisons, conjoined")
    if not found_mask:
        raise AnalysisError("bbox: box mask not found")
    # (c) remainder: where(~union) with union accumulated by |=
    union = None
    for n in ast.walk(fi.node):
        if isinstance(n, ast.Assign) and isinstance(n.targets[0], ast.Name) and isinstance(n.value, ast.BinOp) and isinstance(n.value.op, ast.BitOr) \
                and unparse(n.value.left) == n.targets[0].id:
            union = n.targets[0].id
        if isinstance(n, ast.AugAssign) and isinstance(n.op, ast.BitOr) and isinstance(n.target, ast.Name):
            union = n.target.id
    rem = [n for n in ast.walk(fi.node) if isinstance(n, ast.Call) and isinstance(n.func, ast.Attribute) and n.func.attr == "where" and n.args and
           isinstance(n.args[0], ast.UnaryOp) and isinstance(n.args[0].op, ast.Invert) and unparse(n.args[0].operand) == union]
    if union and rem:
        rep.ok("R-C09-2", f"{fi.file}:{rem[0].lineno} bbox", "ds.where(~(m1 | ... | mn)) appended last", "remainder = complement of the union")
    else:
        rep.fail("R-C09-2", fi.file, fi.node.lineno, fi.qualname, "remainder partition", "the last partition must be the complement of the union of all boxes")
    _fillna(rep, fi, "R-C09-2")
    # is_overlap: rectangles sharing only an edge do not overlap
    io = repo.func("wavespectra.core.utils.is_overlap")
    unp = [n for n in ast.walk(io.node) if isinstance(n, ast.Assign) and isinstance(n.targets[0], ast.Tuple) and len(n.targets[0].elts) == 4
           and isinstance(n.value, ast.Name) and n.value.id in io.params]
    if len(unp) != 2:
        raise AnalysisError("is_overlap: rectangle unpacking not found")
    pos = {}
    for k, u in enumerate(unp):
        for i, e in enumerate(u.targets[0].elts):
            pos[e.id] = (k, i)          # (rectangle, slot) slot: 0 low-x, 1 low-y, 2 high-x, 3 high-y
    # the limits compared are the caller's: no redefinition between unpacking and the separating tests
    for n in ast.walk(io.node):
        if isinstance(n, (ast.Assign, ast.AugAssign)) and n not in unp:
            tg = n.targets if isinstance(n, ast.Assign) else [n.target]
            names_ = {x.id for t_ in tg for x in ast.walk(t_) if isinstance(x, ast.Name)}
            if names_ & set(pos):
                rep.fail("R-C09-2", io.file, n.lineno, io.qualname, unparse(n)[:110],
                         f"the rectangle limits {sorted(names_ & set(pos))} are recomputed before they are compared, while bbox() builds its masks from the "
                         "limits as given: boxes the masks treat as overlapping (e.g. an upper direction limit of 360 reduced to 0) pass the "
                         "test and their bins are counted twice")
    good = set()
    for n in ast.walk(io.node):
        if isinstance(n, ast.Compare) and len(n.ops) == 1 and isinstance(n.ops[0], ast.LtE) and isinstance(n.left, ast.Name) and isinstance(n.comparators[0], ast.Name):
            a_, b_ = pos.get(n.left.id), pos.get(n.comparators[0].id)
            if a_ and b_ and a_[0] != b_[0] and a_[1] in (2, 3) and b_[1] == a_[1] - 2:
                good.add((a_[0], a_[1]))
    # shape of the decision: every `return False` is guarded by an If whose test is a disjunction of separating tests only, and the
    # function otherwise returns True (one guard with four disjuncts, two guards with two each, four guards ... are the same decision)
    def _sep(c):
        if isinstance(c, ast.Compare) and len(c.ops) == 1 and isinstance(c.ops[0], ast.LtE) and isinstance(c.left, ast.Name) and isinstance(c.comparators[0], ast.Name):
            a_, b_ = pos.get(c.left.id), pos.get(c.comparators[0].id)
            return bool(a_ and b_ and a_[0] != b_[0] and a_[1] in (2, 3) and b_[1] == a_[1] - 2)
        return False
    def _atoms(t):
        return [x for v in t.values for x in _atoms(v)] if isinstance(t, ast.BoolOp) and isinstance(t.op, ast.Or) else [t]
    shape_ok = True
    guarded = set()
    for r_ in [n for n in ast.walk(io.node) if isinstance(n, ast.Return)]:
        v_ = repo.const(io.module, r_.value) if r_.value is not None else None
        par_ = getattr(r_, "_parent", None)
        if v_ is False and isinstance(par_, ast.If) and r_ in par_.body and all(_sep(a) for a in _atoms(par_.test)):
            for a in _atoms(par_.test):
                a_ = pos[a.left.id]
                guarded.add((a_[0], a_[1]))
        elif v_ is True and (par_ is io.node or (isinstance(par_, ast.If) and r_ in par_.orelse)):
            pass
        else:
            shape_ok = False
    if good == {(0, 2), (1, 2), (0, 3), (1, 3)} and guarded == good and shape_ok:
        rep.ok("R-C09-2", f"{io.file}:{io.node.lineno} is_overlap", "high edge of one <= low edge of the other, on either axis -> False", "separated (or only touching) rectangles do not overlap")
    else:
        rep.fail("R-C09-2", io.file, io.node.lineno, io.qualname, f"separating tests found: {sorted(good)}", "is_overlap must return False exactly when the rectangles are separated along freq or along dir")


def stats_dispatch(repo, rep, rule):
    """SpecArray.stats(limits): every statistic requested with band limits is a statistic of self.split(the same four limits) - one split
    with all four limits forwarded to their own parameters, and each statistic looked up on that split spectrum."""
    st = repo.func("wavespectra.specarray.SpecArray.stats")
    from ..astutil import bound_args
    names = ["dmax", "dmin", "fmax", "fmin"]
    calls = [c for c in ast.walk(st.node) if isinstance(c, ast.Call) and call_name(c) in ("self.split", "self._obj.spec.split")]
    ok = False
    holder = None
    if len(calls) == 1:
        kws = {k_: unparse(v_) for k_, v_ in (bound_args(repo, st, calls[0]) or {}).items()}
        ok = all(kws.get(x) == x for x in names)
        p = getattr(calls[0], "_parent", None)
        while p is not None and not isinstance(p, ast.stmt):
            p = getattr(p, "_parent", None)
        if isinstance(p, ast.Assign) and isinstance(p.targets[0], ast.Name):
            holder = p.targets[0].id
        # the guard that decides whether to split mentions all four limits (a limit left out of the test is ignored when given alone)
        g = getattr(p, "_parent", None) if p is not None else None
        while g is not None and not isinstance(g, ast.If):
            g = getattr(g, "_parent", None)
        if g is not None:
            tested = {x.id for x in ast.walk(g.test) if isinstance(x, ast.Name)}
            if not set(names) <= tested:
                ok = False
    if ok:
        rep.ok(rule, f"{st.file}:{calls[0].lineno} stats", "limits -> self.split(fmin, fmax, dmin, dmax)", "statistics with limits are statistics of the explicitly split spectrum")
    else:
        rep.fail(rule, st.file, calls[0].lineno if calls else st.node.lineno, st.qualname, "stats(fmin..dmax)",
                 "statistics called with limits must be computed on ONE self.split(...) that receives all four limits (a second split applied to the "
                 "unsplit spectrum drops the first band; a limit filtered out before the call is ignored)")
    # each statistic is looked up on the split spectrum
    look = [c for c in ast.walk(st.node) if isinstance(c, ast.Call) and call_name(c) == "getattr" and len(c.args) >= 2]
    if not look:
        raise AnalysisError("stats: getattr(<spectrum>.spec, name) lookup not found")
    for c in look:
        root = c.args[0]
        while isinstance(root, (ast.Attribute, ast.Subscript, ast.Call)):
            root = root.func if isinstance(root, ast.Call) else root.value
        rn = root.id if isinstance(root, ast.Name) else None
        if holder is not None and rn == holder:
            rep.ok(rule, f"{st.file}:{c.lineno} stats", unparse(c)[:70], f"statistic taken from '{holder}', the split spectrum")
        else:
            rep.fail(rule, st.file, c.lineno, st.qualname, unparse(c)[:90],
                     f"the statistic is looked up on '{rn}', not on the spectrum returned by split(): with band limits given, peak period / direction "
                     "and every integrated parameter are those of the FULL spectrum")


def split_rule(repo, rep):
    from ..astutil import returns, resolve, terms, factors
    fi = repo.func("wavespectra.specarray.SpecArray._interp_freq")
    fint = fi.params[1]
    rr = returns(fi.node)
    if len(rr) != 1:
        raise AnalysisError("_interp_freq: single return expected")
    r0, r = rr[0]
    if not (isinstance(r, ast.BinOp) and isinstance(r.op, ast.Div)):
        raise AnalysisError("_interp_freq: return is not (left + right) / spacing")
    div = resolve(fi.node, r.right, before=r0.lineno + 1)
    idx = [t.id for n in ast.walk(fi.node) if isinstance(n, ast.Assign) and isinstance(n.value, ast.Call) and
           isinstance(n.value.func, ast.Attribute) and n.value.func.attr == "searchsorted" for t in n.targets if isinstance(t, ast.Name)]
    if not idx:
        raise AnalysisError("_interp_freq: searchsorted index not found")
    i = idx[0]
    txt = unparse(div).replace(" ", "")
    uses_both = (f"{i}-1" in txt and (f",{i}]" in txt or f"[{i}]" in txt)) and ("diff" in txt or "-" in txt) and "freq" in txt
    if not uses_both or ".df" in txt or "gradient" in txt:
        rep.fail("R-C09-4", fi.file, r0.lineno, fi.qualname, f"(...) / {unparse(div)[:80]}",
                 "linear interpolation between the two bracketing grid frequencies divides by THEIR spacing f[i] - f[i-1]; another "
                 "width (e.g. the centred df of the grid) makes the weights not sum to one on non-uniform grids")
    else:
        rep.ok("R-C09-4", f"{fi.file}:{r0.lineno} _interp_freq", f"/ {unparse(div)[:70]}", "spacing of the bracketing nodes")
    # numerator: two terms, each = sample at one bracketing node x distance of the cutoff to the OPPOSITE node
    parts = [resolve(fi.node, t, before=r0.lineno + 1) for t in terms(r.left)]
    # follow assign_coords relabelling:  x = x.assign_coords(...) keeps the value
    def strip_relabel(e, depth=0):
        while depth < 4 and isinstance(e, ast.Call) and isinstance(e.func, ast.Attribute) and e.func.attr == "assign_coords":
            inner = e.func.value
            if isinstance(inner, ast.Name):
                cands = [a_ for a_ in ast.walk(fi.node) if isinstance(a_, ast.Assign) and isinstance(a_.targets[0], ast.Name) and a_.targets[0].id == inner.id
                         and not (isinstance(a_.value, ast.Call) and isinstance(a_.value.func, ast.Attribute) and a_.value.func.attr == "assign_coords")]
                if not cands:
                    break
                e = cands[0].value
            else:
                e = inner
            depth += 1
        return e
    parts = [strip_relabel(p_) for p_ in parts]
    seen = set()
    okw = len(parts) == 2
    for p_ in parts:
        t = unparse(p_).replace(" ", "").replace("self._obj.freq", "self.freq")       # SpecArray.freq IS self._obj.freq
        if f"isel(freq=[{i}])" in t and (f"({fint}-self.freq[{i}-1])" in t):
            seen.add("upper")
        elif f"isel(freq=[{i}-1])" in t and (f"(self.freq[{i}]-{fint})" in t):
            seen.add("lower")
        else:
            okw = False
    if okw and seen == {"upper", "lower"}:
        rep.ok("R-C09-4", f"{fi.file} _interp_freq", "E[i]*(f - f[i-1]) + E[i-1]*(f[i] - f)", "each node weighted by the distance to the opposite node")
    else:
        rep.fail("R-C09-4", fi.file, fi.node.lineno, fi.qualname, " + ".join(unparse(p_)[:60] for p_ in parts),
                 "each bracketing sample must be weighted by the distance from the cutoff to the OPPOSITE node")
    # split: label slicing + guarded insertions on the correct side; invalid limits raise ValueError first
    sp = repo.func("wavespectra.specarray.SpecArray.split")
    body = sp.node.body
    first_data = next((s_ for s_ in body if isinstance(s_, ast.Assign)), None)
    raises = [s_ for s_ in body if isinstance(s_, ast.If) and any(isinstance(x, ast.Raise) for x in s_.body)]
    if len(raises) < 2 or any(r_.lineno > first_data.lineno for r_ in raises):
        rep.fail("R-C09-4", sp.file, sp.node.lineno, sp.qualname, "limit validation", "fmax <= fmin and dmax <= dmin must be rejected before any slicing")
    else:
        rep.ok("R-C09-4", f"{sp.file}:{raises[0].lineno} split", "; ".join(unparse(r_.test) for r_ in raises), "validated before slicing")
    sides = {}
    for c in ast.walk(sp.node):
        if isinstance(c, ast.Call) and call_name(c) in ("xr.concat", "xarray.concat") and c.args and isinstance(c.args[0], (ast.List, ast.Tuple)) and len(c.args[0].elts) == 2:
            for k, e in enumerate(c.args[0].elts):
                if isinstance(e, ast.Call) and call_name(e) == "self._interp_freq" and e.args:
                    sides[unparse(e.args[0])] = k
    # each cutoff is inserted whenever IT is given and off-grid: its insertion may not depend on the other limit (an `elif` makes the upper
    # cutoff wait for the lower one not to have been inserted)
    from ..astutil import path_conditions
    for c in ast.walk(sp.node):
        if isinstance(c, ast.Call) and call_name(c) == "self._interp_freq" and c.args and unparse(c.args[0]) in ("fmin", "fmax"):
            lim = unparse(c.args[0])
            other_lim = "fmax" if lim == "fmin" else "fmin"
            pcs = path_conditions(sp.node, c)
            dep = [t for t, truth in pcs if any(isinstance(x, ast.Name) and x.id == other_lim for x in ast.walk(t))]
            if dep:
                rep.fail("R-C09-4", sp.file, c.lineno, sp.qualname, f"self._interp_freq({lim}) under `{unparse(dep[0])[:70]}`",
                         f"the interpolated bin at {lim} is only inserted depending on a test of {other_lim}: with both cutoffs given and off-grid one of "
                         "them is never inserted and the band loses the energy between the last grid frequency and that cutoff")
            else:
                rep.ok("R-C09-4", f"{sp.file}:{c.lineno} split", f"self._interp_freq({lim})", f"guarded by {lim} (and interpolate) only")
    label_slice = any(isinstance(c, ast.Call) and isinstance(c.func, ast.Attribute) and c.func.attr == "sel" and
                      any(k.arg == "freq" and isinstance(k.value, ast.Call) and call_name(k.value) == "slice" and
                          [unparse(a_) for a_ in k.value.args] == ["fmin", "fmax"] for k in c.keywords) for c in ast.walk(sp.node))
    # direction limits: applied when EITHER limit is given
    D_ = repo.attrs.DIRNAME
    dsel = None
    for n_ in ast.walk(sp.node):
        if isinstance(n_, ast.If) and any(isinstance(c_, ast.Call) and isinstance(c_.func, ast.Attribute) and c_.func.attr == "sel" and
                                          any(isinstance(x, ast.Call) and call_name(x) == "slice" and [unparse(a_) for a_ in x.args] == ["dmin", "dmax"]
                                              for x in ast.walk(c_)) for b_ in n_.body for c_ in ast.walk(b_)):
            dsel = n_
    if dsel is None:
        rep.fail("R-C09-4", sp.file, sp.node.lineno, sp.qualname, "direction slicing", "sel(dir=slice(dmin, dmax)) under a guard on the limits not found")
    else:
        def lim_part(t):
            names = {x.id for x in ast.walk(t) if isinstance(x, ast.Name)}
            if not ({"dmin", "dmax"} & names):
                return "none"
            if isinstance(t, ast.BoolOp):
                kinds = [lim_part(v) for v in t.values]
                lims = [k for k in kinds if k != "none"]
                if isinstance(t.op, ast.Or):
                    return "either" if all(k in ("one", "either") for k in lims) and len(lims) >= 2 else (lims[0] if len(lims) == 1 else "mixed")
                # And
                if len(lims) == 1:
                    return lims[0]
                return "both"
            if isinstance(t, ast.Call) and call_name(t) == "any":
                return "either" if {"dmin", "dmax"} <= names else "one"
            if isinstance(t, ast.Call) and call_name(t) == "all":
                return "both"
            return "one" if len({"dmin", "dmax"} & names) == 1 else "mixed"
        kind = lim_part(dsel.test)
        if kind == "either":
            rep.ok("R-C09-4", f"{sp.file}:{dsel.lineno} split", "if " + unparse(dsel.test), "direction band applied when either limit is given")
        else:
            rep.fail("R-C09-4", sp.file, dsel.lineno, sp.qualname, "if " + unparse(dsel.test),
                     "the direction band must be applied when EITHER dmin or dmax is given (the other defaulting to the end of the grid): "
                     "requiring both silently ignores a one-sided limit and returns all directions", anchor="split:direction-limit-guard")
    if sides == {"fmin": 0, "fmax": 1} and label_slice:
        rep.ok("R-C09-4", f"{sp.file} split", "sel(freq=slice(fmin, fmax)); interpolated bins prepended at fmin / appended at fmax", "band kept unchanged, cutoffs inserted on the right side")
    else:
        rep.fail("R-C09-4", sp.file, sp.node.lineno, sp.qualname, f"band slicing (insert positions {sides})", "the band must be a label slice with the interpolated fmin bin in front and the fmax bin behind")
    stats_dispatch(repo, rep, "R-C09-4")


def run(repo, rep, tier):
    from .round7b import hygiene
    hygiene(repo, rep, "C09", ('wavespectra.partition.', 'wavespectra.specarray'), falsy=False)
    rep.rule("R-C09-9", "no numeric control parameter of the rule-based splits is defaulted with `p or <non-zero constant>` (a caller's 0 - no bin is wind sea, no "
                        "tolerance - would be replaced)")
    from .round7 import falsy_zero_defaulting, result_depends_on
    falsy_zero_defaulting(repo, rep, "R-C09-9", ("wavespectra.partition.", "wavespectra.specarray", "wavespectra.core.utils"), floor=40)
    rep.rule("R-C09-10", "split(): with frequency AND direction limits given the result is computed from all four limits (each step continues from the result "
                         "of the previous one)")
    result_depends_on(repo, rep, "R-C09-10", "wavespectra.specarray.SpecArray.split", ("fmin", "fmax", "dmin", "dmax"), "band split")
    rep.rule("R-C09-11", "the band-limit validation tests limits with `is not None`, never by truthiness (dmin = 0 must not switch the check off)")
    from .round7b import truthiness_guards
    truthiness_guards(repo, rep, "R-C09-11", ("wavespectra.specarray", "wavespectra.partition."))
    rep.rule("R-C09-8", "(shared with C01) the celerity the wave-age rule compares with the wind is the linear-dispersion celerity at the given depth for EVERY depth "
                        "(deep-water closed form only without a depth): a shortcut inside the finite-depth branch moves bins across the wind-sea / swell boundary")
    from .c01 import closed_forms as _cf
    from .c07 import _Relabel
    _cf(repo, _Relabel(rep, "R-C09-8"))
    rep.rule("R-C09-7", "(shared with C01) the wave-age split compares the wind with the celerity AT THE GIVEN DEPTH: the wavenumber polynomial behind it sums every coefficient with its own power")
    from .shared import wavenumber_polynomial
    wavenumber_polynomial(repo, rep, "R-C09-7")
    rep.rule("R-C09-6", "every parameter of the functions behind this property is read (rule-based splits): none is accepted and then ignored, and no control parameter (cutoff, limit, tolerance, window, count, switch) is replaced by another value before use (coercion and default filling aside)")
    from .shared import unused_parameters
    unused_parameters(repo, rep, "R-C09-6", ("wavespectra.partition.partition.Partition", "wavespectra.specarray.SpecArray.split", "wavespectra.specarray.SpecArray.stats", "wavespectra.core.utils.waveage", "wavespectra.core.utils.is_overlap"), "rule-based splits")
    rep.rule("R-C09-1", "wave-age mask is exactly celerity(freq, dpt) <= agefac*wspd*cos(D2R*(dir - wdir)); ptm4 = mask / ~mask of one object")
    rep.rule("R-C09-2", "bbox: all-pairs overlap check raising ValueError before masking; closed 4-sided masks; complement remainder; "
                        "omitted limits default to min()/max() of the matching coordinate")
    rep.rule("R-C09-3", "ptm5: freq >= fcut / freq <= fcut on one object, regrid only for off-grid cutoffs")
    rep.rule("R-C09-4", "band split: bracketing-node interpolation weights and spacing; label slicing; stats(limits) = stats(split)")
    rep.rule("R-C09-5", "(shared with C05) no positional use of caller-ordered directions in the rule-based splits")
    waveage_rule(repo, rep)
    ptm4_rule(repo, rep)
    ptm5_rule(repo, rep)
    bbox_rule(repo, rep)
    split_rule(repo, rep)
    n = 0
    for q in (f"{PART}.bbox", f"{PART}.ptm4", f"{PART}.ptm5", "wavespectra.specarray.SpecArray.split", "wavespectra.core.utils.waveage"):
        fi = repo.func(q)
        oa = OrderAnalysis(repo, fi, repo.attrs.DIRNAME)
        for kind, node, msg in oa.run():
            rep.fail("R-C09-5", fi.file, node.lineno, fi.qualname, unparse(node)[:120], msg)
        n += oa.checked
    rep.ok("R-C09-5", "bbox / ptm4 / ptm5 / split / waveage", f"{n} order-sensitive operations", "only on data sorted in the same function")
    rep.trust("Python ast")
    rep.note("not decided: exact conservation in floating point; boundary bins with celerity == wind component up to rounding")
    return ("Static structural rules: the wave-age mask's comparator and operands, complementary masks over one object, the "
            "bounding-box case analysis (defaults, overlap-first, closed masks, complement), the cutoff comparators, the "
            "interpolation weights and spacing of the band split, delegation of stats-with-limits to split, and order "
            "provenance of the directions used.")
