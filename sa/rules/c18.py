"""C18 - results reflect current contents, not history.
R-C18-1 accessors hold no derived state; R-C18-2 no persistent Python state written at call time;
R-C18-4 the native work buffers carry nothing between calls."""
import ast

from ..model import call_name
import os

from ..cast import CFile, ex, show, strip, poly_of, Poly
from ..effects import Engine, ACCESSOR_CLASSES, ACCESSOR_FIELDS
from ..report import AnalysisError
from . import cnative

CACHING_DECORATORS = ("cached_property", "functools.cached_property", "lru_cache", "functools.lru_cache", "cache",
                      "functools.cache")
REGISTERED = ("register_dataarray_accessor", "register_dataset_accessor")


from ..astutil import ends_with_exit


def vivifying_lookups(repo, rep):
    """R-C18-6: the attribute table is an auto-vivifying dict (F-C18-c): `attrs.ATTRS[k]` on a key that is absent INSERTS an empty entry
    into the module-level table.  Every read with a key that is not a constant of the table is therefore a call-time write of process
    state unless a membership test of the same key dominates it.  One obligation (and, if unguarded, one finding instance) per site."""
    rep.rule("R-C18-6", "every subscript read of the auto-vivifying attribute table with a non-constant key is dominated by a membership test of "
                        "that key (each unguarded site is its own trigger of the module-level insertion, F-C18-c)")
    try:
        ad = repo.cls("wavespectra.core.attributes.AttrDict")
        vivifies = "__getitem__" in ad.methods and any(
            isinstance(c, ast.Call) and isinstance(c.func, ast.Attribute) and c.func.attr == "__setitem__" for c in ast.walk(ad.methods["__getitem__"].node))
    except AnalysisError:
        vivifies = False
    if not vivifies:
        rep.ok("R-C18-6", "wavespectra/core/attributes.py AttrDict", "__getitem__ does not insert on a miss", "lookups are pure")
        return
    nsite = 0
    for fi in repo.all_funcs():
        if fi.qualname.startswith("wavespectra.core.attributes.AttrDict"):
            continue
        for n in ast.walk(fi.node):
            if not (isinstance(n, ast.Subscript) and isinstance(n.ctx, ast.Load)):
                continue
            base = n.value
            root = base
            while isinstance(root, (ast.Attribute, ast.Subscript)):
                root = root.value
            if not (isinstance(root, ast.Name) and root.id == "attrs" and isinstance(base, ast.Attribute) and base.attr == "ATTRS"):
                continue
            nsite += 1
            key = n.slice
            kc = repo.const(fi.module, key)
            where = f"{fi.file}:{n.lineno} {fi.short}"
            if isinstance(kc, str):
                rep.ok("R-C18-6", where, ast.unparse(n), f"constant key {kc!r} of the table")
                continue
            ktxt = ast.unparse(key)
            guarded = False
            p = getattr(n, "_parent", None)
            child = n
            while p is not None and p is not fi.node:
                if isinstance(p, ast.If) and any(child is s_ or any(child is x for x in ast.walk(s_)) for s_ in p.body):
                    for c in ast.walk(p.test):
                        if isinstance(c, ast.Compare) and len(c.ops) == 1 and isinstance(c.ops[0], ast.In) and ast.unparse(c.left) == ktxt \
                                and ast.unparse(c.comparators[0]) == ast.unparse(base):
                            guarded = True
                # guard clause earlier in an enclosing block:  if k not in table: raise / return
                for fld in ("body", "orelse", "finalbody"):
                    blk = getattr(p, fld, None)
                    if isinstance(blk, list) and any(child is s_ for s_ in blk):
                        for s_ in blk:
                            if s_ is child:
                                break
                            if isinstance(s_, ast.If) and ends_with_exit(s_.body) and isinstance(s_.test, ast.Compare) and len(s_.test.ops) == 1 \
                                    and isinstance(s_.test.ops[0], ast.NotIn) and ast.unparse(s_.test.left) == ktxt \
                                    and ast.unparse(s_.test.comparators[0]) == ast.unparse(base):
                                guarded = True
                child, p = p, getattr(p, "_parent", None)
            if guarded:
                rep.ok("R-C18-6", where, ast.unparse(n), f"dominated by `{ktxt} in {ast.unparse(base)}`")
            else:
                rep.fail("R-C18-6", fi.file, n.lineno, fi.qualname, ast.unparse(n),
                         f"lookup with the non-constant key '{ktxt}' and no dominating membership test: for a name that is not in attributes.yml the "
                         "auto-vivifying table inserts an empty entry, and from then on every `name in attrs.ATTRS` test in the process answers "
                         "differently (set_spec_attributes then wipes that variable's attributes)", anchor=f"vivify-site:{fi.short}:{ktxt}")
    rep.floor("R-C18-6", "lookup sites of the attribute table", nsite, 5)


def run(repo, rep, tier):
    rep.rule("R-C18-9", "no `to_*` writer and no SpecDataset method consumes the construction-time copies of the efth accessor's attributes (each consumer of the "
                        "snapshot of known finding F-C18-b is its own finding)")
    from .round7 import writer_snapshot_reads
    writer_snapshot_reads(repo, rep, "R-C18-9")
    rep.rule("R-C18-7", "(shared with C07) nothing in the Python wrapper of the native routine outlives a call: no function-static or file-scope object in specpart_wrap.c other than the method / module tables")
    from . import cnative as _cn
    _cn.wrapper_state(_cn.wrap(repo), rep, "R-C18-7")
    rep.rule("R-C18-1", "classes registered as xarray accessors (one cached instance per object) and Partition keep no "
                        "state derived from the wrapped object: the only instance attributes are the wrapped reference "
                        "and constants set in __init__; no memoising decorator")
    rep.rule("R-C18-2", "no function reachable from a public entry point writes a module-level object or a mutable "
                        "default argument")
    rep.rule("R-C18-4", "every file-scope object of specpart.c is either a pure function of the current grid shape "
                        "(re-initialised whenever either extent changes) or fully overwritten before it is read in each call")
    eng = Engine(repo)
    iters = eng.solve()

    # ---- R-C18-1 ------------------------------------------------------------------------------
    acc_classes = []
    for m in repo.modules.values():
        for c in m.classes.values():
            if any(any(r in d for r in REGISTERED) for d in c.decorators):
                acc_classes.append(c)
    rep.floor("R-C18-1", "registered accessor classes", len(acc_classes), 2)
    for c in acc_classes:
        nwrites = 0
        for mname, fi in c.methods.items():
            for d in fi.decorators:
                if any(d == x or d.startswith(x + "(") for x in CACHING_DECORATORS):
                    rep.fail("R-C18-1", fi.file, fi.node.lineno, fi.qualname, f"@{d} def {mname}",
                             "memoised on the accessor instance, which xarray caches per object: the value goes stale "
                             "when the object is edited in place")
            s = eng.summ[fi.qualname]
            seen = set()
            for fw in s.field_writes:
                tag, f, ln, cons, dep, isparam = (tuple(fw) + (True, False))[:6]
                if (f, ln) in seen:
                    continue
                seen.add((f, ln))
                nwrites += 1
                init = tag.startswith("__init__:")
                attr = tag.split(":", 1)[1] if init else tag
                if init and (isparam or not dep):
                    rep.ok("R-C18-1", f"{f}:{ln} {c.name}.{mname}", cons,
                           "wrapped-object reference" if isparam else "constant, independent of the wrapped object")
                    continue
                if mname != "__init__" and init:
                    continue      # reported at __init__ through the call chain
                rep.fail("R-C18-1", f, ln, c.qualname, cons,
                         f"instance attribute '{attr}' of the cached accessor holds state derived from the wrapped "
                         f"object{'' if init else ' and is written at call time'}: later calls see the old value after "
                         "the object is edited in place", anchor=f"{c.name}:instance-store:{attr}")
            for (r, rp), eff in s.effects.items():
                if r.startswith("selfstate:") and mname != "__init__":
                    rep.fail("R-C18-1", eff.file, eff.line, fi.qualname, eff.construct,
                             f"mutates accessor instance state {r[10:]} at call time ({eff.what})", list(eff.via))
        rep.ok("R-C18-1", f"{c.module.relpath} {c.name}", f"{len(c.methods)} methods, {nwrites} attribute stores examined",
               "no caching decorator; stores classified above")

    # Partition is not registered with xarray, but SpecDataset._wrapper evaluates the `partition` property ONCE and binds the object on the
    # cached Dataset accessor (finding F-C18-b), so a Partition lives as long as the accessor: anything one of its methods stores on
    # `self` at call time is seen by every later call made through ds.spec.partition.
    part = repo.cls("wavespectra.partition.partition.Partition")
    for f_, ln_, fn_, cons_, why_, anch_ in partition_state(repo):
        rep.fail("R-C18-1", f_, ln_, fn_, cons_, why_, anchor=anch_)
    rep.ok("R-C18-1", f"{part.module.relpath} Partition", f"{len(part.methods)} methods", "no method other than __init__ stores on self")

    # ---- R-C18-2 ------------------------------------------------------------------------------
    from .c17 import is_entry
    entries = [fi for fi in repo.all_funcs() if is_entry(fi)]
    by_sink = {}
    for fi in entries:
        for gk, eff in eng.summ[fi.qualname].gsites.items():
            by_sink.setdefault(gk, []).append((fi, eff))
    for (f, fn, cons, root), lst in sorted(by_sink.items()):
        fi, eff = lst[0]
        reach = sorted({x[0].short for x in lst})
        rep.fail("R-C18-2", f, eff.line, fn, f"{cons}  [module-level {root[2:]}]",
                 f"{eff.what}: persistent module-level object written at call time; reachable from {len(reach)} public "
                 f"entry points (e.g. {', '.join(reach[:4])})", list(eff.via), anchor=f"module-write:{root[2:]}")
    # mutable default arguments that are written: effect on own parameter whose default is a mutable literal
    ndef = 0
    for fi in repo.all_funcs():
        a = fi.node.args
        pos = a.posonlyargs + a.args
        defaults = dict(zip([p.arg for p in pos[len(pos) - len(a.defaults):]], a.defaults))
        defaults.update({p.arg: d for p, d in zip(a.kwonlyargs, a.kw_defaults) if d is not None})
        for pname, d in defaults.items():
            if isinstance(d, (ast.Dict, ast.List, ast.Set, ast.Call)) and not (isinstance(d, ast.Call) and ast.unparse(d.func) in ("float", "int", "str", "tuple", "frozenset")):
                ndef += 1
                effs = [e for (r, rp), e in eng.summ[fi.qualname].effects.items() if r == f"p:{pname}"]
                if effs:
                    e0 = effs[0]
                    rep.fail("R-C18-2", e0.file, e0.line, fi.qualname, f"{e0.construct}  [default of '{pname}' = {ast.unparse(d)}]",
                             "the default object is created once at import and shared by every call that omits the "
                             "argument; writing it makes later calls depend on earlier ones", list(e0.via))
                else:
                    rep.ok("R-C18-2", f"{fi.file}:{fi.node.lineno} {fi.short}", f"mutable default {pname}={ast.unparse(d)[:40]}",
                           "never written (no effect on the parameter in the function's summary)")
    # module-level statements executed at import are exempt by rule; call-time `global` rebinding is not
    for fi in repo.all_funcs():
        for n in ast.walk(fi.node):
            if isinstance(n, ast.Global):
                rep.fail("R-C18-2", fi.file, n.lineno, fi.qualname, ast.unparse(n),
                         "rebinding a module-level name at call time is persistent state")
    rep.ok("R-C18-2", "package", f"{len(entries)} entry points, {ndef} mutable defaults",
           "effects on module-level roots enumerated from interprocedural summaries")
    rep.analysed.update({"functions": len(eng.funcs), "entry_points": len(entries), "fixpoint_iterations": iters,
                         "sinks_examined": eng.sinks, "accessor_classes": [c.name for c in acc_classes]})

    vivifying_lookups(repo, rep)
    from .c07 import kernel_reach, process_wide_settings_in_kernels
    process_wide_settings_in_kernels(repo, rep, eng, kernel_reach(repo, eng), "R-C18-8")
    # ---- R-C18-5: interpreter-wide settings ------------------------------------------------------------
    rep.rule("R-C18-5", "call-time changes of interpreter-wide settings (warning filters, numpy error state, xarray options, "
                        "environment, locale, RNG seed) happen only inside the context manager that restores them")
    RESTORERS = {   # mutator (resolved dotted name suffix) -> context managers that undo it on exit
        "warnings.filterwarnings": ("catch_warnings",), "warnings.simplefilter": ("catch_warnings",), "warnings.resetwarnings": ("catch_warnings",),
        "seterr": ("errstate",), "seterrcall": ("errstate",), "set_printoptions": ("printoptions",),
        "set_options": (), "setlocale": (), "chdir": (), "random.seed": (), "basicConfig": (), "matplotlib.use": (), "setrecursionlimit": (),
    }
    n_glob = 0
    for fi in repo.all_funcs():
        for n in ast.walk(fi.node):
            hit = None
            if isinstance(n, ast.Expr) and isinstance(n.value, ast.Call):
                cn = call_name(n.value)
                for k_ in RESTORERS:
                    if cn == k_ or cn.endswith("." + k_) or (("." not in k_) and cn.split(".")[-1] == k_):
                        hit = (k_, n.value)
            elif isinstance(n, (ast.Assign, ast.AugAssign, ast.Delete)):
                tg = n.targets if isinstance(n, (ast.Assign, ast.Delete)) else [n.target]
                for t in tg:
                    tt = ast.unparse(t)
                    if tt.startswith("os.environ[") or ".rcParams[" in tt or tt.startswith("sys.path") or tt.startswith("sys.modules["):
                        hit = ("environment / rcParams / sys state", n)
            if hit is None:
                continue
            n_glob += 1
            name, node = hit
            ctxs = RESTORERS.get(name, ())
            p_ = getattr(n, "_parent", None)
            inside = False
            while p_ is not None and p_ is not fi.node:
                if isinstance(p_, ast.With) and any(isinstance(it.context_expr, ast.Call) and call_name(it.context_expr).split(".")[-1] in ctxs
                                                     for it in p_.items):
                    inside = True
                p_ = getattr(p_, "_parent", None)
            if inside:
                rep.ok("R-C18-5", f"{fi.file}:{n.lineno} {fi.short}", ast.unparse(n)[:80], f"inside `with {ctxs[0]}()`: restored on exit")
            else:
                rep.fail("R-C18-5", fi.file, n.lineno, fi.qualname, ast.unparse(n)[:100],
                         f"{name} changes an interpreter-wide setting at call time outside a restoring context manager: every later "
                         "operation in the process behaves differently once this has run", anchor=f"global-setting:{name}")
    rep.floor("R-C18-5", "call-time global-setting sites examined", n_glob, 2)

    # ---- R-C18-3 (shared with R-C17-1): an operation that edits its inputs makes later results depend on it ----
    rep.rule("R-C18-3", "no public operation modifies the object it was called on or its arguments (same obligations as "
                        "R-C17-1): otherwise a later call sees contents changed by an earlier one")
    from .c17 import python_part
    python_part(repo, rep, eng, iters, "R-C18-3")

    # ---- R-C18-4 ------------------------------------------------------------------------------
    cnative.statics(repo, rep, "R-C18-4")
    rep.trust("xarray caches one accessor instance per object (register_*_accessor)")
    rep.trust("alias/effect model of sa/effects.py + sa/xrmodel.py; clang 14 JSON AST")
    rep.assume("counting sort in ptsort writes every slot of ind (iorder is a permutation of 0..nspec-1)")
    rep.note("import-time writes (TIME_UNITS = VAR_ATTRIBUTES['time'].pop(...), logging.basicConfig) precede every call "
             "and are exempt by rule")
    rep.note("not decided: equality of results across arbitrary histories as such")
    return ("Static enumeration of all state that can survive a call: instance attributes of the cached accessor classes "
            "(stores classified by the effect engine as wrapped reference / constant / derived), memoising decorators, "
            "module-level objects and mutable defaults written by any function reachable from a public entry point "
            "(interprocedural effect summaries), and file-scope objects of the C extension (shape-guard dominance and "
            "overwrite-before-read over counted loops, from the clang AST).")


def written_mutable_defaults(repo, eng):
    """(function, parameter, effect) for every mutable default argument that the function's own summary writes."""
    out = []
    for fi in repo.all_funcs():
        a = fi.node.args
        pos = a.posonlyargs + a.args
        defaults = dict(zip([p.arg for p in pos[len(pos) - len(a.defaults):]], a.defaults))
        defaults.update({p.arg: d for p, d in zip(a.kwonlyargs, a.kw_defaults) if d is not None})
        for pname, d in defaults.items():
            if isinstance(d, (ast.Dict, ast.List, ast.Set, ast.Call)) and not (isinstance(d, ast.Call) and ast.unparse(d.func) in ("float", "int", "str", "tuple", "frozenset")):
                effs = [e for (r, rp), e in eng.summ[fi.qualname].effects.items() if r == f"p:{pname}"]
                if effs:
                    out.append((fi, pname, effs[0]))
    return out


def partition_state(repo):
    """Call-time stores on the Partition object -> [(file, line, function, construct, why, anchor)]."""
    part = repo.cls("wavespectra.partition.partition.Partition")
    out = []
    for mname, fi in part.methods.items():
        if mname == "__init__":
            continue
        for n in ast.walk(fi.node):
            tg = n.targets if isinstance(n, ast.Assign) else [n.target] if isinstance(n, (ast.AugAssign, ast.AnnAssign)) else []
            for t in tg:
                for x in ast.walk(t):
                    if isinstance(x, ast.Attribute) and isinstance(x.value, ast.Name) and x.value.id == "self" and isinstance(x.ctx, ast.Store):
                        out.append((fi.file, n.lineno, fi.qualname, ast.unparse(n)[:100],
                                    f"Partition.{mname} stores state on the partition object at call time (self.{x.attr}): the object is bound once on the "
                                    "cached Dataset accessor, so later calls through ds.spec.partition start from what this call left behind",
                                    f"Partition:instance-store:{x.attr}"))
                    elif isinstance(x, ast.Subscript) and isinstance(x.value, ast.Attribute) and isinstance(x.value.value, ast.Name) and x.value.value.id == "self" \
                            and isinstance(x.ctx, ast.Store) and x.value.attr.startswith("_"):
                        out.append((fi.file, n.lineno, fi.qualname, ast.unparse(n)[:100],
                                    f"Partition.{mname} fills a private container on the partition object at call time (self.{x.value.attr}[..]): a memo that "
                                    "outlives in-place edits of the spectra", f"Partition:instance-store:{x.value.attr}"))
    return out


def accessor_state(repo, eng, cls):
    """Shared: derived state kept on a cached accessor class -> list of (file, line, func, construct, why)."""
    out, seen = [], set()
    for mname, fi in cls.methods.items():
        for d in fi.decorators:
            if any(d == x or d.startswith(x + "(") for x in CACHING_DECORATORS):
                out.append((fi.file, fi.node.lineno, fi.qualname, f"@{d} def {mname}", "memoised on the cached accessor instance"))
        s = eng.summ[fi.qualname]
        for fw in s.field_writes:
            tag, f, ln, cons, dep, isparam = (tuple(fw) + (True, False))[:6]
            init = tag.startswith("__init__:")
            if (f, ln) in seen or "_wrapper" in cons or "setattr(self, method_name" in cons:
                continue
            if init and (isparam or not dep or mname != "__init__"):
                continue
            seen.add((f, ln))
            out.append((f, ln, fi.qualname, cons, "instance attribute holding state derived from the wrapped object"))
        for (r, rp), eff in s.effects.items():
            if r.startswith("selfstate:") and mname != "__init__" and (eff.file, eff.line) not in seen:
                seen.add((eff.file, eff.line))
                out.append((eff.file, eff.line, fi.qualname, eff.construct, f"mutates accessor instance state {r[10:]} at call time"))
    return out


def _origin(cons, fi):
    return fi.name
