"""C10 - statistics obey energy scaling, rotation symmetry and physical bounds (structural clauses)."""
import ast
from fractions import Fraction as Fr

from ..model import UNKNOWN, call_name, kwarg, unparse
from ..report import AnalysisError
from ..spectyping import Typing
from ..units import Q

HALF, ONE, ZERO = Fr(1, 2), Fr(1), Fr(0)
DEGREE = {
    "hs": HALF, "hrms": HALF, "hmax": HALF,
    "uss_x": ONE, "uss_y": ONE, "uss": ONE, "mss": ONE, "to_energy": ONE, "oned": ONE, "alpha": ONE,
    "tp": ZERO, "fp": ZERO, "tm01": ZERO, "tm02": ZERO, "dm": ZERO, "dp": ZERO, "dpm": ZERO, "dspr": ZERO, "dpspr": ZERO,
    "fdspr": ZERO, "swe": ZERO, "sw": ZERO, "goda": ZERO, "gamma": ZERO,
}


def homogeneity(repo, rep, T):
    n = 0
    for name, want in DEGREE.items():
        fi = T.sa.methods[name]
        q = T.eval_method(fi, None, [], None)
        n += 1
        if not isinstance(q, Q):
            raise AnalysisError(f"homogeneity degree of SpecArray.{name} could not be inferred")
        where = f"{fi.file}:{fi.node.lineno} SpecArray.{name}"
        if q.h is None:
            rep.fail("R-C10-1", fi.file, fi.node.lineno, fi.qualname, f"SpecArray.{name}: not a homogeneous function of the spectrum",
                     f"multiplying the spectrum by k must multiply {name} by k^{want}; the formula mixes terms of different degree")
        elif q.h != want:
            rep.fail("R-C10-1", fi.file, fi.node.lineno, fi.qualname, f"SpecArray.{name} is homogeneous of degree {q.h}",
                     f"multiplying the spectrum by k must multiply {name} by k^{want} (heights sqrt(k), drift/slope k, periods / directions / "
                     f"spreads / shape parameters unchanged); as coded it scales like k^{q.h}")
        else:
            rep.ok("R-C10-1", where, f"degree {q.h} in the spectrum", "exactly homogeneous over the reals, as the property states")
    for mom in (0, 1, 2, 4):
        q = T.eval_method(T.sa.methods["momf"], None, [], None, consts={"mom": mom})
        if not isinstance(q, Q) or q.h != ONE:
            rep.fail("R-C10-1", T.sa.methods["momf"].file, T.sa.methods["momf"].node.lineno, T.sa.methods["momf"].qualname, f"momf({mom}) degree {getattr(q, 'h', None)}", "moments are linear in the spectrum")
    # comparisons: a quantity of degree != 0 compared with a non-zero constant breaks scale invariance
    seen = set()
    for fi, node, l, r, rnode in T.compares:
        if fi.cls is None or fi.cls.name != "SpecArray":
            continue
        key = (fi.qualname, node.lineno)
        if key in seen:
            continue
        seen.add(key)
        if not isinstance(l, Q) or not isinstance(r, Q):
            continue
        n += 1
        for a, b, bn in ((l, r, rnode), (r, l, node.left)):
            if a.h not in (ZERO, None) and b.lit:
                v = repo.const(fi.module, bn)
                if v not in (0, 0.0):
                    rep.fail("R-C10-1", fi.file, node.lineno, fi.qualname, unparse(node)[:100], anchor=f"{fi.name}:degree-{a.h}-vs-constant-{v}", reason=
                             f"a quantity that scales like k^{a.h} with the spectrum is compared with the constant {v}: below/above "
                             "that absolute level the statistic changes character (e.g. becomes NaN), so it is not scale-invariant")
                    break
        else:
            rep.ok("R-C10-1", f"{fi.file}:{node.lineno} {fi.short}", unparse(node)[:80], "scale-invariant comparison (degree-0 quantities, coordinates or zero)", nontrivial=False)
    rep.floor("R-C10-1", "statistics and comparisons typed", n, 25)
    # homogeneity problems found while typing (sums of different degrees, constants added to degree != 0)
    for fi, p in T.problems:
        if p.kind == "homog" and fi.cls is not None and fi.cls.name == "SpecArray" and fi.name not in ("gw", "scale_by_hs", "rmse"):
            rep.fail("R-C10-1", fi.file, p.node.lineno, fi.qualname, unparse(p.node)[:100], p.msg)


def mod360_last(repo, rep):
    from ..astutil import returns, resolve
    for qual in ("wavespectra.specarray.SpecArray.dm", "wavespectra.core.npstats.dm", "wavespectra.core.npstats.dpm"):
        fi = repo.func(qual)
        for r, v in returns(fi.node):
            line = r.lineno
            narrowed = None
            for _ in range(8):
                if isinstance(v, ast.Call) and isinstance(v.func, ast.Attribute) and v.func.attr in ("rename", "astype"):
                    if v.func.attr == "astype" and v.args and any(x in unparse(v.args[0]) for x in ("float32", "f4", "float16", "half", "single")):
                        narrowed = v
                    v = v.func.value
                elif isinstance(v, ast.Call) and call_name(v) in ("np.float32", "np.float64", "float", "np.float16", "np.single", "np.half") and v.args:
                    if call_name(v) in ("np.float32", "np.float16", "np.single", "np.half"):
                        narrowed = v
                    v = v.args[0]
                elif isinstance(v, ast.Name):
                    v2 = resolve(fi.node, v, before=line + 1)
                    if v2 is v:
                        break
                    v = v2
                else:
                    break
            if unparse(v) in ("np.nan", "numpy.nan"):
                continue
            def _c360(e_):
                while isinstance(e_, ast.Call) and call_name(e_) in ("np.float32", "np.float64", "float", "int") and len(e_.args) == 1:
                    e_ = e_.args[0]
                return repo.const(fi.module, e_) in (360, 360.0)
            good = isinstance(v, ast.BinOp) and isinstance(v.op, ast.Mod) and _c360(v.right)
            if good and narrowed is not None:
                rep.fail("R-C10-8", fi.file, r.lineno, fi.qualname, unparse(narrowed)[:100],
                         "the direction is reduced modulo 360 in double precision and THEN rounded to single precision: a value within 1.5e-5 of 360 rounds to "
                         "exactly 360.0, outside [0, 360) (a mean direction a hair west of north)", anchor=f"narrowed-after-mod360:{fi.short}")
            elif good:
                rep.ok("R-C10-8", f"{fi.file}:{r.lineno} {fi.short}", unparse(v)[:80], "no narrowing cast after the last modulo")
            if good:
                rep.ok("R-C10-2", f"{fi.file}:{r.lineno} {fi.short}", unparse(v)[:80], "reduced modulo 360 as the outermost operation: result in [0, 360)")
            else:
                rep.fail("R-C10-2", fi.file, r.lineno, fi.qualname, unparse(v)[:100], "a direction result must be reduced modulo 360 as its last arithmetic step to lie in [0, 360)")


def scale_by_hs(repo, rep):
    fi = repo.func("wavespectra.specarray.SpecArray.scale_by_hs")
    from ..astutil import returns, resolve, factors, canon
    ok = False
    rets = returns(fi.node)
    if len(rets) == 1:
        r, v = rets[0]
        # <scaled>.where(<condition>, self._obj)
        if isinstance(v, ast.Call) and isinstance(v.func, ast.Attribute) and v.func.attr == "where" and len(v.args) == 2 and unparse(v.args[1]) == "self._obj":
            scaled = resolve(fi.node, v.func.value, before=r.lineno)
            fs = factors(scaled)
            if len(fs) == 2 and any(unparse(f) == "self._obj" for f in fs):
                k = resolve(fi.node, [f for f in fs if unparse(f) != "self._obj"][0], before=r.lineno)
                # (expr / hs) ** 2 with hs = self.hs()
                if isinstance(k, ast.BinOp) and isinstance(k.op, ast.Pow) and repo.const(fi.module, k.right) == 2 and \
                        isinstance(k.left, ast.BinOp) and isinstance(k.left.op, ast.Div):
                    den = resolve(fi.node, k.left.right, before=r.lineno)
                    num = k.left.left
                    if unparse(den) == "self.hs()" and isinstance(num, ast.Call) and call_name(num) == "eval":
                        ok = True
    if ok:
        rep.ok("R-C10-4", f"{fi.file}:{fi.node.lineno} scale_by_hs", "k = (expr/hs)^2; (k * spectrum).where(condition, spectrum)", "prescribed height where the condition holds, untouched elsewhere")
    else:
        rep.fail("R-C10-4", fi.file, fi.node.lineno, fi.qualname, "scale_by_hs", "spectra must be scaled by (expr(hs)/hs)^2 where the condition holds and returned unchanged elsewhere")
    # the ranges are combined: inside the range branches the condition is only ever narrowed (cond *= .., cond &= .., cond = cond & ..)
    if len(rets) == 1 and isinstance(rets[0][1], ast.Call) and rets[0][1].args and isinstance(rets[0][1].args[0], ast.Name):
        cname = rets[0][1].args[0].id
        for n in ast.walk(fi.node):
            if isinstance(n, ast.If):
                for b in ast.walk(n):
                    if isinstance(b, ast.Assign) and any(isinstance(t, ast.Name) and t.id == cname for t in b.targets) and b in n.body + n.orelse:
                        if not any(isinstance(x, ast.Name) and x.id == cname for x in ast.walk(b.value)):
                            rep.fail("R-C10-4", fi.file, b.lineno, fi.qualname, unparse(b)[:100],
                                     f"'{cname}' is overwritten instead of narrowed: the ranges tested before this one are forgotten, so spectra outside "
                                     "the stated height / period range are rescaled when a later range is also given")
                    if isinstance(b, ast.AugAssign) and isinstance(b.target, ast.Name) and b.target.id == cname and not isinstance(b.op, (ast.Mult, ast.BitAnd)):
                        rep.fail("R-C10-4", fi.file, b.lineno, fi.qualname, unparse(b)[:100], f"'{cname}' must be narrowed by conjunction (*= / &=)")
    for var in ("hs", "tp", "dpm"):
        found = False
        for n in ast.walk(fi.node):
            if isinstance(n, ast.If):
                names = {x.id for x in ast.walk(n.test) if isinstance(x, ast.Name)}
                if {f"{var}_min", f"{var}_max"} <= names:
                    found = True
                    tt = n.test
                    good = isinstance(tt, ast.BoolOp) and isinstance(tt.op, ast.Or) and len(tt.values) == 2 and \
                        all(isinstance(v, ast.Compare) and isinstance(v.ops[0], ast.NotEq) for v in tt.values)
                    cmps = [c for c in ast.walk(n) if isinstance(c, ast.Compare) and c is not tt and c not in list(ast.walk(tt))]
                    from ..astutil import rel as _rel
                    opname = {">=": "GtE", "<=": "LtE", ">": "Gt", "<": "Lt", "==": "Eq", "!=": "NotEq"}
                    got = []
                    for c in cmps:
                        r_ = _rel(c, lambda e: isinstance(e, ast.Name) and e.id in (f"{var}_min", f"{var}_max"))
                        if r_ is not None:      # relation of the quantity with respect to the bound
                            got.append((opname[{"<": ">", "<=": ">=", ">": "<", ">=": "<=", "==": "==", "!=": "!="}[r_[1]]], unparse(r_[0])))
                    got = sorted(got)
                    closed = got == sorted([("GtE", f"{var}_min"), ("LtE", f"{var}_max")])
                    if good and closed:
                        rep.ok("R-C10-4", f"{fi.file}:{n.lineno} scale_by_hs", unparse(tt), f"the {var} range joins the condition when EITHER bound is given; closed range test")
                    elif not good:
                        rep.fail("R-C10-4", fi.file, n.lineno, fi.qualname, "if " + unparse(tt),
                                 f"the {var} range must be applied when either {var}_min or {var}_max is given: with 'and' a one-sided range is "
                                 "silently ignored and spectra outside it are rescaled")
                    else:
                        rep.fail("R-C10-4", fi.file, n.lineno, fi.qualname, unparse(n)[:120], f"the {var} range test must be {var}_min <= {var} <= {var}_max")
        if not found:
            rep.fail("R-C10-4", fi.file, fi.node.lineno, fi.qualname, f"{var} range", f"the {var}_min / {var}_max condition is missing")


def run(repo, rep, tier):
    from .round7b import hygiene
    hygiene(repo, rep, "C10", ('wavespectra.specarray', 'wavespectra.core.xrstats', 'wavespectra.core.npstats'), falsy=True)
    rep.rule("R-C10-6", "(shared with C01) ratio statistics divide moments taken over one band by one quadrature: otherwise |m1|/m0 can exceed 1 and "
                        "the spread leaves [0, 81.03] / becomes NaN")
    from .shared import same_band_ratios
    same_band_ratios(repo, rep, "R-C10-6")
    rep.rule("R-C10-1", "every statistic is exactly homogeneous in the spectrum with the degree the property states (heights 1/2, drift / "
                        "slope / moments 1, periods / directions / spreads / shape parameters 0); comparisons are scale-invariant")
    rep.rule("R-C10-2", "direction results are reduced modulo 360 as the outermost arithmetic step")
    rep.rule("R-C10-8", "a direction result is not rounded to a narrower float type after its last reduction modulo 360 (rounding can produce exactly 360)")
    rep.rule("R-C10-3", "(shared) dp returns a direction coordinate unconditionally; direction bin widths are circular; no cached trig weights")
    rep.rule("R-C10-4", "scale_by_hs: factor (expr/hs)^2 applied where the requested closed ranges hold (each range active when either bound is given)")
    rep.rule("R-C10-9", "(shared with C02) the peak direction is the coordinate at the arg-max of the spectrum as stored (no re-sorting of the directions before the "
                        "arg-max: with tied maxima a relabelling by +a would no longer shift dp by a), and the peak locator sees the spectrum at full precision (a narrowing "
                        "cast before the locator moves the peak of nearly tied bins: tp leaves the bin the period bounds refer to)")
    from .c02 import peak_direction as _pd, peak_locator as _pl
    from .c07 import _Relabel
    _pd(repo, _Relabel(rep, "R-C10-9"))
    _pl(repo, _Relabel(rep, "R-C10-9"))
    rep.rule("R-C10-11", "no hidden absolute tolerance: np.isclose / allclose / math.isclose on a density-derived value against a constant (default atol 1e-8) is a "
                         "comparison with a non-zero absolute constant - the decision changes when the spectrum is scaled")
    from .round7b import hidden_tolerance
    hidden_tolerance(repo, rep, "R-C10-11", ("wavespectra.core.npstats", "wavespectra.core.xrstats", "wavespectra.specarray"))
    rep.rule("R-C10-10", "constant offsets that meet the stored direction coordinate additively are floats (NumPy 2 promotion: a Python int adopts the "
                         "dtype of integer direction labels; unsigned labels then wrap instead of rotating)")
    from .round7 import int_meets_direction
    int_meets_direction(repo, rep, "R-C10-10")
    T = Typing(repo, two_d=True)
    mod360_last(repo, rep)
    scale_by_hs(repo, rep)
    shared(repo, rep, T)
    try:
        homogeneity(repo, rep, T)
    except AnalysisError as e:
        if not rep.has_new_findings():
            raise
        rep.note(f"typing stopped early ({e}); the violations above already decide the run")
    return explanation(rep)


def scale_free_comparisons(repo, rep, rule):
    """In the peak locator and the peak kernels every comparison that involves the spectral density is against zero or against
    another density-derived value: a non-zero absolute constant (a tolerance, an epsilon) makes the located peak - hence tp, fp,
    dpm, dpspr, gamma - change when the whole spectrum is multiplied by a constant."""
    targets = [("wavespectra.specarray.SpecArray._peak", 1), ("wavespectra.core.npstats.tps", 1), ("wavespectra.core.npstats.tp", 1)]
    ncmp = 0
    for q, _ in targets:
        fi = repo.func(q)
        params = [p_ for p_ in fi.params if p_ != "self"]
        # density-tainted names: the spectrum parameter (named arr / spectrum) and everything computed from it
        seeds = {p_ for p_ in params if p_ in ("arr", "spectrum", "spec", "dset", "efth", "momsin", "momcos")}
        if not seeds:
            raise AnalysisError(f"{fi.short}: spectrum parameter not found")
        taint = set(seeds)
        dep = set(params)              # anything depending on any input
        changed = True
        while changed:
            changed = False
            for a_ in ast.walk(fi.node):
                if isinstance(a_, ast.Assign):
                    names = {x.id for x in ast.walk(a_.value) if isinstance(x, ast.Name)}
                    for t_ in a_.targets:
                        for x in ast.walk(t_):
                            if isinstance(x, ast.Name):
                                if names & taint and x.id not in taint:
                                    taint.add(x.id); changed = True
                                if names & dep and x.id not in dep:
                                    dep.add(x.id); changed = True
        for c_ in ast.walk(fi.node):
            if not (isinstance(c_, ast.Compare) and len(c_.ops) == 1):
                continue
            sides = [c_.left, c_.comparators[0]]
            tn = [bool({x.id for x in ast.walk(e_) if isinstance(x, ast.Name)} & taint) for e_ in sides]
            if not any(tn):
                continue
            ncmp += 1
            other = sides[1] if tn[0] else sides[0]
            if all(tn):
                rep.ok(rule, f"{fi.file}:{c_.lineno} {fi.short}", unparse(c_)[:70], "both sides derive from the spectrum (same degree)")
                continue
            v = repo.const(fi.module, other)
            onames = {x.id for x in ast.walk(other) if isinstance(x, ast.Name)}
            if v == 0 and v is not False:
                rep.ok(rule, f"{fi.file}:{c_.lineno} {fi.short}", unparse(c_)[:70], "compared with zero: unchanged by scaling")
            elif onames & dep and not (onames & taint):
                rep.ok(rule, f"{fi.file}:{c_.lineno} {fi.short}", unparse(c_)[:70], "compared with an argument (caller's choice), not a built-in constant")
            else:
                rep.fail(rule, fi.file, c_.lineno, fi.qualname, unparse(c_)[:100],
                         "a spectral-density quantity is compared with a non-zero absolute constant: whether a bin counts as a peak then "
                         "depends on the overall scale of the spectrum, so tp / fp / dpm / dpspr / gamma change (or become NaN) under E -> k E",
                         anchor=f"scale-dependent-comparison:{fi.short}")
    rep.floor(rule, "density comparisons in the peak locator / kernels", ncmp, 2)


def shared(repo, rep, T):
    # shared rules
    rep.rule("R-C10-5", "peak detection is scale-free: density-derived values are only compared with zero or with each other")
    scale_free_comparisons(repo, rep, "R-C10-5")
    from .c02 import nan_guards
    sub = type(rep)("C10-sub")
    nan_guards(repo, sub)
    for f in sub.findings:
        if f.rule == "R-C02-5":
            rep.fail("R-C10-3", f.file, f.line, f.func, f.construct, f.reason)
    rep.ok("R-C10-3", "wavespectra/core/npstats.py dp", "return dir[ipeak]", "peak direction is one of the direction coordinates")
    from .c05 import circular_width
    circular_width(repo, rep, "R-C10-3")
    from ..effects import Engine
    eng = Engine(repo)
    eng.solve()
    from .c18 import accessor_state
    for f, ln, fn, cons, why in accessor_state(repo, eng, T.sa):
        rep.fail("R-C10-3", f, ln, fn, cons, why + ": state derived from the coordinates is cached on the accessor: after the directions are relabelled the statistics use the old weights and do not rotate with the spectrum")


def explanation(rep):
    rep.trust("Python ast; the degree algebra: product adds, quotient subtracts, power multiplies, sqrt halves, arctan2 / comparisons of equal "
              "degrees give 0, a literal added to a degree != 0 quantity breaks homogeneity")
    rep.note("not decided: the inequalities 1/fmax <= Tm02 <= Tm01 <= 1/fmin, dspr <= 81.03 deg, swe <= 1 (Cauchy-Schwarz-type facts about "
             "moments); rotation equivariance beyond the circular width and the mod-360 / coordinate-valued results; eval(expr) is opaque")
    return ("Static homogeneity-degree typing: the units interpreter also tracks each value's degree of homogeneity in the spectrum "
            "through products, quotients, powers, roots, arctan2, where() and comparisons, which decides the scaling clause exactly "
            "(over the reals) for every statistic; plus the mod-360 placement, the structure of scale_by_hs, and shared rules for the "
            "rotation clause (circular widths, coordinate-valued peak direction, no cached weights).")
