"""C03 - watershed partitions are a sound, ordered, conserving split (kernels np_ptm1/2/3, np_hp01*)."""
import ast

from ..model import UNKNOWN, call_name, kwarg, unparse
from ..report import AnalysisError
from ..ufunc import sites

MOD = "wavespectra.partition.partition"
KERNELS = {"np_ptm1": 1, "np_ptm2": 2, "np_ptm3": 0}     # kernel -> number of fixed leading (wind-sea) partitions
HP01 = {"np_hp01": 1, "np_hp01_wseabins": 1, "np_hp01_wseafrac_wseabins": 1}


def _is_zero(e):
    return isinstance(e, ast.Constant) and e.value in (0, 0.0)


def _where(e):
    """np.where(mask, a, b) -> (mask, a, b) or None"""
    if isinstance(e, ast.Call) and call_name(e) in ("np.where", "numpy.where") and len(e.args) == 3:
        return e.args
    return None


class Kernel:
    def __init__(self, repo, rep, name, nfixed, hp=False):
        self.repo, self.rep, self.name, self.nfixed, self.hp = repo, rep, name, nfixed, hp
        self.fi = repo.func(f"{MOD}.{name}")
        self.spectrum, self.smooth = self.fi.params[0], self.fi.params[1]
        self.body = self.fi.node.body
        self.file = self.fi.file

    def fail(self, rule, node, reason):
        self.rep.fail(rule, self.file, getattr(node, "lineno", self.fi.node.lineno), self.fi.qualname, unparse(node)[:150], reason)

    def ok(self, rule, node, what, how):
        self.rep.ok(rule, f"{self.file}:{getattr(node, 'lineno', 0)} {self.name}", what, how)

    # ---- pieces ---------------------------------------------------------------------------------------
    def find_map(self):
        """watershed_map = specpart.partition(f(spectrum_smooth), ihmax); nparts = watershed_map.max()"""
        self.map_name = self.nparts = None
        for s in self.body:
            if isinstance(s, ast.Assign) and isinstance(s.value, ast.Call) and len(s.targets) == 1 and isinstance(s.targets[0], ast.Name):
                if call_name(s.value).endswith("specpart.partition"):
                    self.map_name = s.targets[0].id
                    names = {n.id for n in ast.walk(s.value.args[0]) if isinstance(n, ast.Name)}
                    if self.smooth not in names:
                        self.fail("R-C03-2", s, f"the watershed boundaries must be computed from '{self.smooth}' (the smoothed spectrum)")
                    else:
                        self.ok("R-C03-2", s, unparse(s)[:90], "boundaries from the smoothed spectrum")
                v = s.value
                if isinstance(v.func, ast.Attribute) and v.func.attr == "max" and isinstance(v.func.value, ast.Name) and v.func.value.id == self.map_name:
                    self.nparts = s.targets[0].id
        if not self.map_name or not self.nparts:
            raise AnalysisError(f"{self.name}: watershed_map / nparts idiom not found")

    def find_loop(self):
        loops = [s for s in self.body if isinstance(s, ast.For)]
        main = None
        for l in loops:
            if any(isinstance(n, ast.Name) and n.id == self.map_name for n in ast.walk(l)):
                main = l
        if main is None:
            raise AnalysisError(f"{self.name}: partition loop not found")
        self.loop = main
        it = main.iter
        if not (isinstance(it, ast.Call) and call_name(it) == "range" and isinstance(main.target, ast.Name)):
            raise AnalysisError(f"{self.name}: loop is not `for k in range(...)`")
        self.lv = main.target.id
        a = it.args
        # label set visited: range(nparts) with label k+1, or range(1, nparts+1) with label k
        self.label_offset = None
        if len(a) == 1 and unparse(a[0]) == self.nparts:
            self.label_offset = 1
        elif len(a) == 2 and unparse(a[0]) == "1" and unparse(a[1]).replace(" ", "") == f"{self.nparts}+1":
            self.label_offset = 0
        else:
            self.fail("R-C03-1", main, f"the loop must visit every watershed label 1..{self.nparts} exactly once")

    def analyse_loop(self):
        """Linear consumption of part = np.where(map == label, spectrum, 0)."""
        part_name = None
        part_stmt = None
        # loop-local temporaries holding the label mask:  inpart = map == k + 1;  part = np.where(inpart, spectrum, 0.0)
        counts = {}
        for s in ast.walk(self.loop):
            if isinstance(s, (ast.Assign, ast.AugAssign)):
                for t in (s.targets if isinstance(s, ast.Assign) else [s.target]):
                    if isinstance(t, ast.Name):
                        counts[t.id] = counts.get(t.id, 0) + 1
        tmps = {s.targets[0].id: s.value for s in self.loop.body if isinstance(s, ast.Assign) and len(s.targets) == 1
                and isinstance(s.targets[0], ast.Name) and counts.get(s.targets[0].id) == 1 and isinstance(s.value, ast.Compare)}

        _w0 = globals()["_where"]

        def _where(e):
            w_ = _w0(e)
            if w_ is not None and isinstance(w_[0], ast.Name) and w_[0].id in tmps:
                return [tmps[w_[0].id], w_[1], w_[2]]
            return w_
        for s in self.loop.body:
            tgt, val = None, None
            if isinstance(s, ast.Assign) and len(s.targets) == 1 and isinstance(s.targets[0], ast.Name):
                tgt, val = s.targets[0].id, s.value
            w = _where(val) if val is not None else None
            if w is not None and any(isinstance(n, ast.Name) and n.id == self.map_name for n in ast.walk(w[0])):
                part_name, part_stmt, part_w = tgt, s, w
        inline_part = None
        if part_name is None:
            # ptm3 form: partitions.append(np.where(map == k, spectrum, 0.0))
            for s in self.loop.body:
                if isinstance(s, ast.Expr) and isinstance(s.value, ast.Call) and isinstance(s.value.func, ast.Attribute) \
                        and s.value.func.attr == "append" and s.value.args:
                    w = _where(s.value.args[0])
                    if w is not None:
                        inline_part, part_stmt, part_w = s, s, w
        if part_stmt is None:
            raise AnalysisError(f"{self.name}: part = np.where(map == k, spectrum, 0) not found in the loop")
        mask, a, b = part_w
        # mask: map == lv (+1)
        good_mask = isinstance(mask, ast.Compare) and len(mask.ops) == 1 and isinstance(mask.ops[0], ast.Eq)
        if good_mask:
            l, r = mask.left, mask.comparators[0]
            if isinstance(r, ast.Name) and r.id == self.map_name:
                l, r = r, l
            lab = unparse(r).replace(" ", "")
            want = f"{self.lv}+1" if self.label_offset == 1 else self.lv
            good_mask = isinstance(l, ast.Name) and l.id == self.map_name and (self.label_offset is None or lab in (want, f"1+{self.lv}" if self.label_offset == 1 else want))
        if not good_mask:
            self.fail("R-C03-1", part_stmt, "the mask must select exactly one watershed label per iteration (map == label of this iteration): "
                                            "other masks overlap between iterations or skip labels")
        if not (isinstance(a, ast.Name) and a.id == self.spectrum and _is_zero(b)):
            self.fail("R-C03-2", part_stmt, f"each partition bin must hold the ORIGINAL energy '{self.spectrum}' or zero "
                                            f"(found np.where(.., {unparse(a)[:30]}, {unparse(b)[:20]}))")
        else:
            self.ok("R-C03-2", part_stmt, unparse(part_stmt)[:100], "original spectrum inside the basin, 0 outside")
        self.part_name = part_name
        if inline_part is not None:
            self.ok("R-C03-1", part_stmt, "partitions.append(part) once per label", "each label consumed exactly once")
            self.accs = {unparse(inline_part.value.func.value)}
            self.swell_list = unparse(inline_part.value.func.value)
            return
        # enumerate paths through the rest of the loop body
        rest = self.loop.body[self.loop.body.index(part_stmt) + 1:]
        paths = self._paths(rest)
        self.accs = set()
        for p in paths:
            pieces = []
            for st in p:
                c = self._consumption(st, part_name)
                if c is not None:
                    pieces.append(c + (st,))
                    self.accs.add(c[1])
            kinds = sorted((k for k, _, _ in pieces), key=str)
            where = p[-1] if p else part_stmt
            if kinds == ["whole"]:
                continue
            if len(pieces) == 2 and all(k[0] == "half" for k, _, _ in pieces):
                (k1, acc1, s1), (k2, acc2, s2) = pieces
                if k1[1] == k2[1] and k1[2] != k2[2]:
                    continue
                self.fail("R-C03-1", s2, "the two pieces of the partition are not complementary (same mask, swapped branches): bins are "
                                         "duplicated or lost")
                continue
            if not pieces:
                self.fail("R-C03-1", where, f"on this path '{part_name}' is added to no output partition: its energy is lost")
            else:
                self.fail("R-C03-1", pieces[-1][2], f"on this path '{part_name}' is consumed {len(pieces)} times "
                                                    f"({', '.join(str(k) for k in kinds)}): energy is duplicated between partitions")
        self.ok("R-C03-1", self.loop, f"{len(paths)} path(s) through the loop body", "each watershed part consumed exactly once (whole, or as a complementary pair)")
        # which accumulator is the swell list?
        self.swell_list = None
        for s in self.body:
            if isinstance(s, ast.Assign) and isinstance(s.value, (ast.ListComp, ast.List)) and isinstance(s.targets[0], ast.Name):
                if any(a_.split("[")[0] == s.targets[0].id for a_ in self.accs):
                    self.swell_list = s.targets[0].id

    def _paths(self, stmts):
        paths = [[]]
        for s in stmts:
            if isinstance(s, ast.If):
                t = self._paths(s.body)
                f = self._paths(s.orelse) if s.orelse else [[]]
                paths = [p + q for p in paths for q in (t + f)]
            elif isinstance(s, (ast.For, ast.While)):
                raise AnalysisError(f"{self.name}: nested loop inside the partition loop")
            else:
                paths = [p + [s] for p in paths]
        return paths

    def _piece(self, e, part):
        if isinstance(e, ast.Name) and e.id == part:
            return "whole"
        w = _where(e)
        if w is not None:
            m, a, b = w
            if isinstance(a, ast.Name) and a.id == part and _is_zero(b):
                return ("half", unparse(m), True)
            if isinstance(b, ast.Name) and b.id == part and _is_zero(a):
                return ("half", unparse(m), False)
            if any(isinstance(n, ast.Name) and n.id == part for n in ast.walk(e)):
                return ("other", unparse(e))
        elif any(isinstance(n, ast.Name) and n.id == part for n in ast.walk(e)):
            return ("other", unparse(e))
        return None

    def _consumption(self, st, part):
        if isinstance(st, ast.AugAssign):
            pc = self._piece(st.value, part)
            if pc is None:
                return None
            if not isinstance(st.op, ast.Add) or (isinstance(pc, tuple) and pc[0] == "other"):
                self.fail("R-C03-2", st, "partition arrays may only receive whole parts or complementary masked halves by '+='")
                return None
            return (pc, unparse(st.target))
        if isinstance(st, ast.Expr) and isinstance(st.value, ast.Call) and isinstance(st.value.func, ast.Attribute) and \
                st.value.func.attr == "append" and st.value.args:
            pc = self._piece(st.value.args[0], part)
            if pc is None:
                return None
            if isinstance(pc, tuple) and pc[0] == "other":
                self.fail("R-C03-2", st, "appended array is neither the part nor a masked half of it")
                return None
            return (pc, unparse(st.value.func.value))
        if isinstance(st, ast.Assign):
            for t in st.targets:
                if isinstance(t, ast.Name) and t.id == part:
                    self.fail("R-C03-2", st, f"'{part}' is modified after construction")
            pc = self._piece(st.value, part)
            if pc is not None and not (isinstance(st.targets[0], ast.Name) and unparse(st.targets[0]) in ("wsfrac",)):
                # reading part for the wind-sea fraction is fine; storing it elsewhere is a consumption
                if pc == "whole" or (isinstance(pc, tuple) and pc[0] == "half"):
                    return (pc, unparse(st.targets[0]))
        return None

    # ---- after the loop ---------------------------------------------------------------------------------
    def order_and_count(self, count_param):
        lst = self.swell_list
        if lst is None:
            raise AnalysisError(f"{self.name}: swell list not identified")
        after = self.body[self.body.index(self.loop) + 1:]
        sort_idx = trunc_idx = None
        isort = None
        for i, s in enumerate(after):
            # isort = np.argsort([-npstats.hs(x, freq, dir) for x in LIST])
            for n in ast.walk(s):
                if isinstance(n, ast.Call) and call_name(n) in ("np.argsort", "numpy.argsort") and sort_idx is None:
                    sort_idx = i
                    arg = n.args[0] if n.args else None
                    keyexpr, src = self._sort_key(s, arg, after[:i + 1])
                    if src != lst:
                        self.fail("R-C03-3", s, f"the Hs sort key is computed on '{src}', not on the partitions that are returned ('{lst}'): "
                                                "the returned swells are then not in non-increasing order of their own Hs")
                    neg = isinstance(keyexpr, ast.UnaryOp) and isinstance(keyexpr.op, ast.USub)
                    hs_call = keyexpr.operand if neg else keyexpr
                    if not (isinstance(hs_call, ast.Call) and call_name(hs_call).endswith("npstats.hs")):
                        self.fail("R-C03-3", s, "swells must be ordered by the library's array-level Hs (npstats.hs)")
                    elif [k for k in hs_call.keywords if not (k.arg == "tail" and isinstance(k.value, ast.Constant) and k.value.value is True)] \
                            or len(hs_call.args) > 3:
                        self.fail("R-C03-3", s, f"the sort key {unparse(hs_call)[:80]} is not the library's array-level Hs of the partition as returned "
                                                "(non-default options such as tail=False give another height, so the returned swells are not in "
                                                "non-increasing order of their Hs)")
                    elif not neg and not (kwarg(n, "kind") is None and False):
                        self.fail("R-C03-3", s, "argsort of +Hs orders the swells by INCREASING height; the key must be negated "
                                                "(or the order reversed)")
                    else:
                        self.ok("R-C03-3", s, unparse(s)[:100], "descending Hs of the returned partitions")
                    if isinstance(s, ast.Assign) and isinstance(s.targets[0], ast.Name):
                        isort = s.targets[0].id
        if sort_idx is None:
            self.fail("R-C03-3", self.loop, "the partitions are no longer sorted by Hs")
            return
        # the reordering statement: LIST = list(np.array(LIST)[isort])
        reorder_idx = None
        for i, s in enumerate(after[sort_idx:], sort_idx):
            if isinstance(s, ast.Assign) and isinstance(s.targets[0], ast.Name) and s.targets[0].id == lst and isort and \
                    any(isinstance(n, ast.Name) and n.id == isort for n in ast.walk(s.value)):
                reorder_idx = i
                # must be a pure permutation of the list: LIST[isort] possibly wrapped in np.array / list
                v = s.value
                while isinstance(v, ast.Call) and call_name(v) in ("list", "np.array", "numpy.array") and len(v.args) == 1:
                    v = v.args[0]
                okperm = isinstance(v, ast.Subscript) and isinstance(v.slice, ast.Name) and v.slice.id == isort
                base = v.value if isinstance(v, ast.Subscript) else None
                while isinstance(base, ast.Call) and call_name(base) in ("list", "np.array", "numpy.array") and len(base.args) == 1:
                    base = base.args[0]
                if not (okperm and isinstance(base, ast.Name) and base.id == lst):
                    self.fail("R-C03-3", s, "after sorting, the list must be exactly the same partitions permuted by the sort index "
                                            "(no values may change after the sort key was computed)")
                else:
                    self.ok("R-C03-3", s, unparse(s)[:100], "pure permutation by the sort index")
        if reorder_idx is None:
            self.fail("R-C03-3", after[sort_idx], "the sort index is never applied to the partitions")
            return
        # count handling after the reorder
        tail = after[reorder_idx + 1:]
        self._count(tail, lst, count_param)
        # the return
        ret = [s for s in self.body if isinstance(s, ast.Return)]
        if len(ret) != 1:
            raise AnalysisError(f"{self.name}: expected a single return")
        self._return(ret[0], lst, tail)

    def _sort_key(self, stmt, arg, before):
        """key expression and the list it iterates over (following one local alias)."""
        if isinstance(arg, ast.Name):
            name0 = arg.id
            for s in before:
                if isinstance(s, ast.Assign) and isinstance(s.targets[0], ast.Name) and s.targets[0].id == name0:
                    arg = s.value
            if isinstance(arg, ast.List) and not arg.elts:
                # the comprehension in its loop form (E0):  keys = [];  for p in LIST: keys.append(-hs(p))
                for s in before:
                    if isinstance(s, ast.For) and len(s.body) == 1 and isinstance(s.body[0], ast.Expr) and isinstance(s.body[0].value, ast.Call) \
                            and isinstance(s.body[0].value.func, ast.Attribute) and s.body[0].value.func.attr == "append" \
                            and unparse(s.body[0].value.func.value) == name0 and s.body[0].value.args:
                        return s.body[0].value.args[0], unparse(s.iter)
        if isinstance(arg, ast.ListComp) and len(arg.generators) == 1:
            g = arg.generators[0]
            return arg.elt, unparse(g.iter)
        raise AnalysisError(f"{self.name}: sort key is not a list comprehension over the partitions")

    def _count(self, tail, lst, cp):
        nparts = self.nparts
        found_none = found_gt = found_lt = False
        for s in tail:
            if not isinstance(s, ast.If):
                # nothing else may change partition values after the sort
                for n in ast.walk(s):
                    if _where(n) is not None:
                        self.fail("R-C03-3", s, "partition values are modified after the Hs sort")
                continue
            t = unparse(s.test)
            # form A: if cp is None: ... else: if nparts > cp ... elif nparts < cp ...
            # form B: if cp is not None: if nparts > cp ... elif nparts < cp ...
            inner = None
            if t == f"{cp} is None":
                found_none = True
                inner = s.orelse
            elif t == f"{cp} is not None":
                found_none = True
                inner = s.body
            elif cp in t and ("not " + cp == t or t == cp):
                self.fail("R-C03-4", s, f"'{t}' treats {cp}=0 like {cp}=None: a request for zero swells/parts returns every partition")
                found_none = True
                inner = s.orelse if t.startswith("not") else s.body
            if inner is None:
                continue
            for q in inner:
                if not isinstance(q, ast.If):
                    continue
                branches = [(q.test, q.body)]
                e = q.orelse
                while len(e) == 1 and isinstance(e[0], ast.If):
                    branches.append((e[0].test, e[0].body))
                    e = e[0].orelse
                for test, body in branches:
                    tt = unparse(test).replace(" ", "")
                    if tt in (f"{nparts}>{cp}", f"{cp}<{nparts}", f"len({lst})>{cp}", f"{cp}<len({lst})"):
                        found_gt = True
                        okslice = False
                        for b in body:
                            if isinstance(b, ast.Assign) and isinstance(b.value, ast.Subscript) and isinstance(b.value.slice, ast.Slice):
                                sl = b.value.slice
                                if sl.lower is None and sl.upper is not None and unparse(sl.upper) == cp and sl.step is None and \
                                        unparse(b.value.value) == lst and unparse(b.targets[0]) == lst:
                                    okslice = True
                        if okslice:
                            self.ok("R-C03-4", q, f"{tt}: {lst} = {lst}[:{cp}]", "keeps the largest partitions (list is sorted descending)")
                        else:
                            self.fail("R-C03-4", q, f"when more partitions are detected than requested the list must be cut to its first "
                                                    f"{cp} entries ({lst}[:{cp}]): the dropped ones must be the smallest")
                    elif tt in (f"{nparts}<{cp}", f"{cp}>{nparts}", f"len({lst})<{cp}", f"{cp}>len({lst})"):
                        found_lt = True
                        okpad = self._pad_ok(body, lst, cp)
                        if okpad:
                            self.ok("R-C03-4", q, f"{tt}: append {cp} - len({lst}) zero partitions", "empty partitions last, exact count")
                        else:
                            self.fail("R-C03-4", q, f"when fewer partitions are detected than requested exactly {cp} - len({lst}) zero "
                                                    "partitions must be APPENDED")
                    elif tt in (f"{nparts}>={cp}", f"{nparts}<={cp}", f"{cp}<={nparts}", f"{cp}>={nparts}"):
                        # non-strict also fine if the action is the identity at equality
                        found_gt = found_gt or tt in (f"{nparts}>={cp}", f"{cp}<={nparts}")
                        found_lt = found_lt or tt in (f"{nparts}<={cp}", f"{cp}>={nparts}")
        if not found_none:
            self.fail("R-C03-4", tail[0] if tail else self.loop, f"the '{cp} is None' / requested-count case split is missing")
        elif not (found_gt and found_lt):
            self.fail("R-C03-4", tail[0] if tail else self.loop,
                      f"the case split {nparts} > {cp} (truncate) / {nparts} < {cp} (pad) is incomplete: the output does not "
                      "always have the requested number of partitions")

    def _pad_ok(self, body, lst, cp):
        n_name = None
        for b in body:
            if isinstance(b, ast.Assign) and isinstance(b.targets[0], ast.Name):
                v = unparse(b.value).replace(" ", "")
                if v in (f"{cp}-len({lst})", f"{cp}-{self.nparts}"):
                    n_name = b.targets[0].id
            if isinstance(b, ast.For) and isinstance(b.iter, ast.Call) and call_name(b.iter) == "range" and len(b.iter.args) == 1:
                a = unparse(b.iter.args[0]).replace(" ", "")
                if a == n_name or a in (f"{cp}-len({lst})", f"{cp}-{self.nparts}"):
                    apps = [x for x in b.body if isinstance(x, ast.Expr) and isinstance(x.value, ast.Call) and
                            isinstance(x.value.func, ast.Attribute) and x.value.func.attr == "append" and unparse(x.value.func.value) == lst]
                    if len(apps) == 1 and len(b.body) == 1:
                        arg = apps[0].value.args[0]
                        if self._is_zeros(arg, body):
                            return True
        return False

    def accumulator_inits(self):
        """R-C03-2: array accumulators start as zeros OF THE SPECTRUM'S OWN dtype and shape."""
        names = {a.split("[")[0] for a in getattr(self, "accs", set())}
        for s_ in self.body:
            for n in ast.walk(s_):
                if not (isinstance(n, ast.Assign) and len(n.targets) == 1 and isinstance(n.targets[0], ast.Name) and n.targets[0].id in names):
                    continue
                vals = [n.value]
                if isinstance(n.value, (ast.List, ast.ListComp)):
                    vals = list(n.value.elts) if isinstance(n.value, ast.List) else [n.value.elt]
                    if isinstance(n.value, ast.List) and not n.value.elts:
                        # E0 stores `L = [z for ..]` as `L = []` + a loop of L.append(z): the initial elements are the appended ones
                        # (only the loop that directly follows the empty-list statement: later appends are the zero PADDING, checked elsewhere)
                        par = getattr(n, "_parent", None)
                        sibs = getattr(par, "body", []) if par is not None else []
                        if n in sibs and sibs.index(n) + 1 < len(sibs) and isinstance(sibs[sibs.index(n) + 1], ast.For):
                            for c_ in ast.walk(sibs[sibs.index(n) + 1]):
                                if isinstance(c_, ast.Call) and isinstance(c_.func, ast.Attribute) and c_.func.attr == "append" and \
                                        unparse(c_.func.value) == n.targets[0].id and c_.args:
                                    vals.append(c_.args[0])
                for v in vals:
                    if not isinstance(v, ast.Call):
                        continue
                    cn = call_name(v).split(".")[-1]
                    if cn not in ("zeros_like", "zeros", "empty", "empty_like", "full", "full_like", "ones_like", "ones"):
                        continue
                    dt = kwarg(v, "dtype")
                    arg0 = unparse(v.args[0]) if v.args else ""
                    same_dtype = dt is None or unparse(dt).replace(" ", "") == f"{self.spectrum}.dtype"
                    if cn == "zeros_like" and arg0 == self.spectrum and same_dtype:
                        self.ok("R-C03-2", n, unparse(n)[:90], "zeros of the input spectrum's own shape and dtype")
                    elif cn == "zeros" and arg0 == f"{self.spectrum}.shape" and dt is not None and same_dtype:
                        self.ok("R-C03-2", n, unparse(n)[:90], "zeros of the input spectrum's own shape and dtype")
                    else:
                        self.fail("R-C03-2", n, f"the accumulator must start as zeros with the shape AND dtype of '{self.spectrum}' "
                                                f"(np.zeros_like({self.spectrum})): with another dtype the '+=' of original bins rounds them, so a "
                                                "returned bin is neither the original density nor zero")

    def unused_params(self):
        """R-C03-5: every physical input of the kernel takes part in the result (a depth / wind argument that is accepted but
        never read silently turns the wind-sea test into the deep-water / no-wind one)."""
        used = {n.id for n in ast.walk(self.fi.node) if isinstance(n, ast.Name) and isinstance(n.ctx, ast.Load)}
        for p_ in self.fi.params:
            if p_ in used:
                continue
            self.rep.fail("R-C03-5", self.file, self.fi.node.lineno, self.fi.qualname, f"parameter '{p_}' of {self.name} is never read",
                          f"'{p_}' is accepted but has no influence on the partitions: the wind-sea / wave-age test no longer depends on it",
                          anchor=f"unused-parameter:{self.name}.{p_}")
        self.ok("R-C03-5", self.fi.node, f"{len(self.fi.params)} parameters", "every parameter is read")

    def _is_zeros(self, e, scope):
        if isinstance(e, ast.Call) and call_name(e) in ("np.zeros_like", "numpy.zeros_like"):
            return True
        if isinstance(e, ast.Name):
            for s in list(scope) + list(self.body):
                for n in ast.walk(s):
                    if isinstance(n, ast.Assign) and isinstance(n.targets[0], ast.Name) and n.targets[0].id == e.id:
                        return isinstance(n.value, ast.Call) and call_name(n.value) in ("np.zeros_like", "numpy.zeros_like")
        return False

    def _return(self, ret, lst, tail):
        from ..astutil import resolve
        v = ret.value
        if isinstance(v, ast.Name) and v.id != lst:
            v = resolve(self.fi.node, v, before=ret.lineno + 1)
        if isinstance(v, ast.Call) and call_name(v) in ("np.array", "numpy.array") and v.args:
            v = v.args[0]
        # collect local aliases like wsea_partitions = [a, b]
        def resolve(e):
            if isinstance(e, ast.Name) and e.id != lst:
                for s in tail:
                    if isinstance(s, ast.Assign) and isinstance(s.targets[0], ast.Name) and s.targets[0].id == e.id:
                        return s.value
            return e
        parts = []
        def flatten(e):
            e = resolve(e)
            if isinstance(e, ast.BinOp) and isinstance(e.op, ast.Add):
                flatten(e.left)
                flatten(e.right)
            else:
                parts.append(e)
        flatten(v)
        lead = 0
        seen_list = False
        for p in parts:
            if isinstance(p, ast.List):
                if seen_list:
                    self.fail("R-C03-3", ret, "fixed (wind-sea) partitions must come BEFORE the swells")
                lead += len(p.elts)
                for el in p.elts:
                    if not (isinstance(el, ast.Name) and any(el.id == a.split("[")[0] for a in self.accs)):
                        self.fail("R-C03-2", ret, f"returned partition '{unparse(el)}' is not one of the accumulators filled in the loop")
            elif isinstance(p, ast.Name) and p.id == lst:
                seen_list = True
            else:
                self.fail("R-C03-2", ret, f"unexpected component '{unparse(p)[:40]}' in the returned stack")
        if not seen_list:
            self.fail("R-C03-3", ret, f"the sorted list '{lst}' is not what is returned")
        if lead != self.nfixed:
            self.fail("R-C03-4", ret, f"{lead} leading fixed partitions returned, {self.nfixed} expected for {self.name}")
        else:
            self.ok("R-C03-4", ret, unparse(ret)[:100], f"{lead} wind-sea partition(s) first, then the sorted swells")
        self.lead = lead

    def windsea_test(self):
        """R-C03-5: wsfrac = part[mask].sum() / part.sum() > wscut ; mask = wind component > celerity."""
        if self.name == "np_ptm3":
            return
        found = False
        failed_candidate = False
        for s in self.loop.body:
            if isinstance(s, ast.Assign) and isinstance(s.value, ast.BinOp) and isinstance(s.value.op, ast.Div):
                num, den = unparse(s.value.left).replace(" ", ""), unparse(s.value.right).replace(" ", "")
                p = self.part_name
                m = None
                l = s.value.left
                if isinstance(l, ast.Call) and isinstance(l.func, ast.Attribute) and l.func.attr == "sum" and isinstance(l.func.value, ast.Subscript) \
                        and unparse(l.func.value.value) == p:
                    m = unparse(l.func.value.slice)
                if m is not None and den == f"{p}.sum()":
                    found = True
                    self.wsfrac, self.wsmask = s.targets[0].id, m
                    self.ok("R-C03-5", s, unparse(s)[:80], "wind-sea fraction = energy under the wind-sea mask / energy of the part")
                else:
                    failed_candidate = True
                    self.fail("R-C03-5", s, "the wind-sea fraction must be (energy of the part under the wind-sea mask) / (energy of the part): the "
                                            f"returned partition is '{p}', so a fraction taken from any other array classifies a different spectrum")
        if not found and not self.hp and not failed_candidate:
            raise AnalysisError(f"{self.name}: wsfrac not found")
        for s in self.loop.body:
            if isinstance(s, ast.If) and found and self.wsfrac in unparse(s.test):
                t = unparse(s.test).replace(" ", "")
                cut = self.fi.params[self.fi.params.index("wscut")] if "wscut" in self.fi.params else "wscut"
                if t not in (f"{self.wsfrac}>{cut}", f"{cut}<{self.wsfrac}"):
                    self.fail("R-C03-5", s, f"a part joins the wind sea when its wind-sea fraction EXCEEDS the cutoff ('{self.wsfrac} > {cut}'), found '{unparse(s.test)}'")
                else:
                    first = s.body[0] if s.body else None
                    self.ok("R-C03-5", s, f"if {unparse(s.test)}", "strictly exceeds the cutoff -> wind sea")
        # mask orientation: up > celerity
        if not self.hp and found:
            for s in self.body:
                if isinstance(s, ast.Assign) and isinstance(s.targets[0], ast.Name) and s.targets[0].id == self.wsmask:
                    v = s.value
                    if isinstance(v, ast.Compare) and len(v.ops) == 1:
                        l, r = unparse(v.left), unparse(v.comparators[0])
                        lcel, rcel = "celerity" in l, "celerity" in r
                        op = type(v.ops[0])
                        good = (rcel and not lcel and op in (ast.Gt, ast.GtE)) or (lcel and not rcel and op in (ast.Lt, ast.LtE))
                        if good:
                            self.ok("R-C03-5", s, unparse(s)[:90], "wind component along the bin exceeds its celerity")
                        else:
                            self.fail("R-C03-5", s, "wind-sea bins are those whose celerity is below the wind component (agefac*wspd*cos) along their direction")


def wrapper_sizes(repo, rep, kernels_lead):
    """R-C03-4 (b): output_sizes['part'] of each wrapper == fixed leading partitions + requested count."""
    n = 0
    for s in sites(repo):
        ks = [k for k in s.kernels() if k.module.name == MOD]
        if not ks:
            continue
        n += 1
        osz = s.gufunc_item("output_sizes")
        if osz is None:
            rep.fail("R-C03-4", s.fi.file, s.line, s.fi.qualname, "dask_gufunc_kwargs", "output_sizes for the new 'part' dimension is missing")
            continue
        part = None
        if isinstance(osz, ast.Dict):
            for k, v in zip(osz.keys, osz.values):
                if repo.const(s.module, k) == "part":
                    part = v
        if part is None:
            raise AnalysisError(f"output_sizes at {s.where} not a literal dict with 'part'")
        for kf in ks:
            lead = kernels_lead.get(kf.name)
            if lead is None:
                continue
            cp = "parts" if kf.name == "np_ptm3" else "swells"
            want = cp if lead == 0 else f"{cp}+{lead}"
            got = unparse(part).replace(" ", "")
            alt = f"{lead}+{cp}"
            if got in (want, alt):
                rep.ok("R-C03-4", s.where, f"output_sizes part = {unparse(part)}", f"== {lead} fixed + requested count, as returned by {kf.name}")
            else:
                rep.fail("R-C03-4", s.fi.file, s.line, s.fi.qualname, f"output_sizes={{'part': {unparse(part)}}} for kernel {kf.name}",
                         f"the kernel returns {want} partitions on every path; a different declared size gives dask-backed results "
                         "another number of partitions than in-memory ones")
        # the count argument passed to the kernel must be the same name
        # positional binding of the two spectra: kernel(spectrum, spectrum_smooth, ...) <- (self.dset, <smoothed or the same>)
        for kf in ks:
            if kf.name not in kernels_lead or len(kf.params) < 2 or "smooth" not in kf.params[1]:
                continue
            call = s.call
            if len(call.args) < 3:
                continue
            a0, a1 = call.args[1], call.args[2]
            from ..astutil import assignments
            raw_ok = unparse(a0) in ("self.dset", "self._obj")
            sm_ok = unparse(a1) in ("self.dset", "self._obj")
            if isinstance(a1, ast.Name):
                vals = [x.value for x in assignments(s.fi.node, a1.id)]
                sm_ok = bool(vals) and all(unparse(v) in ("self.dset", "self._obj") or
                                           any(isinstance(c_, ast.Call) and call_name(c_).split(".")[-1] in ("smooth_spec", "smooth") for c_ in ast.walk(v)) for v in vals) \
                    and any(any(isinstance(c_, ast.Call) and call_name(c_).split(".")[-1] in ("smooth_spec", "smooth") for c_ in ast.walk(v)) for v in vals)
            if raw_ok and sm_ok:
                rep.ok("R-C03-2", s.where, f"{kf.name}({unparse(a0)}, {unparse(a1)}, ...)", "values from the raw spectrum, boundaries from the smoothed one")
            else:
                rep.fail("R-C03-2", s.fi.file, s.line, s.fi.qualname, f"{kf.name}({unparse(a0)}, {unparse(a1)}, ...)",
                         f"the kernel's first argument '{kf.params[0]}' supplies the returned values and must be the raw spectrum (self.dset); the "
                         f"second '{kf.params[1]}' only defines the boundaries: swapped, the partitions hold smoothed values, not the original density",
                         anchor=f"wrapper-binding:{s.fi.name}")
    rep.floor("R-C03-4", "partition apply_ufunc wrappers", n, 4)


def run(repo, rep, tier):
    rep.rule("R-C03-v1", "no partition list is rebuilt through a dict keyed by a computed statistic (equal keys collide: a basin found by the watershed would be dropped)")
    from .round7b import float_keyed_collections
    float_keyed_collections(repo, rep, "R-C03-v1", ("wavespectra.partition.",))
    from .round7b import hygiene
    hygiene(repo, rep, "C03", ('wavespectra.partition.',), falsy=True)
    rep.rule("R-C03-10", "(shared with C16) the smoothed spectrum handed to the watershed has no NaN rows: smooth_spec fills the window's edge NaN from the input "
                         "on every path (a NaN bin is owned by no partition: energy is lost)")
    from .round7 import unconditional_boundary_fill
    unconditional_boundary_fill(repo, rep, "R-C03-10")
    rep.rule("R-C03-9", "(shared with C01) the wind-sea classification of PTM1 / PTM2 compares the wind with the celerity AT THE GIVEN DEPTH: the wavenumber polynomial behind it sums every coefficient with its own power")
    from .shared import wavenumber_polynomial
    wavenumber_polynomial(repo, rep, "R-C03-9")
    rep.rule("R-C03-1", "each watershed part np.where(map == label, spectrum, 0) is consumed exactly once on every path of the "
                        "loop body: added whole to one output, or as a complementary pair of masked halves")
    rep.rule("R-C03-2", "partition arrays hold only original energy or zero: value operand is the unsmoothed spectrum, the map "
                        "comes from the smoothed one, accumulators start at zero and only receive '+=' of parts")
    rep.rule("R-C03-3", "sort key = negated npstats.hs of the very partitions returned; pure permutation; truncation and "
                        "zero padding after the sort; wind sea first")
    rep.rule("R-C03-4", "exactly the requested count: identity test for None, strict >/< case split with [:n] and n-len zero "
                        "appends; wrapper output_sizes == fixed + requested")
    rep.rule("R-C03-5", "wind-sea fraction = masked energy / part energy, compared '>' with wscut; mask = wind component > celerity")
    lead = {}
    todo = dict(KERNELS)
    if tier == "thorough":
        pass
    for name, nfixed in todo.items():
        k = Kernel(repo, rep, name, nfixed)
        k.find_map()
        k.find_loop()
        k.analyse_loop()
        k.windsea_test()
        k.accumulator_inits()
        k.unused_params()
        k.order_and_count("parts" if name == "np_ptm3" else "swells")
        lead[name] = nfixed
    lead.update(HP01)
    wrapper_sizes(repo, rep, lead)
    rep.rule("R-C03-7", "(shared with C04) the native routine leaves no watershed-line (label 0) bin unassigned before it "
                        "returns early from the reassignment sweeps: label-0 bins belong to no partition and their energy "
                        "would be lost")
    from .c04 import sweeps
    sweeps(repo, rep, "R-C03-7")
    from .shared import contiguity
    rep.rule("R-C03-6", "(shared) the C routine receives a C-contiguous float32 array")
    contiguity(repo, rep, "R-C03-6")
    rep.analysed["kernels"] = list(todo)
    rep.trust("Python ast; numpy semantics of where/argsort/zeros_like")
    rep.note("not decided: that the masks equal the true basins (C04), dtype rounding of the returned float32, ordering of "
             "numerically equal partitions; np_hp01* merging logic (experimental) beyond the wrapper size agreement")
    return ("Static: path enumeration through each kernel's partition loop proves linear (exactly-once) consumption of the "
            "disjoint watershed parts and original-or-zero values; structural checks of sort key, permutation, truncation / "
            "padding case split and return layout; sibling agreement between each apply_ufunc wrapper's declared part size "
            "and what its kernel returns.")
