"""C07 - dask: any chunking, any scheduler.  Rules R-C07-1 (single-chunk core dims), R-C07-2 (GIL)."""
import ast
import os

from ..cast import CFile, ex, show
from ..cfg import ENTRY
from ..model import UNKNOWN, call_name, kwarg, unparse
from ..report import AnalysisError
from ..ufunc import sites

SPECPART_C = "wavespectra/partition/specpart/specpart.c"
WRAP_C = "wavespectra/partition/specpart/specpart_wrap.c"

# methods that keep the chunking of dimensions they do not name
_PRESERVING = {"astype", "where", "fillna", "rename", "transpose", "drop_vars", "squeeze", "expand_dims",
               "isel", "sel", "assign_coords", "copy", "pipe", "round", "clip", "persist"}
_GIL_RELEASE = {"PyEval_SaveThread", "PyEval_ReleaseThread", "PyGILState_Release", "PyEval_ReleaseLock",
                "PyThread_start_new_thread", "PyEval_RestoreThread", "PyGILState_Ensure"}


def _chunk_covers(repo, site, call, dim):
    """Does this `.chunk(...)` call force a single chunk along `dim`?"""
    mod = site.module
    spec = None
    if call.args:
        spec = repo.const(mod, call.args[0])
        if spec is UNKNOWN and isinstance(call.args[0], ast.Name):
            node = site.cfg.node(call)
            defs = site.rd.at(node, call.args[0].id)
            vals = []
            for d in defs:
                st = site.cfg.stmt.get(d)
                if d != ENTRY and isinstance(st, ast.Assign):
                    vals.append(repo.const(mod, st.value))
                else:
                    vals.append(UNKNOWN)
            # every reaching dict literal must cover the dim (later .update() calls only add keys)
            if vals and all(isinstance(v, dict) and v.get(dim) == -1 for v in vals):
                return True
        if isinstance(spec, int) and spec == -1:
            return True
    d = {}
    if isinstance(spec, dict):
        d.update(spec)
    for k in call.keywords:
        if k.arg is None:
            v = repo.const(mod, k.value)
            if isinstance(v, dict):
                d.update(v)
            elif isinstance(k.value, ast.Dict):
                for kk, vv in zip(k.value.keys, k.value.values):
                    kc = repo.const(mod, kk) if kk is not None else UNKNOWN
                    if kc is not UNKNOWN:
                        d[kc] = _size_or_const(repo, mod, vv, kc)
        else:
            d[k.arg] = _size_or_const(repo, mod, k.value, k.arg)
    if call.args and isinstance(call.args[0], ast.Dict):
        for kk, vv in zip(call.args[0].keys, call.args[0].values):
            kc = repo.const(mod, kk) if kk is not None else UNKNOWN
            if kc is not UNKNOWN:
                d[kc] = _size_or_const(repo, mod, vv, kc)
    return d.get(dim) == -1


def _size_or_const(repo, mod, v, dim):
    c = repo.const(mod, v)
    if c is not UNKNOWN:
        return c
    # chunk({d: x.sizes[d]}) / len(x[d]) / x[d].size : a whole-dimension chunk
    txt = unparse(v)
    if ".sizes[" in txt or txt.startswith("len(") or txt.endswith(".size"):
        for n in ast.walk(v):
            if isinstance(n, (ast.Subscript,)) and repo.const(mod, n.slice) == dim:
                return -1
            if isinstance(n, ast.Attribute) and n.attr == dim:
                return -1
    return UNKNOWN


def _is_coord_access(repo, mod, e, dim):
    """X[<dim>] / X.<dim> / X.coords[<dim>] (dimension coordinates are index-backed, never dask)."""
    if isinstance(e, ast.Subscript):
        return repo.const(mod, e.slice) == dim
    if isinstance(e, ast.Attribute):
        return e.attr == dim
    return False


def guarded(repo, site, e, dim, at_stmt, depth=0, seen=None):
    """True iff the value of `e` is single-chunk along `dim` on every path reaching the call,
    by one of the accepted idioms.  Returns (ok, why)."""
    mod = site.module
    seen = seen or set()
    if depth > 12:
        return False, "derivation too deep"
    if _is_coord_access(repo, mod, e, dim):
        return True, f"dimension coordinate '{dim}' (index-backed, in memory)"
    if isinstance(e, ast.Call) and isinstance(e.func, ast.Attribute):
        m, recv = e.func.attr, e.func.value
        if m == "chunk":
            if _chunk_covers(repo, site, e, dim):
                return True, f"{unparse(e)} forces one chunk along '{dim}'"
            return False, f"{unparse(e)} does not force a single chunk along '{dim}' (xarray: None/absent = leave as is)"
        if m in ("load", "compute", "values"):
            return True, "loaded into memory"
        if isinstance(recv, ast.Attribute) and recv.attr == "spec":
            # accessor method of a derived object: statistics keep chunking of dims they do not reduce
            return guarded(repo, site, recv.value, dim, at_stmt, depth + 1, seen)
        if m in _PRESERVING or m in ("sum", "mean", "max", "min", "argmax", "cumsum", "diff", "sortby"):
            return guarded(repo, site, recv, dim, at_stmt, depth + 1, seen)
        return guarded(repo, site, recv, dim, at_stmt, depth + 1, seen)
    if isinstance(e, ast.Attribute):
        if e.attr in ("values", "data") :
            return guarded(repo, site, e.value, dim, at_stmt, depth + 1, seen)
        return guarded(repo, site, e.value, dim, at_stmt, depth + 1, seen)
    if isinstance(e, ast.Subscript):
        return guarded(repo, site, e.value, dim, at_stmt, depth + 1, seen)
    if isinstance(e, ast.BinOp):
        a = guarded(repo, site, e.left, dim, at_stmt, depth + 1, seen)
        b = guarded(repo, site, e.right, dim, at_stmt, depth + 1, seen)
        # a constant operand does not carry chunks
        if repo.const(mod, e.left) is not UNKNOWN:
            return b
        if repo.const(mod, e.right) is not UNKNOWN:
            return a
        return (a[0] and b[0], a[1] if not a[0] else b[1])
    if isinstance(e, ast.Name):
        node = site.cfg.node(at_stmt)
        defs = site.rd.at(node, e.id)
        key = (e.id, node)
        if key in seen:
            return True, "loop"
        seen = seen | {key}
        if not defs:
            return False, f"'{e.id}' has no definition"
        why = ""
        for d in defs:
            if d == ENTRY:
                return False, f"'{e.id}' reaches the call as received from the caller (may be chunked along '{dim}')"
            st = site.cfg.stmt[d]
            if isinstance(st, ast.Assign):
                val = st.value
                ok, why = guarded(repo, site, val, dim, st, depth + 1, seen)
                if not ok:
                    return False, why
            else:
                return False, f"'{e.id}' bound by unsupported statement {type(st).__name__}"
        return True, why
    return False, f"unrecognised expression {unparse(e)}"


def _reachable(repo, eng, roots):
    """Functions reachable from the given qualnames through resolved internal calls (names resolved by the repository model)."""
    import ast as _ast
    seen, todo = set(roots), list(roots)
    while todo:
        q = todo.pop()
        fi = eng.funcs.get(q)
        if fi is None:
            continue
        for n in _ast.walk(fi.node):
            if isinstance(n, _ast.Call):
                tgt = None
                if isinstance(n.func, _ast.Name):
                    tgt = repo.resolve_symbol(fi.module, n.func.id)
                elif isinstance(n.func, _ast.Attribute) and isinstance(n.func.value, _ast.Name):
                    tgt = repo.resolve_expr(fi.module, n.func) if hasattr(repo, "resolve_expr") else None
                q2 = getattr(tgt, "qualname", None)
                if q2 and q2 not in seen and q2 in eng.funcs:
                    seen.add(q2)
                    todo.append(q2)
    return seen


_PROCESS_WIDE_CM = ("warnings.catch_warnings", "catch_warnings", "np.printoptions", "numpy.printoptions", "xr.set_options", "xarray.set_options",
                    "decimal.localcontext", "contextlib.redirect_stdout", "contextlib.redirect_stderr")
_PROCESS_WIDE_SET = ("warnings.filterwarnings", "warnings.simplefilter", "warnings.resetwarnings", "np.seterr", "numpy.seterr", "np.seterrcall",
                     "np.set_printoptions", "os.chdir", "os.environ.update", "locale.setlocale", "np.random.seed", "random.seed")


def process_wide_settings_in_kernels(repo, rep, eng, reach, rule):
    """Kernels of apply_ufunc(dask='parallelized') run concurrently under the threaded scheduler.  `warnings.catch_warnings()` (and the other
    save / set / restore context managers of process-wide settings) is not thread-safe: thread A saves the filters, B saves A's modified
    filters, A restores, B restores A's MODIFIED filters - the temporary setting (e.g. 'error') leaks into the whole process for good.
    Accepted: the context manager entered while holding a module-level lock (`with _LOCK, warnings.catch_warnings():`)."""
    rep.rule(rule, "no function that runs inside a dask task changes a process-wide setting (warning filters, print options, numpy error callbacks) - "
                   "not even through its save / restore context manager - unless a module-level lock serialises it: the restore of one thread "
                   "reinstates what another thread had temporarily set")

    def is_lock(e, fi):
        if isinstance(e, ast.Name):
            for a in fi.module.tree.body:
                if isinstance(a, ast.Assign) and any(isinstance(t, ast.Name) and t.id == e.id for t in a.targets) and isinstance(a.value, ast.Call) \
                        and (call_name(a.value) or "").split(".")[-1] in ("Lock", "RLock"):
                    return True
        return False
    n = 0
    for q in sorted(reach):
        fi = eng.funcs.get(q)
        if fi is None:
            continue
        for w in ast.walk(fi.node):
            if isinstance(w, ast.With):
                names = [(call_name(it.context_expr) or "") if isinstance(it.context_expr, ast.Call) else "" for it in w.items]
                hit = [nm for nm in names if nm in _PROCESS_WIDE_CM]
                if not hit:
                    continue
                n += 1
                locked = any(is_lock(it.context_expr, fi) for it in w.items)
                p = getattr(w, "_parent", None)
                while p is not None and not locked:
                    if isinstance(p, ast.With) and any(is_lock(it.context_expr, fi) for it in p.items):
                        locked = True
                    p = getattr(p, "_parent", None)
                if locked:
                    rep.ok(rule, f"{fi.file}:{w.lineno} {fi.short}", f"with <lock>, {hit[0]}()", "serialised by a module-level lock")
                else:
                    rep.fail(rule, fi.file, w.lineno, fi.qualname, f"with {hit[0]}(): ...",
                             f"{fi.short} runs inside dask tasks and enters {hit[0]}(), which saves and restores PROCESS-WIDE state without any lock: with "
                             "several worker threads the restores interleave and the temporary setting (warnings turned into errors) stays switched on "
                             "for the whole process - later statistics that merely warn then raise, and results depend on the scheduler",
                             anchor=f"process-wide-setting:{fi.short}:{hit[0]}")
            if isinstance(w, ast.Call) and (call_name(w) or "") in _PROCESS_WIDE_SET:
                p = getattr(w, "_parent", None)
                inside = False
                while p is not None:
                    if isinstance(p, ast.With) and any(isinstance(it.context_expr, ast.Call) and (call_name(it.context_expr) or "") in _PROCESS_WIDE_CM for it in p.items):
                        inside = True
                    p = getattr(p, "_parent", None)
                if not inside:
                    n += 1
                    rep.fail(rule, fi.file, w.lineno, fi.qualname, unparse(w)[:90],
                             f"{fi.short} runs inside dask tasks and changes a process-wide setting without restoring it")
    rep.ok(rule, "package", f"{len(reach)} functions reachable from kernels, {n} uses of process-wide settings", "examined")
    return n


def kernel_reach(repo, eng):
    """Qualnames of every function that can run inside a dask task (kernels of apply_ufunc sites and what they call)."""
    seen = set()
    for s_ in sites(repo):
        for kf in s_.kernels():
            seen.add(kf.qualname)
    return _reachable(repo, eng, seen)


def core_dim_chunks(repo, rep, rule="R-C07-1"):
    all_sites = sites(repo)
    par = [s for s in all_sites if s.dask == "parallelized"]
    rep.analysed.update({"modules": len(repo.modules), "apply_ufunc_sites": len(all_sites),
                         "parallelized_sites": len(par)})
    rep.floor(rule, "apply_ufunc sites with dask='parallelized'", len(par), 10)
    nargs = 0
    for s in all_sites:
        if s.dask is UNKNOWN:
            raise AnalysisError(f"{rule}: dask= option at {s.where} is not a constant")
        if s.dask not in ("parallelized",):
            # dask='forbidden'/'allowed': dask input raises / is passed to numpy code -> property broken for dask data
            rep.fail(rule, s.fi.file, s.line, s.fi.qualname, unparse(s.call)[:120],
                     f"apply_ufunc with dask={s.dask!r}: dask-backed input is rejected or handed to numpy kernels")
            continue
        icd = s.input_core_dims
        if icd is UNKNOWN or not isinstance(icd, list) or len(icd) != len(s.args):
            raise AnalysisError(f"{rule}: input_core_dims at {s.where} not constant or wrong length")
        for arg, dims in zip(s.args, icd):
            if not dims:
                continue
            nargs += 1
            if s.allow_rechunk:
                rep.ok(rule, s.where, f"arg {unparse(arg)} core dims {dims}", "allow_rechunk=True at the site")
                continue
            bad = None
            whys = []
            for d in dims:
                ok, why = guarded(repo, s, arg, d, s.call)
                whys.append(why)
                if not ok:
                    bad = (d, why)
                    break
            if bad:
                rep.fail(rule, s.fi.file, s.line, s.fi.qualname,
                         f"apply_ufunc arg {unparse(arg)} core_dims={dims}",
                         f"core dimension '{bad[0]}' may span several chunks: {bad[1]}")
            else:
                rep.ok(rule, s.where, f"arg {unparse(arg)} core dims {dims}", "; ".join(dict.fromkeys(whys)))
    rep.floor(rule, "arguments with core dimensions", nargs, 25)

    return all_sites


def gil_held(repo, rep, rule):
    """The wrapper never releases the GIL around the native routine (whose work buffers are process-wide statics)."""
    # ---- R-C07-2: GIL ---------------------------------------------------------------
    wrap = CFile(os.path.join(repo.root, WRAP_C), filt="specpart", need_python=True)
    core = CFile(os.path.join(repo.root, SPECPART_C))
    ncalls = 0
    for fname, fn in wrap.funcs.items():
        for n in wrap.walk(fn):
            if n.get("kind") == "CallExpr":
                ncalls += 1
                t = ex(n)
                callee = show(t[1])
                if callee in _GIL_RELEASE:
                    rep.fail(rule, WRAP_C, wrap.line(n), fname, wrap.text(n)[:100],
                             "the wrapper releases / re-acquires the GIL around the native routine, whose work buffers are "
                             "process-wide statics: two dask threads can interleave inside partition()")
            if n.get("kind") == "DeclRefExpr" and n.get("referencedDecl", {}).get("name") in _GIL_RELEASE:
                pass
    # textual macro guard as a second witness (macros vanish in the AST only through expansion, which the rule above sees)
    for tok in ("Py_BEGIN_ALLOW_THREADS", "Py_UNBLOCK_THREADS", "Py_MOD_GIL_NOT_USED", "Py_mod_gil"):
        if tok in _strip_comments(wrap.src):
            rep.fail(rule, WRAP_C, 1 + wrap.src[: wrap.src.index(tok)].count("\n"), "specpart", tok,
                     "GIL released / module declared free-threading safe while the routine uses static work buffers")
    rep.ok(rule, WRAP_C, f"{ncalls} calls in the wrapper", "none releases the GIL; no Py_BEGIN_ALLOW_THREADS / Py_mod_gil")
    return wrap, core


from .cnative import wrapper_state as cnative_wrapper_state


def run(repo, rep, tier):
    rep.rule("R-C07-7", "no result is patched by a store through .values / .data: for dask-backed data the store goes into a temporary and is lost, "
                        "so the lazy result differs from the in-memory one")
    from .shared import lazy_safe_writes
    lazy_safe_writes(repo, rep, "R-C07-7")
    rep.rule("R-C07-1", "at every apply_ufunc(dask='parallelized') each argument with core dimensions is a dimension "
                        "coordinate, or is forced to a single chunk along them (chunk({d: -1}) reaching the call on every "
                        "path), or the site passes allow_rechunk=True")
    rep.rule("R-C07-2", "the native routine cannot be interleaved: the wrapper never releases the GIL and specpart.c calls "
                        "no Python API")
    rep.rule("R-C07-3", "specpart.partition is reached only through kernels of apply_ufunc sites or direct numpy-level calls "
                        "(its result array is freshly allocated per call)")
    all_sites = core_dim_chunks(repo, rep, "R-C07-1")

    # ---- R-C07-4: dask-only metadata agrees with the kernels -------------------------------------------
    rep.rule("R-C07-4", "output_sizes declared for dask (ignored in memory) equals what the kernel returns on every path, so "
                        "lazy and in-memory results have the same shape")
    from .c03 import wrapper_sizes, KERNELS, HP01
    lead = dict(KERNELS)
    lead.update(HP01)
    sub_before = len(rep.findings)
    wrapper_sizes(repo, _Relabel(rep, "R-C07-4"), lead)

    wrap, core = gil_held(repo, rep, "R-C07-2")
    pycalls = 0
    for fname, fn in core.funcs.items():
        for n in core.walk(fn):
            if n.get("kind") == "CallExpr":
                callee = show(ex(n)[1])
                if callee.startswith("Py") or callee.startswith("_Py"):
                    pycalls += 1
                    rep.fail("R-C07-2", SPECPART_C, core.line(n), fname, core.text(n)[:100],
                             "Python API call inside the native routine (may run arbitrary code / release the GIL)")
    rep.ok("R-C07-2", SPECPART_C, f"{len(core.funcs)} functions", "no Python API call in specpart.c")

    # ---- R-C07-5: what runs inside a dask task shares nothing writable with other tasks --------------------
    rep.rule("R-C07-5", "kernels of apply_ufunc sites write no module-level object and no mutable default (tasks of a threaded "
                        "scheduler would share it), and the native wrapper keeps no static Python object / array across calls "
                        "(each call returns a freshly allocated result)")
    from ..effects import Engine
    eng = Engine(repo)
    eng.solve()
    nk = 0
    seenk = set()
    for s_ in all_sites:
        for kf in s_.kernels():
            if kf.qualname in seenk:
                continue
            seenk.add(kf.qualname)
            nk += 1
            sm = eng.summ.get(kf.qualname)
            bad = [e_ for gk, e_ in sm.gsites.items()] if sm else []
            # mutable defaults written anywhere below the kernel are recorded as effects on the OWN parameter of the function that has
            # the default; find them through the call chain by scanning every function reachable is what R-C18-2 does: reuse it
            for e_ in bad:
                if "AttrDict.__getitem__" in e_.func:
                    continue        # insert-on-miss of the attribute table: known finding F-C18-c, idempotent, not per-task data
                rep.fail("R-C07-5", e_.file, e_.line, kf.qualname, e_.construct,
                         f"kernel {kf.short} writes the module-level object {e_.root[2:]} ({e_.what}): concurrent dask tasks share it", list(e_.via))
    # mutable defaults written by functions the kernels reach
    from .c18 import written_mutable_defaults
    reach = _reachable(repo, eng, seenk)
    for fi_, pname, e0 in written_mutable_defaults(repo, eng):
        if fi_.qualname in reach:
            rep.fail("R-C07-5", e0.file, e0.line, fi_.qualname, f"{e0.construct}  [default of '{pname}']",
                     "a mutable default is one object shared by every call, hence by every concurrently running dask task: tasks "
                     "overwrite each other's intermediate data under the threaded scheduler", list(e0.via))
    rep.ok("R-C07-5", "package", f"{nk} kernels, {len(reach)} functions reachable from them", "no write to module-level objects or mutable defaults")
    process_wide_settings_in_kernels(repo, rep, eng, reach, "R-C07-8")
    rep.rule("R-C07-9", "(shared with C17) no computational entry point writes into a buffer it shares with its input: an in-place write through a view "
                        "(`v = x.isel(..); v *= 0`) reaches the input only when the data is held in memory - on dask-backed data the same statement builds a "
                        "new lazy array - so the lazy and the in-memory result differ")
    from .c17 import python_part
    python_part(repo, rep, eng, 0, "R-C07-9", only=lambda fi: fi.module.name.startswith(
        ("wavespectra.core.utils", "wavespectra.core.select", "wavespectra.specarray", "wavespectra.partition.", "wavespectra.core.xrstats")))
    cnative_wrapper_state(wrap, rep, "R-C07-5")
    # threads spawned in C
    for tok in ("pthread_create", "omp parallel", "#pragma omp", "thrd_create"):
        for f in (core, wrap):
            if tok in _strip_comments(f.src):
                rep.fail("R-C07-2", os.path.relpath(f.path, repo.root), 1, "-", tok,
                         "native threads over static work buffers")
    rep.rule("R-C07-6", "(shared with C04) every kernel hands the native routine a C-contiguous float32 copy of its block: the block a dask "
                        "task receives can be a strided view (core dimensions are moved to the end by transposition, chunks may be "
                        "Fortran-ordered), while the routine reads the raw buffer as C-ordered (nk, nth)")
    from .shared import contiguity
    contiguity(repo, rep, "R-C07-6")
    rep.trust("xarray.apply_ufunc semantics for dask='parallelized' (core dims must be single-chunk unless allow_rechunk)")
    rep.trust("CPython: a C extension function runs under the GIL unless it releases it")
    rep.trust("clang 14 parser (JSON AST) for the two C files; Python ast for the package")
    rep.assume("dimension coordinates (freq, dir, time) are index-backed in-memory arrays, as xarray constructs them")
    rep.note("not decided: numerical equality chunked vs in-memory; dask graph correctness; eager .values in writers")
    return ("Static: enumerated every xr.apply_ufunc site (resolved kernel, constant-propagated input_core_dims / dask / "
            "dask_gufunc_kwargs) and proved, by reaching-definitions over the function's CFG, that each argument carrying a "
            "core dimension is single-chunk along it on every path (accepted idioms: chunk({d:-1}), allow_rechunk, dimension "
            "coordinate); clang AST of the wrapper and of specpart.c shows no GIL release and no Python API call, so every "
            "access to the static work buffers is serialised for any scheduler.")


class _Relabel:
    """Report proxy that files shared-rule results under this property's rule id."""

    def __init__(self, rep, rule):
        self._rep, self._rule = rep, rule

    def ok(self, rule, *a, **k):
        return self._rep.ok(self._rule, *a, **k)

    def fail(self, rule, *a, **k):
        return self._rep.fail(self._rule, *a, **k)

    def floor(self, rule, *a, **k):
        return self._rep.floor(self._rule, *a, **k)

    def __getattr__(self, n):
        return getattr(self._rep, n)


def _strip_comments(src):
    import re
    src = re.sub(r"/\*.*?\*/", " ", src, flags=re.S)
    return re.sub(r"//[^\n]*", " ", src)
