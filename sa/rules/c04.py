"""C04 - one connected basin per peak on the circular grid.
R-C04-1 neighbour table == circular 8-neighbourhood for all mk, mth (symbolic, exact);
R-C04-2 layout maps agree; R-C04-3 watershed-line sweeps stop early only when no line pixel is left."""
from ..cast import Poly, ex, poly_of, show, strip
from ..report import AnalysisError
from ..model import UNKNOWN
from . import cnative
from .cnative import SPECPART_C, WRAP_C, conjuncts, counted_loop, for_parts, is_assign, stmts

I, J, MK, MTH = Poly.var("i"), Poly.var("j"), Poly.var("mk"), Poly.var("mth")
ONE = Poly.const(1)


def _atom(t):
    """('i'|'j', 'first'|'last', positive?) for atoms i==0, i!=0, i==mk-1, j==mth-1 ..."""
    if t[0] != "bin" or t[1] not in ("==", "!="):
        return None
    a, b = t[2], t[3]
    if a[0] != "var":
        a, b = b, a
    if a[0] != "var" or a[1] not in ("i", "j"):
        return None
    pb = poly_of(b)
    if pb is None:
        return None
    v = a[1]
    ext = MK if v == "i" else MTH
    if pb == Poly.const(0):
        return (v, "first", t[1] == "==")
    if pb == ext - ONE:
        return (v, "last", t[1] == "==")
    return None


def extract_table(cf, rep):
    body = cf.body("ptnghb")
    loop = None
    for s in stmts(body):
        if s.get("kind") == "ForStmt":
            loop = s
    if loop is None:
        raise AnalysisError("ptnghb: base loop not found")
    cl = counted_loop(cf, loop)
    if cl is None or cl[0] != "n" or poly_of(cl[1]) != Poly.const(0) or cnative.norm(poly_of(cl[2])) != cnative.NSPEC or not cl[3]:
        rep.fail("R-C04-1", SPECPART_C, cf.line(loop), "ptnghb", cf.text(loop)[:60],
                 "the neighbour table is not built for n = 0 .. nspec-1")
    lbody = for_parts(loop)[3]
    # definitions of j, i, k
    defs = {}
    stores, count_store = [], None
    for s in stmts(lbody):
        if is_assign(s):
            lhs, rhs = ex(s["inner"][0]), ex(s["inner"][1])
            if lhs[0] == "var":
                defs[lhs[1]] = rhs
            elif lhs[0] == "idx" and lhs[1] == ("var", "neigh"):
                count_store = (s, lhs[2], rhs)
        elif s.get("kind") == "IfStmt" or (s.get("kind") == "UnaryOperator" and s.get("opcode") == "++"):
            pass        # handled by the path walk below
        else:
            raise AnalysisError(f"ptnghb: unexpected statement {s.get('kind')}")
    # guarded stores, by a walk over the (possibly nested, possibly if/else) structure with the path condition and the number of
    # k++ executed since the previous store on that path:  {k++; neigh[k+9n] = e}  in any arrangement gives inc_before == 1
    def negate(c):
        if c[0] == "bin" and c[1] in ("==", "!="):
            return ("bin", "!=" if c[1] == "==" else "==", c[2], c[3])
        if c[0] == "un" and c[1] == "!":
            return c[2]
        if c[0] == "bin" and c[1] == "&&":
            return ("bin", "||", negate(c[2]), negate(c[3]))        # De Morgan; resolved against the other conjuncts in conj()
        if c[0] == "bin" and c[1] == "||":
            return ("bin", "&&", negate(c[2]), negate(c[3]))
        raise AnalysisError(f"ptnghb: else-branch of a compound condition not understood: {show(c)}")

    def conj(cs):
        # flatten conjunctions; a disjunction (from the else-branch of `if (a && b)`) is resolved when the other conjuncts contradict all
        # but one of its members:  (i == 0 || j == 0) && i != 0   ==   j == 0 && i != 0
        flat = []

        def fl(c):
            if c[0] == "bin" and c[1] == "&&":
                fl(c[2])
                fl(c[3])
            else:
                flat.append(c)
        for c in cs:
            fl(c)
        atoms_ = [c for c in flat if not (c[0] == "bin" and c[1] == "||")]
        for d in [c for c in flat if c[0] == "bin" and c[1] == "||"]:
            members = []

            def fo(c):
                if c[0] == "bin" and c[1] == "||":
                    fo(c[2])
                    fo(c[3])
                else:
                    members.append(c)
            fo(d)
            alive = [m_ for m_ in members if negate(m_) not in atoms_]
            if any(m_ in atoms_ for m_ in members):
                continue                # already implied
            if len(alive) != 1:
                raise AnalysisError(f"ptnghb: guard with an unresolved disjunction: {show(d)}")
            atoms_.append(alive[0])
        out = None
        for c in atoms_:
            out = c if out is None else ("bin", "&&", out, c)
        return out

    def walk(sts, conds, pending):
        for n in sts:
            k_ = n.get("kind")
            t = ex(n) if k_ in ("UnaryOperator", "BinaryOperator", "CompoundAssignOperator") else None
            if t is not None and t[0] == "un" and t[1] in ("++", "++post") and t[2] == ("var", "k"):
                pending += 1
            elif is_assign(n) and ex(n["inner"][0])[0] == "idx" and ex(n["inner"][0])[1] == ("var", "neigh"):
                lhs_, rhs_ = ex(n["inner"][0]), ex(n["inner"][1])
                if not conds:
                    nonlocal_count.append((n, lhs_[2], rhs_))
                else:
                    stores.append({"node": n, "cond": conj(conds), "lhs": lhs_, "rhs": rhs_, "incs": pending, "inc_before": pending, "nst": 1})
                    pending = 0
            elif is_assign(n) and ex(n["inner"][0])[0] == "var":
                pass
            elif k_ == "IfStmt":
                c = ex(n["inner"][0])
                then = n["inner"][1]
                p1 = walk(stmts(then) if then.get("kind") == "CompoundStmt" else [then], conds + [c], pending)
                p2 = pending
                if len(n["inner"]) > 2:
                    els = n["inner"][2]
                    p2 = walk(stmts(els) if els.get("kind") == "CompoundStmt" else [els], conds + [negate(c)], pending)
                elif pending:
                    raise AnalysisError("ptnghb: k++ before a one-sided if: a slot is skipped when the condition is false")
                if p1 != p2 and len(n["inner"]) > 2:
                    raise AnalysisError("ptnghb: branches consume a different number of slots")
                pending = p1 if len(n["inner"]) > 2 else 0 if pending == 0 else pending
            else:
                raise AnalysisError(f"ptnghb: unexpected statement in the neighbour loop: {cf.text(n)[:60]}")
        return pending
    nonlocal_count = []
    stores.clear()
    rest = walk(stmts(lbody), [], 0)
    if rest:
        raise AnalysisError("ptnghb: trailing k++ without a store")
    if nonlocal_count:
        count_store = nonlocal_count[-1]
    # j = n/mk ; i = n - j*mk ; k = -1
    if defs.get("j") != ("bin", "/", ("var", "n"), ("var", "mk")):
        raise AnalysisError("ptnghb: j = n/mk not found")
    if poly_of(defs.get("i", ("other",))) != Poly.var("n") - Poly.var("j") * MK:
        raise AnalysisError("ptnghb: i = n - j*mk not found")
    if poly_of(defs.get("k", ("other",))) != Poly.const(-1):
        raise AnalysisError("ptnghb: k = -1 not found")
    return stores, count_store


def run(repo, rep, tier):
    rep.rule("R-C04-v1", "no partition list is rebuilt through a dict keyed by a computed statistic (equal keys collide: a basin found by the watershed would be dropped)")
    from .round7b import float_keyed_collections
    float_keyed_collections(repo, rep, "R-C04-v1", ("wavespectra.partition.",))
    rep.rule("R-C04-11", "(shared with C07) the wrapper holds the GIL around partition(): the basins are built in process-wide work arrays, two interleaved "
                         "calls mix the levels, the sort table and the label map of different spectra")
    from .c07 import gil_held as _gil
    _gil(repo, rep, "R-C04-11")
    rep.rule("R-C04-12", "the number of levels and the smoothing switches the caller gives reach the watershed: every parameter of Partition.ptm3 / np_ptm3 is read, "
                         "operands of the apply_ufunc call sit in the slots of the kernel parameters they are named after")
    from .shared import unused_parameters as _unused, ufunc_forwarding as _fwd
    _unused(repo, rep, "R-C04-12", ("wavespectra.partition.partition.Partition.ptm3", "wavespectra.partition.partition.np_ptm3"), "watershed entry points")
    _fwd(repo, rep, "R-C04-12", ("wavespectra.partition.partition.Partition.ptm3",))
    rep.rule("R-C04-10", "the level loop of the immersion floods the bins of its level before it can exit: no break / return / continue of the level loop "
                         "precedes steps 1a-1c")
    cnative.level_loop_exits(repo, rep, "R-C04-10")
    rep.rule("R-C04-9", "(shared with C07) the label map returned for one spectrum is not the buffer the next call writes (a held map would follow the next spectrum): no function-static or file-scope object in specpart_wrap.c other than the method / module tables")
    from . import cnative as _cn
    _cn.wrapper_state(_cn.wrap(repo), rep, "R-C04-9")
    rep.rule("R-C04-1", "every guarded store neigh[k+9n] = e decomposes (exact polynomial arithmetic, n = i + mk*j) as "
                        "(i+di) + mk*j' with a legal di and a j' that is j-1, j, j+1 or the circular wrap, in range under "
                        "its guard; for each position class the enabled displacements are exactly the 8-neighbourhood "
                        "with direction circular and frequency not; at most 8 stores per cell; slot 8 holds the count")
    rep.rule("R-C04-2", "copy-in, copy-out, output allocation order and (nk, nth) extraction agree on one layout with the "
                        "direction axis as the wrapping axis")
    rep.rule("R-C04-3", "the watershed-line reassignment sweeps exit early only when no label-0 pixel remains")
    rep.rule("R-C04-6", "every loop over the whole spectrum in specpart.c visits every bin 0 .. nspec-1")
    rep.rule("R-C04-7", "the watershed-line reassignment reads neighbour labels from one array and writes to a snapshot, framed by full copies")
    nsw = cnative.sweep_coverage(repo, rep, "R-C04-6")
    rep.floor("R-C04-6", "whole-spectrum sweeps", nsw, 8)
    rep.rule("R-C04-8", "each decision of the immersion (queue seeding, label propagation, new basins, watershed-line reassignment) "
                        "equals Vincent & Soille's reference transition on every combination of label classes (finite case analysis)")
    ncomb = cnative.immersion_decisions(repo, rep, "R-C04-8")
    rep.floor("R-C04-8", "label-class combinations evaluated", ncomb, 150)
    rep.rule("R-C04-13", "a bin is queued at most once per visit: a fifo_add of the visited bin inside the loop over its neighbours leaves that loop at once (the FIFO "
                         "is a ring of nspec slots)")
    rep.floor("R-C04-13", "fifo_add calls inside neighbour loops", cnative.queue_once_per_visit(repo, rep, "R-C04-13"), 2)
    ndb = cnative.double_buffer(repo, rep, "R-C04-7")
    rep.floor("R-C04-7", "neighbour-label reassignment stores", ndb, 1)
    cf = cnative.core(repo)
    stores, count_store = extract_table(cf, rep)
    rep.floor("R-C04-1", "guarded neighbour stores", len(stores), 12)
    nsub = Poly.var("i") + MK * Poly.var("j")
    table = []
    for st in stores:
        n = st["node"]
        where = f"{SPECPART_C}:{cf.line(n)} ptnghb"
        txt = "if (" + show(st["cond"]) + ") " + cf.text(n)
        # slot index must be k + 9*n with exactly one k++ before it in the block
        pl = poly_of(st["lhs"][2])
        if st["lhs"][1] != ("var", "neigh") or pl != Poly.var("k") + Poly.const(9) * Poly.var("n") or st["inc_before"] != 1 or st["incs"] != 1 or st["nst"] != 1:
            rep.fail("R-C04-1", SPECPART_C, cf.line(n), "ptnghb", txt,
                     "store is not of the form {k++; neigh[k + 9*n] = e;}: slot bookkeeping broken")
            continue
        atoms = []
        bad = False
        for c in conjuncts(st["cond"]):
            a = _atom(c)
            if a is None:
                bad = True
            atoms.append(a)
        if bad:
            raise AnalysisError(f"ptnghb: guard not understood: {show(st['cond'])}")
        p = poly_of(st["rhs"])
        if p is None:
            raise AnalysisError(f"ptnghb: neighbour expression not polynomial: {show(st['rhs'])}")
        p = cnative.norm(p).subst("n", nsub)
        # substitute equalities from the guard
        isub, jsub = I, J
        for (v, which, pos) in atoms:
            if pos:
                val = Poly.const(0) if which == "first" else ((MK if v == "i" else MTH) - ONE)
                if v == "i":
                    isub = val
                else:
                    jsub = val
        p = p.subst("i", isub).subst("j", jsub)
        has = lambda v, w, pos: (v, w, pos) in atoms
        found = None
        for di in (-1, 0, 1):
            ip = isub + Poly.const(di)
            for name, jp, dj, need in (
                ("j-1", jsub - ONE, -1, ("j", "first", False)),
                ("j", jsub, 0, None),
                ("j+1", jsub + ONE, +1, ("j", "last", False)),
                ("wrap to last", MTH - ONE, -1, ("j", "first", True)),
                ("wrap to first", Poly.const(0), +1, ("j", "last", True)),
            ):
                if p == ip + MK * jp:
                    # range obligations under the guard
                    okj = need is None or has(*need)
                    oki = (di == 0) or (di == -1 and has("i", "first", False)) or (di == 1 and has("i", "last", False))
                    if okj and oki:
                        found = (di, dj, name)
                        break
                    if found is None:
                        found = ("oob", di, name, oki, okj)
            if found and found[0] != "oob":
                break
        if found is None:
            rep.fail("R-C04-1", SPECPART_C, cf.line(n), "ptnghb", txt,
                     f"neighbour index {show(st['rhs'])} = {p} is not (i+di) + mk*j' for any adjacent cell")
            continue
        if found[0] == "oob":
            rep.fail("R-C04-1", SPECPART_C, cf.line(n), "ptnghb", txt,
                     f"neighbour (di={found[1]}, j'={found[2]}) is not guaranteed inside the grid under this guard "
                     f"(frequency in range: {found[3]}, direction in range/wrap justified: {found[4]})")
            continue
        di, dj, name = found
        rep.ok("R-C04-1", where, txt, f"= (i{di:+d}) + mk*({name}); displacement ({di:+d},{dj:+d}); in range under the guard")
        table.append((atoms, (di, dj), st))
    # position classes
    classes = 0
    for ifirst in (True, False):
        for ilast in (True, False):
            for jfirst in (True, False):
                for jlast in (True, False):
                    val = {("i", "first"): ifirst, ("i", "last"): ilast, ("j", "first"): jfirst, ("j", "last"): jlast}
                    enabled = [d for atoms, d, st in table if all(val[(v, w)] == pos for v, w, pos in atoms)]
                    classes += 1
                    cname = f"i:{'first' if ifirst else ''}{'last' if ilast else ''}{'' if ifirst or ilast else 'interior'} " \
                            f"j:{'first' if jfirst else ''}{'last' if jlast else ''}{'' if jfirst or jlast else 'interior'}"
                    if len(enabled) > 8:
                        rep.fail("R-C04-1", SPECPART_C, cf.line(stores[0]["node"]), "ptnghb", f"class {cname}",
                                 f"{len(enabled)} stores enabled: slot 8 (the count) is overwritten by a neighbour")
                        continue
                    degenerate = (ifirst and ilast) or (jfirst and jlast)
                    if degenerate:
                        rep.ok("R-C04-1", f"{SPECPART_C} ptnghb class {cname}", f"{len(enabled)} stores enabled (degenerate extent 1)",
                               "count <= 8", nontrivial=False)
                        continue
                    expect = sorted((di, dj) for di in (-1, 0, 1) for dj in (-1, 0, 1)
                                    if (di, dj) != (0, 0) and not (di == -1 and ifirst) and not (di == 1 and ilast))
                    if sorted(enabled) != expect:
                        missing = sorted(set(expect) - set(enabled))
                        extra = sorted(d for d in enabled if enabled.count(d) > 1 or d not in expect)
                        rep.fail("R-C04-1", SPECPART_C, cf.line(stores[0]["node"]), "ptnghb", f"position class {cname}",
                                 f"enabled displacements are not the circular 8-neighbourhood: missing {missing}, "
                                 f"duplicated/illegal {sorted(set(extra))}")
                    else:
                        rep.ok("R-C04-1", f"{SPECPART_C} ptnghb class {cname}", f"{len(enabled)} neighbours",
                               "displacement set == {-1,0,1}^2 minus (0,0), frequency clipped, direction circular")
    # the ORDER of the slots is part of the table: pt_fld's decisions depend on the order in which a bin's neighbours are visited
    # (labels seen as a,b,a vs a,a,b), so every direction row must list its neighbours in the same order of displacements, or a
    # circular shift of the spectrum along the direction axis changes the flooding of the rows next to the seam
    for ifirst, ilast in ((True, False), (False, False), (False, True)):
        seqs = {}
        for jname, (jfirst, jlast) in (("first row", (True, False)), ("interior rows", (False, False)), ("last row", (False, True))):
            val = {("i", "first"): ifirst, ("i", "last"): ilast, ("j", "first"): jfirst, ("j", "last"): jlast}
            seqs[jname] = [d for atoms, d, st in table if all(val[(v, w)] == pos for v, w, pos in atoms)]
        iname = "first" if ifirst else "last" if ilast else "interior"
        ref = seqs["interior rows"]
        diff = [k_ for k_, v_ in seqs.items() if v_ != ref and sorted(v_) == sorted(ref)]
        if diff:
            rep.fail("R-C04-1", SPECPART_C, cf.line(stores[0]["node"]), "ptnghb", f"slot order, frequency column {iname}, direction {diff[0]}",
                     f"neighbours are listed as {seqs[diff[0]]} but as {ref} on the interior rows: the immersion visits a bin's neighbours in slot "
                     "order and its outcome depends on that order, so bins on the seam rows are flooded differently from the same bins after a "
                     "circular shift of the direction axis")
        else:
            rep.ok("R-C04-1", f"{SPECPART_C} ptnghb slot order (i {iname})", f"{len(ref)} displacements in the same order on the first, interior and last direction row",
                   "neighbour visiting order is independent of where the direction axis is cut")
    if count_store is None or poly_of(count_store[1]) != Poly.const(8) + Poly.const(9) * Poly.var("n") or \
            poly_of(count_store[2]) != Poly.var("k") + ONE:
        rep.fail("R-C04-1", SPECPART_C, cf.line(count_store[0]) if count_store else 0, "ptnghb",
                 cf.text(count_store[0]) if count_store else "neigh[8+9*n] = k+1",
                 "slot 8 must receive the number of neighbours k+1")
    else:
        rep.ok("R-C04-1", f"{SPECPART_C}:{cf.line(count_store[0])} ptnghb", cf.text(count_store[0]), "slot 8 = k+1")
    layout(repo, rep, "R-C04-2")
    sweeps(repo, rep, "R-C04-3")
    rep.rule("R-C04-5", "(shared with C18) the neighbour table in use was built for the current grid shape: the shape guard of partinit "
                        "implies both extents are unchanged, and the cached shape / nspec are set before ptnghb()")
    cnative.statics(repo, rep, "R-C04-5")
    rep.rule("R-C04-4", "every Python caller hands the native routine a C-contiguous float32 array (the layout R-C04-2 "
                        "assumes; the wrapper does not check flags)")
    from .shared import contiguity
    contiguity(repo, rep, "R-C04-4")
    rep.analysed.update({"guarded_stores": len(stores), "guard_valuations": classes})
    rep.trust("clang 14 JSON AST; exact integer polynomial arithmetic (sa/cast.Poly), no solver")
    rep.assume("mk >= 1 and mth >= 1 (grid extents)")
    rep.note("not decided (runtime): that immersion yields one label per regional maximum, connectivity of basins, "
             "shift-equivariance of tie-breaking")
    return ("Symbolic proof over the clang AST of ptnghb, for all grid extents: each guarded neighbour store is decomposed "
            "exactly (polynomials in i, j, mk, mth) into a legal cell, and for each of the 16 guard valuations the enabled "
            "displacement multiset equals the circular 8-neighbourhood; plus pairwise agreement of the copy-in / copy-out / "
            "allocation-order / shape-extraction layout facts, and the early-exit condition of the line-pixel sweeps.")


def _loops_of(cf, node):
    out = {}
    for l, cl in cnative.enclosing_loops(cf, node):
        if cl is None:
            return None
        out[cl[0]] = cl
    return out


def layout(repo, rep, rule):
    cf = cnative.core(repo)
    pparams = cf.params("partition")
    if len(pparams) != 5:
        raise AnalysisError("partition() signature changed")
    spec, ipart, nk, nth, _ = pparams
    copyin = copyout = None
    for n in cf.walk(cf.body("partition")):
        if is_assign(n) and n.get("opcode") == "=":
            lhs, rhs = ex(n["inner"][0]), ex(n["inner"][1])
            if lhs[0] == "idx" and lhs[1] == ("var", "zp") and rhs[0] == "idx" and rhs[1] == ("var", spec):
                copyin = (n, lhs[2], rhs[2])
            if lhs[0] == "idx" and lhs[1] == ("var", ipart) and rhs[0] == "idx" and rhs[1] == ("var", "imo"):
                copyout = (n, lhs[2], rhs[2])
    if copyin is None or copyout is None:
        raise AnalysisError("partition(): copy-in / copy-out statements not found")
    F_, D_ = Poly.var("F"), Poly.var("D")     # F = freq index (extent mk), D = direction index (extent mth)

    def roles(node):
        lp = _loops_of(cf, node)
        if lp is None or len(lp) != 2:
            return None
        env = {}
        for v, cl in lp.items():
            hi = poly_of(cl[2])
            if poly_of(cl[1]) != Poly.const(0) or not cl[3]:
                return None
            if hi == MK:
                env[v] = F_
            elif hi == MTH:
                env[v] = D_
            else:
                return None
        return env if len(set(map(repr, env.values()))) == 2 else None

    n, zi, si = copyin
    env = roles(n)
    if env is None:
        rep.fail(rule, SPECPART_C, cf.line(n), "partition", cf.text(n), "copy-in loops do not range over (mk, mth)")
        return
    zpoly, spoly = poly_of(zi, env), poly_of(si, env)
    C_ORDER = F_ * MTH + D_      # C-ordered (nk, nth)
    F_FAST = F_ + MK * D_        # frequency fastest == Fortran order of (nk, nth)
    if spoly != C_ORDER:
        rep.fail(rule, SPECPART_C, cf.line(n), "partition", cf.text(n),
                 f"input is read as {spoly}, not as a C-ordered (nk, nth) array (freq*nth + dir)")
    else:
        rep.ok(rule, f"{SPECPART_C}:{cf.line(n)} partition", cf.text(n), "reads C-ordered (freq, dir)")
    if zpoly != F_FAST:
        rep.fail(rule, SPECPART_C, cf.line(n), "partition", cf.text(n),
                 f"work array index is {zpoly}: ptnghb decomposes n as i + mk*j with i = frequency (clipped) and j = "
                 "direction (circular); any other layout wraps the wrong axis")
    else:
        rep.ok(rule, f"{SPECPART_C}:{cf.line(n)} partition", "zp[freq + mk*dir]", "matches ptnghb's i + mk*j (j circular = direction)")
    n2, oi, ii = copyout
    env2 = roles(n2)
    flat = None
    if env2 is None:
        # a flat copy  for (i = 0; i < nspec; i++) ipart[i] = imo[i]  is the identity on positions: the output has imo's own layout
        lp = _loops_of(cf, n2)
        if lp is not None and len(lp) == 1:
            (v, cl), = lp.items()
            hi = poly_of(cl[2], {"nspec": MK * MTH})
            if poly_of(cl[1]) == Poly.const(0) and cl[3] and hi == MK * MTH and oi == ii == ("var", v):
                flat = True
    if env2 is None and not flat:
        rep.fail(rule, SPECPART_C, cf.line(n2), "partition", cf.text(n2), "copy-out loops do not range over (mk, mth)")
        return
    if flat:
        opoly = ipoly = F_FAST
    else:
        opoly, ipoly = poly_of(oi, env2), poly_of(ii, env2)
    if ipoly != F_FAST:
        rep.fail(rule, SPECPART_C, cf.line(n2), "partition", cf.text(n2), f"labels are read from imo[{ipoly}], not imo[freq + mk*dir]")
    # wrapper
    wf = cnative.wrap(repo)
    fortran = None
    dims = {}
    call = None
    for x in wf.walk(wf.func("specpart")):
        if x.get("kind") == "CallExpr":
            t = ex(x)
            if "PyArray_API" in show(t[1]) and len(t[2]) == 4 and t[2][3][0] == "int":
                fortran = (x, t[2][3][1])
            if show(t[1]) == "partition":
                call = (x, t)
        if is_assign(x):
            lhs = ex(x["inner"][0])
            rhs = ex(x["inner"][1])
            # nk = dims[0] = PyArray_DIMS(specin)[0]
            r = rhs
            while r[0] == "bin" and r[1] == "=":
                r = r[3]
            if lhs[0] == "var" and r[0] == "idx" and r[1][0] == "call" and show(r[1][1]) == "PyArray_DIMS" and r[2][0] == "int":
                dims[lhs[1]] = r[2][1]
    if fortran is None or call is None:
        raise AnalysisError("wrapper: PyArray_ZEROS / partition call not found")
    a = call[1][2]
    if len(a) < 4 or a[2][0] != "var" or a[3][0] != "var" or dims.get(a[2][1]) != 0 or dims.get(a[3][1]) != 1:
        rep.fail(rule, WRAP_C, wf.line(call[0]), "specpart", wf.text(call[0]),
                 "partition() must receive nk = DIMS[0] (freq) and nth = DIMS[1] (dir) in that order")
    else:
        rep.ok(rule, f"{WRAP_C}:{wf.line(call[0])} specpart", wf.text(call[0]), "nk = DIMS[0], nth = DIMS[1]")
    # the scalars handed to partition() are the caller's: written once (parsed / read from the array shape), never adjusted afterwards
    nwrites = {}
    for x in wf.walk(wf.func("specpart")):
        tgt = None
        if is_assign(x):
            l_ = ex(x["inner"][0])
            while l_[0] == "bin" and l_[1] == "=":
                l_ = l_[2]
            if l_[0] == "var":
                tgt = l_[1]
            # chained  nk = dims[0] = ...: the inner assignment is visited on its own
        elif x.get("kind") == "UnaryOperator" and x.get("opcode") in ("++", "--", "&"):
            t_ = ex(x["inner"][0])
            if t_[0] == "var":
                tgt = t_[1]
        elif x.get("kind") == "VarDecl" and x.get("init"):
            tgt = x.get("name")
        if tgt is not None:
            nwrites.setdefault(tgt, []).append(x)
    for arg, what in zip(a[2:5], ("nk", "nth", "ihmax")):
        if arg[0] != "var":
            rep.fail(rule, WRAP_C, wf.line(call[0]), "specpart", wf.text(call[0]), f"partition() must receive the caller's {what} itself, found {show(arg)}")
            continue
        ws = nwrites.get(arg[1], [])
        if len(ws) != 1:
            extra = ws[1] if len(ws) > 1 else call[0]
            rep.fail(rule, WRAP_C, wf.line(extra), "specpart", wf.text(extra)[:100],
                     f"'{arg[1]}' ({what}) is written {len(ws)} times before partition() is called: the routine must receive the grid shape and the "
                     "number of levels the caller asked for (a clamped or adjusted level count discretises the spectrum differently, merging or "
                     "splitting regional maxima)")
        else:
            rep.ok(rule, f"{WRAP_C}:{wf.line(ws[0])} specpart", f"{arg[1]} -> partition({what})", "single definition, forwarded unchanged")
    for fname in ("partition", "pt_fld", "ptsort", "partinit"):
        fn_ = cf.func(fname)
        scal = [c["name"] for c in fn_.get("inner", []) if c.get("kind") == "ParmVarDecl" and "*" not in c.get("type", {}).get("qualType", "")]
        bad_ = None
        for x in cf.walk(fn_):
            t_ = None
            if is_assign(x):
                t_ = ex(x["inner"][0])
            elif x.get("kind") == "UnaryOperator" and x.get("opcode") in ("++", "--"):
                t_ = ex(x["inner"][0])
            if t_ is not None and t_[0] == "var" and t_[1] in scal and bad_ is None:
                bad_ = x
        if bad_ is not None:
            rep.fail(rule, SPECPART_C, cf.line(bad_), fname, cf.text(bad_)[:100],
                     "a scalar argument (grid shape / number of levels) is modified inside the native routine: the discretisation is no longer "
                     "the one requested")
        else:
            rep.ok(rule, f"{SPECPART_C} {fname}", f"scalar parameters {scal}", "never reassigned")
    want = {repr(F_FAST): 1, repr(C_ORDER): 0}
    if repr(opoly) not in want or want[repr(opoly)] != fortran[1]:
        rep.fail(rule, SPECPART_C, cf.line(n2), "partition", cf.text(n2) + f"  /  PyArray_ZEROS(..., fortran={fortran[1]})",
                 f"labels are written at {opoly} but the output array is allocated in "
                 f"{'Fortran' if fortran[1] else 'C'} order: the label map comes back transposed")
    else:
        rep.ok(rule, f"{SPECPART_C}:{cf.line(n2)} + {WRAP_C}:{wf.line(fortran[0])}", f"ipart[{opoly}] with fortran={fortran[1]}",
               "write order matches the allocation order of the returned array")


def sweeps(repo, rep, rule):
    cf = cnative.core(repo)
    found = 0
    for n in cf.walk(cf.body("pt_fld")):
        if n.get("kind") == "IfStmt":
            c = ex(n["inner"][0])
            if c[0] == "bin" and c[2][0] == "call" and show(c[2][1]) == "int_minval" and \
                    any(x.get("kind") == "BreakStmt" for x in cf.walk(n["inner"][1])):
                found += 1
                ok = (c[1] == ">" and c[3] == ("int", 0)) or (c[1] == ">=" and c[3] == ("int", 1))
                if not ok:
                    rep.fail(rule, SPECPART_C, cf.line(n), "pt_fld", "if (" + cf.text(n["inner"][0]) + ") break;",
                             "the sweeps stop while label-0 (watershed line) pixels may remain: those bins belong to no "
                             "partition")
                else:
                    rep.ok(rule, f"{SPECPART_C}:{cf.line(n)} pt_fld", cf.text(n["inner"][0]), "exit only when min label > 0")
    if found == 0:
        rep.ok(rule, f"{SPECPART_C} pt_fld", "no early exit from the sweeps", "all sweeps always run", nontrivial=False)
