"""C19 - partition tracking assigns consistent wave-system identifiers over time."""
import ast

from ..model import UNKNOWN, call_name, kwarg, unparse
from ..report import AnalysisError
from ..ufunc import sites

MOD = "wavespectra.partition.tracking"


def _next_stmt(node):
    p = getattr(node, "_parent", None)
    for f in ("body", "orelse", "finalbody"):
        lst = getattr(p, f, None)
        if isinstance(lst, list) and node in lst:
            i = lst.index(node)
            return lst[i + 1] if i + 1 < len(lst) else None
    return None


def id_sources(repo, rep):
    fi = repo.func(f"{MOD}.np_track_partitions")
    # the id table and the counter
    from ..astutil import returns as _rets
    ret = _rets(fi.node)
    if len(ret) != 1 or not isinstance(ret[0][1], ast.Tuple) or len(ret[0][1].elts) != 2:
        raise AnalysisError("np_track_partitions: return (part_ids, counter) not found")
    table, counter = (unparse(e) for e in ret[0][1].elts)
    # counter: initialised to 0, changed only by += 1
    inits = [n for n in ast.walk(fi.node) if isinstance(n, ast.Assign) and any(unparse(t) == counter for t in n.targets)]
    if len(inits) != 1 or repo.const(fi.module, inits[0].value) != 0:
        for n in inits:
            if repo.const(fi.module, n.value) != 0:
                rep.fail("R-C19-1", fi.file, n.lineno, fi.qualname, unparse(n)[:100],
                         "the identifier counter must start at 0 and only ever be incremented by one per issued identifier "
                         "(identifiers are exactly 0..N-1 and N is the reported count)")
    else:
        rep.ok("R-C19-1", f"{fi.file}:{inits[0].lineno} np_track_partitions", unparse(inits[0]), "counter starts at 0")
    for n in ast.walk(fi.node):
        if isinstance(n, ast.AugAssign) and unparse(n.target) == counter:
            if not (isinstance(n.op, ast.Add) and repo.const(fi.module, n.value) == 1):
                rep.fail("R-C19-1", fi.file, n.lineno, fi.qualname, unparse(n), "the counter may only be incremented by 1")
    stores = []
    for n in ast.walk(fi.node):
        if isinstance(n, (ast.Assign, ast.AugAssign)):
            tgts = n.targets if isinstance(n, ast.Assign) else [n.target]
            for t in tgts:
                if isinstance(t, ast.Subscript) and unparse(t.value) == table:
                    stores.append((n, t))
    if len(stores) < 3:
        raise AnalysisError("np_track_partitions: identifier stores not found")
    for n, t in stores:
        where = f"{fi.file}:{n.lineno} np_track_partitions"
        if isinstance(n, ast.AugAssign):
            rep.fail("R-C19-1", fi.file, n.lineno, fi.qualname, unparse(n)[:120], "identifiers are modified arithmetically")
            continue
        v = n.value
        if unparse(v) == counter:
            nxt = _next_stmt(n)
            if isinstance(nxt, ast.AugAssign) and unparse(nxt.target) == counter:
                # element-wise store (scalar indices), not a vectorised one
                idx = t.slice
                elts = idx.elts if isinstance(idx, ast.Tuple) else [idx]
                if any(isinstance(e, ast.Slice) for e in elts):
                    rep.fail("R-C19-1", fi.file, n.lineno, fi.qualname, unparse(n)[:120], "one fresh identifier is stored into several slots")
                else:
                    rep.ok("R-C19-1", where, unparse(n), "fresh identifier = counter, followed by counter += 1")
            else:
                rep.fail("R-C19-1", fi.file, n.lineno, fi.qualname, unparse(n)[:120],
                         "a fresh identifier is issued without incrementing the counter right after: the same id can be issued twice")
            continue
        # carried identifier: table[table[ip, it], it - 1]
        if isinstance(v, ast.Subscript) and unparse(v.value) == table and isinstance(v.slice, ast.Tuple) and len(v.slice.elts) == 2:
            row, col = v.slice.elts
            from ..astutil import resolve as _res
            if isinstance(row, ast.Name):
                row = _res(fi.node, row, before=n.lineno)      # local_id = part_ids[ip, it]
            tcol = t.slice.elts[1] if isinstance(t.slice, ast.Tuple) and len(t.slice.elts) == 2 else None
            ok = tcol is not None and unparse(col).replace(" ", "") == unparse(tcol).replace(" ", "") + "-1" and \
                unparse(row) == unparse(t)
            if ok:
                rep.ok("R-C19-1", where, unparse(n), "identifier of the matched partition in the previous time step")
            else:
                rep.fail("R-C19-1", fi.file, n.lineno, fi.qualname, unparse(n)[:120],
                         "a carried identifier must be read from the previous column (it - 1) at the row given by this slot's own "
                         "local match")
            continue
        # the local-match table written column by column (the loop form of np.hstack([first column] + [match(..) for it in ..])):
        #   table[:, it:it+1] = match_consecutive_partitions(fp[:, it-1:it+1], ...)     before any identifier is issued
        mv = v
        while isinstance(mv, ast.Call) and isinstance(mv.func, ast.Attribute) and mv.func.attr in ("reshape", "astype") :
            mv = mv.func.value
        if isinstance(mv, ast.Call) and call_name(mv) == "match_consecutive_partitions" and isinstance(t.slice, ast.Tuple) and len(t.slice.elts) == 2 \
                and isinstance(t.slice.elts[1], ast.Slice) and t.slice.elts[1].lower is not None and t.slice.elts[1].upper is not None:
            L = unparse(t.slice.elts[1].lower).replace(" ", "")
            U = unparse(t.slice.elts[1].upper).replace(" ", "")
            cols = {(unparse(e.lower).replace(" ", ""), unparse(e.upper).replace(" ", "")) for a_ in list(mv.args) + [k_.value for k_ in mv.keywords]
                    if isinstance(a_, ast.Subscript) and isinstance(a_.slice, ast.Tuple) for e in a_.slice.elts if isinstance(e, ast.Slice) and e.lower is not None and e.upper is not None}
            first_issue = min([(m_.lineno, m_.col_offset) for m_, _t in stores if unparse(m_.value) == counter] or [(10 ** 9, 0)])
            if U == f"{L}+1" and cols == {(f"{L}-1", f"{L}+1")} and (n.lineno, n.col_offset) < first_issue:
                rep.ok("R-C19-1", where, unparse(n)[:100], "column `it` of the local-match table = matches between columns it-1 and it (built before identifiers are issued)")
                continue
        rep.fail("R-C19-1", fi.file, n.lineno, fi.qualname, unparse(n)[:120],
                 "identifiers may come from two sources only: the running counter (then incremented) or the matched partition of the "
                 "previous step; anything else breaks '0..N-1 in order of first appearance' or uniqueness within a step")
    # three-way branch in the propagation loop
    sent = sentinels(repo, rep)
    return table, counter


def sentinels(repo, rep):
    """-999 (empty) / -888 (unmatched) agree between matcher, propagator and _FillValue."""
    m = repo.func(f"{MOD}.match_consecutive_partitions")
    p = repo.func(f"{MOD}.np_track_partitions")
    t = repo.func(f"{MOD}.track_partitions")
    consts = {}
    for fi in (m, p, t):
        vals = set()
        for n in ast.walk(fi.node):
            if isinstance(n, ast.UnaryOp) and isinstance(n.op, ast.USub) and isinstance(n.operand, ast.Constant) and isinstance(n.operand.value, int):
                if n.operand.value >= 100:
                    vals.add(-n.operand.value)
        consts[fi.name] = vals
    empty = consts[m.name] & consts[p.name] & consts[t.name]
    unmatched = (consts[m.name] & consts[p.name]) - empty
    if len(empty) != 1 or len(unmatched) != 1:
        rep.fail("R-C19-3", m.file, m.node.lineno, m.qualname, f"sentinels matcher={sorted(consts[m.name])} propagator={sorted(consts[p.name])} "
                 f"fill={sorted(consts[t.name])}", "the 'empty' and 'unmatched' markers written by the matcher are not the ones the propagator "
                 "tests for / the _FillValue declares")
        return None
    e, u = next(iter(empty)), next(iter(unmatched))
    # propagator: == unmatched -> new id ; != empty -> carry
    tests = [unparse(n.test).replace(" ", "") for n in ast.walk(p.node) if isinstance(n, ast.If)]
    if not any(x.endswith(f"=={u}") or x.endswith(f"!={u}") for x in tests) or not any(x.endswith(f"!={e}") or x.endswith(f"=={e}") for x in tests):
        rep.fail("R-C19-3", p.file, p.node.lineno, p.qualname, f"tests {tests}", f"propagation must branch on == {u} (new system) and != {e} (carry)")
    else:
        rep.ok("R-C19-3", f"{p.file} np_track_partitions", f"empty={e}, unmatched={u}", "same constants in matcher, propagator and _FillValue")
    return e, u


def availability(repo, rep):
    fi = repo.func(f"{MOD}.match_consecutive_partitions")
    # the availability container
    avail = None
    for n in ast.walk(fi.node):
        if isinstance(n, ast.Assign) and isinstance(n.targets[0], ast.Name) and isinstance(n.value, (ast.ListComp, ast.SetComp, ast.Call)):
            if "isnan" in unparse(n.value) and "[:, 0]" in unparse(n.value).replace("fp[:,0]", "fp[:, 0]"):
                avail = n.targets[0].id
    if avail is None:
        # loop form:  available = [];  for ip, ok in enumerate(~np.isnan(fp[:, 0])): if ok: available.append(ip)
        for n in ast.walk(fi.node):
            if isinstance(n, ast.For) and "isnan" in unparse(n.iter) and "[:, 0]" in unparse(n.iter).replace("[:,0]", "[:, 0]"):
                apps = [c for c in ast.walk(n) if isinstance(c, ast.Call) and isinstance(c.func, ast.Attribute) and c.func.attr in ("append", "add")
                        and isinstance(c.func.value, ast.Name)]
                if apps:
                    avail = apps[0].func.value.id
    if avail is None:
        raise AnalysisError("match_consecutive_partitions: availability list not found")
    loops = [n for n in fi.node.body if isinstance(n, ast.For)]
    if not loops:
        # the loop that marks every current partition exists but is nested under a condition: it is skipped on some inputs
        nested = [n for n in ast.walk(fi.node) if isinstance(n, ast.For) and isinstance(n.target, ast.Tuple)]
        if nested:
            g_ = getattr(nested[-1], "_parent", None)
            rep.fail("R-C19-3", fi.file, nested[-1].lineno, fi.qualname, f"matching loop under `{unparse(g_.test)[:60] if isinstance(g_, ast.If) else '?'}`",
                     "the loop that marks each non-empty current partition as matched / unmatched does not run on every call (an early exit or "
                     "a guard skips it): newly appearing systems keep the 'empty' marker, never receive an identifier and are not counted",
                     anchor="match:early-return")
            return
        raise AnalysisError("match_consecutive_partitions: matching loop not found")
    from ..astutil import returned_names
    mr = returned_names(fi.node)
    if not mr or not all(isinstance(x, ast.Name) for x in mr) or len({x.id for x in mr}) != 1:
        raise AnalysisError("match_consecutive_partitions: returned match table not found")
    mtable = mr[0].id
    # every exit happens after the loop that marks each non-empty current partition as matched / unmatched
    for r_ in ast.walk(fi.node):
        if isinstance(r_, ast.Return) and r_.lineno < loops[-1].lineno:
            rep.fail("R-C19-3", fi.file, r_.lineno, fi.qualname, "return before the matching loop",
                     "an exit before the loop over the current partitions leaves newly appearing systems with the 'empty' marker: they never "
                     "receive an identifier and the reported count omits them", anchor="match:early-return")
    loop = loops[-1]
    cur = loop.target.elts[0].id if isinstance(loop.target, ast.Tuple) else None
    # candidate filter reads availability
    filt = [n for n in ast.walk(loop) if isinstance(n, ast.Compare) and any(isinstance(o, ast.In) for o in n.ops) and unparse(n.comparators[0]) == avail]
    if not filt:
        rep.fail("R-C19-2", fi.file, loop.lineno, fi.qualname, "candidate filter", f"candidates are not restricted to '{avail}': a previous "
                 "partition can be continued by two current partitions")
    else:
        rep.ok("R-C19-2", f"{fi.file}:{filt[0].lineno} match_consecutive_partitions", unparse(filt[0]), "only still-available predecessors are candidates")
    # sorted by distance before taking the first
    srt = [n for n in ast.walk(loop) if isinstance(n, ast.Call) and (call_name(n) == "sorted" or (isinstance(n.func, ast.Attribute) and n.func.attr == "sort"
                                                                                          and isinstance(n.func.value, ast.Name)))]
    if not srt:
        rep.fail("R-C19-2", fi.file, loop.lineno, fi.qualname, "candidate ordering", "candidates are not sorted by distance before the first is taken")
    else:
        k = kwarg(srt[0], "key")
        rev = kwarg(srt[0], "reverse")
        kt = unparse(k) if k is not None else ""
        if not ("x[-1]" in kt or "x[1]" in kt) or (rev is not None and repo.const(fi.module, rev) is True):
            rep.fail("R-C19-2", fi.file, srt[0].lineno, fi.qualname, unparse(srt[0])[:100], "candidates must be ordered by increasing distance")
        else:
            rep.ok("R-C19-2", f"{fi.file}:{srt[0].lineno} match_consecutive_partitions", f"sorted(..., key={kt})", "closest candidate first")
    # match recorded -> same predecessor removed
    recs = []
    for n in ast.walk(loop):
        if isinstance(n, ast.Assign) and isinstance(n.targets[0], ast.Subscript) and unparse(n.targets[0].value) == mtable:
            v = repo.const(fi.module, n.value)
            if v is UNKNOWN:
                recs.append(n)
    if not recs:
        raise AnalysisError("match_consecutive_partitions: match recording not found")
    for r in recs:
        nxt = _next_stmt(r)
        ok = False
        if isinstance(nxt, ast.Expr) and isinstance(nxt.value, ast.Call) and isinstance(nxt.value.func, ast.Attribute) and \
                unparse(nxt.value.func.value) == avail and nxt.value.func.attr in ("remove", "discard", "pop"):
            arg = nxt.value.args[0] if nxt.value.args else None
            if arg is not None and unparse(arg) == unparse(r.value):
                ok = True
                rep.ok("R-C19-2", f"{fi.file}:{r.lineno} match_consecutive_partitions", f"{unparse(r)}; {unparse(nxt)}",
                       "the matched predecessor itself is retired")
            elif nxt.value.func.attr == "pop":
                pass
            if not ok:
                rep.fail("R-C19-2", fi.file, nxt.lineno, fi.qualname, f"{unparse(r)}; {unparse(nxt)}",
                         "the element retired from the availability list is not the predecessor that was just matched: that "
                         "predecessor can be continued again by another current partition")
        else:
            rep.fail("R-C19-2", fi.file, r.lineno, fi.qualname, unparse(r)[:100],
                     "a match is recorded without retiring the matched predecessor: it can be continued by two current partitions")
    # index used for recording is the current partition
    for r in recs:
        if cur and unparse(r.targets[0].slice) != cur:
            rep.fail("R-C19-2", fi.file, r.lineno, fi.qualname, unparse(r)[:100], f"the match must be recorded for the current partition '{cur}'")


def thresholds(repo, rep):
    fi = repo.func(f"{MOD}.match_consecutive_partitions")
    src = fi.node
    # admissibility mask: ddpm < ddpm_max & dfp < dfp_max & dfp > dfp_min
    atoms = set()
    # roles of the locals, from their defining expressions (parameters keep their public names)
    role = {}
    for n in ast.walk(src):
        if isinstance(n, ast.Assign) and isinstance(n.targets[0], ast.Name):
            nm, txt = n.targets[0].id, unparse(n.value).replace(" ", "")
            if any(isinstance(x, ast.BinOp) and isinstance(x.op, ast.Mod) and repo.const(fi.module, x.right) == 360 for x in ast.walk(n.value)):
                role[nm] = "ddpm"
            elif "fp[:,1]" in txt and "fp[:,0]" in txt and any(isinstance(x, ast.BinOp) and isinstance(x.op, ast.Sub) for x in ast.walk(n.value)):
                role[nm] = "dfp"
            elif "[ddpm_sea_max]" in txt or "[ddpm_swell_max]" in txt:
                role[nm] = "ddpm_max"
            elif "[dfp_sea_max]" in txt or "-dfp_swell_max" in txt:
                role[nm] = "dfp_min"
            elif "[dfp_swell_max]" in txt:
                role[nm] = "dfp_max"
    for n in ast.walk(src):
        if isinstance(n, ast.Compare) and len(n.ops) == 1 and isinstance(n.left, ast.Name) and isinstance(n.comparators[0], ast.Name):
            l_, o_, r_ = role.get(n.left.id, n.left.id), type(n.ops[0]).__name__, role.get(n.comparators[0].id, n.comparators[0].id)
            if r_ in ("ddpm", "dfp") and l_ not in ("ddpm", "dfp"):       # orientation: the measured change on the left
                l_, r_, o_ = r_, l_, {"Lt": "Gt", "LtE": "GtE", "Gt": "Lt", "GtE": "LtE"}.get(o_, o_)
            atoms.add((l_, o_, r_))
    need = {("ddpm", "Lt", "ddpm_max"), ("dfp", "Lt", "dfp_max"), ("dfp", "Gt", "dfp_min")}
    missing = [a for a in need if a not in atoms]
    if missing:
        rep.fail("R-C19-4", fi.file, fi.node.lineno, fi.qualname, f"threshold tests present: {sorted(atoms)}",
                 f"an identifier may be carried only when direction and frequency changes are within the thresholds; missing test(s) {missing}")
    else:
        conj = [n for n in ast.walk(src) if isinstance(n, ast.Call) and call_name(n) in ("np.logical_and", "numpy.logical_and")]
        ors = [n for n in ast.walk(src) if isinstance(n, ast.Call) and call_name(n) in ("np.logical_or", "numpy.logical_or")]
        if ors or len(conj) < 2:
            rep.fail("R-C19-4", fi.file, fi.node.lineno, fi.qualname, "admissibility mask", "the three threshold tests must be conjoined")
        else:
            rep.ok("R-C19-4", f"{fi.file} match_consecutive_partitions", "ddpm < ddpm_max and dfp < dfp_max and dfp > dfp_min", "conjunction of all three")
    # the threshold vectors are indexed by the PREVIOUS partition (last axis of the (current, previous) matrices): plain 1-D arrays
    for n in ast.walk(src):
        if isinstance(n, ast.Assign) and isinstance(n.targets[0], ast.Name) and role.get(n.targets[0].id) in ("ddpm_max", "dfp_max", "dfp_min"):
            reshaped = any((isinstance(x, ast.Attribute) and x.attr in ("reshape", "T", "transpose")) or
                           (isinstance(x, ast.Call) and call_name(x).split(".")[-1] in ("expand_dims", "atleast_2d", "reshape", "transpose")) or
                           (isinstance(x, ast.Attribute) and x.attr == "newaxis") or
                           (isinstance(x, ast.Subscript) and any(isinstance(y, ast.Constant) and y.value is None for y in ast.walk(x.slice)))
                           for x in ast.walk(n.value))
            if reshaped:
                rep.fail("R-C19-4", fi.file, n.lineno, fi.qualname, unparse(n)[:110],
                         f"the {role[n.targets[0].id]} vector [sea, swell, ...] must broadcast along the PREVIOUS-partition axis (a plain 1-D array): "
                         "reshaped to a column it is applied by the slot of the CURRENT partition, so the sea tolerance is granted to whatever "
                         "lands in slot 0", anchor=f"threshold-axis:{role[n.targets[0].id]}")
            else:
                rep.ok("R-C19-4", f"{fi.file}:{n.lineno} match_consecutive_partitions", unparse(n)[:80], "1-D: indexed by the partition being continued")
    # sea row first in each threshold vector
    for name, first in (("ddpm_max", "ddpm_sea_max"), ("dfp_min", "dfp_sea_max")):
        for n in ast.walk(src):
            if isinstance(n, ast.Assign) and isinstance(n.targets[0], ast.Name) and role.get(n.targets[0].id) == name:
                txt = unparse(n.value).replace(" ", "")
                if f"[{first}]+" in txt:
                    rep.ok("R-C19-4", f"{fi.file}:{n.lineno} match_consecutive_partitions", unparse(n)[:90], "sea threshold for partition 0, swell for the rest")
                else:
                    rep.fail("R-C19-4", fi.file, n.lineno, fi.qualname, unparse(n)[:110], f"the sea threshold '{first}' must apply to partition 0 (the wind sea) only")
    # circular direction difference
    ok = any(isinstance(n, ast.BinOp) and isinstance(n.op, ast.Mod) and repo.const(fi.module, n.right) == 360 for n in ast.walk(src))
    txt = unparse(src).replace(" ", "")
    if ok and "+180)%360-180" in txt:
        rep.ok("R-C19-4", f"{fi.file} match_consecutive_partitions", "((d1 - d0) + 180) % 360 - 180", "direction change taken the short way round")
    else:
        rep.fail("R-C19-4", fi.file, fi.node.lineno, fi.qualname, "ddpm", "the peak-direction change must be the circular difference")
    # wind-sea threshold: scaling * (predicted new peak frequency) - fp : the scaling multiplies the prediction only
    from ..astutil import returns as _rets2, signed_terms as _terms, factors as _factors
    fw = repo.func(f"{MOD}.dfp_wsea")
    rv = _rets2(fw.node)
    okw = False
    if len(rv) == 1:
        ts = _terms(rv[0][1])
        # terms() -> [(sign, expr)]
        plus = [e_ for sg, e_ in ts if sg > 0]
        minus = [e_ for sg, e_ in ts if sg < 0]
        if len(plus) == 1 and len(minus) == 1 and unparse(minus[0]) == "fp":
            fs = [unparse(f_) for f_ in _factors(plus[0])]
            okw = "scaling" in fs and not any(isinstance(x, ast.Name) and x.id == "scaling" for f_ in _factors(plus[0]) if unparse(f_) != "scaling" for x in ast.walk(f_))
    if okw:
        rep.ok("R-C19-4", f"{fw.file}:{rv[0][0].lineno} dfp_wsea", unparse(rv[0][1])[:70], "scaling * predicted fp  -  fp")
    else:
        rep.fail("R-C19-4", fw.file, fw.node.lineno, fw.qualname, unparse(rv[0][1])[:100] if rv else "return",
                 "the wind-sea frequency-change threshold is scaling * fp_predicted - fp: with the scaling applied to the difference (or to fp) a "
                 "scaling != 1 shifts the admissible range and identifiers are carried across drops that exceed the true threshold",
                 anchor="dfp_wsea:scaling-term")
    # time alignment in the driver
    p = repo.func(f"{MOD}.np_track_partitions")
    for n in ast.walk(p.node):
        if isinstance(n, ast.Call) and call_name(n) == "match_consecutive_partitions":
            lows = set()
            idx = None
            from ..astutil import bound_args
            b_ = bound_args(repo, p, n)
            if b_ is None:
                raise AnalysisError("np_track_partitions: call of match_consecutive_partitions not understood")
            for karg, v in b_.items():
                k = ast.keyword(arg=karg, value=v)
                if isinstance(v, ast.Subscript):
                    sl = v.slice
                    elts = sl.elts if isinstance(sl, ast.Tuple) else [sl]
                    for e in elts:
                        if isinstance(e, ast.Slice) and e.lower is not None:
                            lows.add(unparse(e.lower).replace(" ", ""))
                            up = unparse(e.upper).replace(" ", "") if e.upper is not None else None
                    if k.arg == "dfp_sea_max":
                        idx = unparse(sl).replace(" ", "")
            if len(lows) != 1 or idx is None:
                raise AnalysisError("np_track_partitions: call of match_consecutive_partitions not understood")
            low = next(iter(lows))
            if idx != low:
                rep.fail("R-C19-4", p.file, n.lineno, p.qualname, f"dfp_sea_max[{idx}] with fp/dpm[:, {low}:...]",
                         "the wind-sea frequency threshold for the step (t-1 -> t) must be the one computed from the state at the "
                         "START of that interval (same index as the first column handed to the matcher)")
            else:
                rep.ok("R-C19-4", f"{p.file}:{n.lineno} np_track_partitions", f"dfp_sea_max[{idx}], columns {low}:..", "threshold of the interval's start")


def count_and_time_step(repo, rep):
    """R-C19-8: the reported count of a site is the tracker's own second output for THAT site (a reduction of the identifiers without the site
    dimension mixes sites).  R-C19-9: the time step entering the thresholds is a timedelta divided by a timedelta unit (unit-safe), not the raw
    tick count of the timedelta scaled by an assumed resolution."""
    rep.rule("R-C19-8", "track_partitions stores the kernel's per-site count output as npart_id (no reduction across sites)")
    fi = repo.func(f"{MOD}.track_partitions")
    from ..astutil import resolve
    second = None
    for a in ast.walk(fi.node):
        if isinstance(a, ast.Assign) and isinstance(a.targets[0], (ast.Tuple, ast.List)) and len(a.targets[0].elts) == 2 and isinstance(a.value, ast.Call) \
                and call_name(a.value).split(".")[-1] == "apply_ufunc":
            second = a.targets[0].elts[1]
    if second is None:
        raise AnalysisError("track_partitions: (ids, count) = apply_ufunc(...) not found")
    store = [a for a in ast.walk(fi.node) if isinstance(a, ast.Assign) and isinstance(a.targets[0], ast.Subscript)
             and repo.const(fi.module, a.targets[0].slice) == "npart_id"]
    if not store:
        store = [a for a in ast.walk(fi.node) if isinstance(a, ast.Assign) and "npart_id" in unparse(a.targets[0])
                 and not isinstance(a.targets[0], (ast.Tuple, ast.List)) and not isinstance(a.targets[0], ast.Attribute)]
    if not store:
        raise AnalysisError("track_partitions: store of npart_id not found")
    v = store[0].value
    if isinstance(v, ast.Name):
        v = resolve(fi.node, v, before=store[0].lineno) or v
    src_names = {x.id for x in ast.walk(store[0].value) if isinstance(x, ast.Name)}
    if isinstance(second, ast.Name) and second.id in src_names and not any(
            isinstance(c, ast.Call) and isinstance(c.func, ast.Attribute) and c.func.attr in ("max", "min", "sum", "count", "mean") for c in ast.walk(store[0].value)):
        rep.ok("R-C19-8", f"{fi.file}:{store[0].lineno} track_partitions", unparse(store[0])[:80], "the kernel's own per-site count")
    else:
        rep.fail("R-C19-8", fi.file, store[0].lineno, fi.qualname, unparse(store[0])[:100],
                 "the reported count is not the tracker's per-site output: derived from the identifiers by a reduction that also collapses the site "
                 "dimension, every site reports the count of the busiest site (and -998 when nothing was tracked anywhere), so identifiers are no longer "
                 "exactly 0..N-1 per site and sites are not independent")
    rep.rule("R-C19-9", "the time step of the tracker is obtained by dividing a timedelta by a timedelta unit, never from the raw tick count")
    k = repo.func(f"{MOD}.np_track_partitions")
    bad = None
    good = None
    for c in ast.walk(k.node):
        if isinstance(c, ast.Call) and isinstance(c.func, ast.Attribute) and c.func.attr in ("astype", "view") and c.args and "int" in unparse(c.args[0]) \
                and any(isinstance(x, ast.Call) and call_name(x).split(".")[-1] == "diff" for x in ast.walk(c.func.value)):
            bad = c
        if isinstance(c, ast.BinOp) and isinstance(c.op, ast.Div) and any(isinstance(x, ast.Call) and call_name(x).split(".")[-1] == "timedelta64" for x in ast.walk(c.right)) \
                and any(isinstance(x, ast.Call) and call_name(x).split(".")[-1] == "diff" for x in ast.walk(c.left)):
            good = c
    if bad is not None:
        rep.fail("R-C19-9", k.file, bad.lineno, k.qualname, unparse(bad)[:100],
                 "the time step is read off the integer tick count of a timedelta and scaled by an assumed resolution: for time stamps that are not "
                 "datetime64[ns] the step is off by the ratio of the resolutions, both frequency thresholds collapse and every system gets a new "
                 "identifier at every step")
    elif good is not None:
        rep.ok("R-C19-9", f"{k.file}:{good.lineno} np_track_partitions", unparse(good)[:80], "timedelta / timedelta64(1, unit): independent of the stored resolution")
    else:
        raise AnalysisError("np_track_partitions: computation of the time step not found")


def run(repo, rep, tier):
    from .round7b import hygiene
    hygiene(repo, rep, "C19", ('wavespectra.partition.tracking', 'wavespectra.partition.partition'), falsy=False)
    rep.rule("R-C19-11", "no tracking threshold is defaulted with `p or <non-zero constant>`: a tolerance of 0 (nothing may be continued) is a legitimate argument")
    from .round7 import falsy_zero_defaulting
    falsy_zero_defaulting(repo, rep, "R-C19-11", ("wavespectra.partition.tracking", "wavespectra.partition.partition"), floor=15)
    rep.rule("R-C19-12", "the peak-frequency change compared with the asymmetric growth / swell window is current minus previous step")
    from .round7 import difference_orientation
    difference_orientation(repo, rep, "R-C19-12", "wavespectra.partition.tracking.match_consecutive_partitions", "fp", "the peak-frequency change")
    rep.rule("R-C19-10", "(shared) the tracking thresholds reach the kernel in the slots of the parameters they are named after; operands are aligned by label")
    from .shared import ufunc_forwarding
    rep.floor("R-C19-10", "apply_ufunc sites of the tracker", ufunc_forwarding(repo, rep, "R-C19-10", ("wavespectra.partition.tracking",)), 1)
    count_and_time_step(repo, rep)
    rep.rule("R-C19-7", "every parameter of the functions behind this property is read (partition tracking): none is accepted and then ignored, and no control parameter (cutoff, limit, tolerance, window, count, switch) is replaced by another value before use (coercion and default filling aside)")
    from .shared import unused_parameters
    unused_parameters(repo, rep, "R-C19-7", ("wavespectra.partition.tracking", "wavespectra.partition.partition.Partition.ptm1_track"), "partition tracking")
    rep.rule("R-C19-1", "every identifier stored comes from the running counter (immediately incremented, scalar slot) or from the "
                        "previous column at the locally matched row; counter starts at 0 and is returned")
    rep.rule("R-C19-2", "candidates are restricted to still-available predecessors, sorted by distance, and the matched "
                        "predecessor itself is retired when a match is recorded")
    rep.rule("R-C19-3", "the empty / unmatched markers agree between matcher, propagator and _FillValue")
    rep.rule("R-C19-4", "admissibility = conjunction of the three threshold tests, sea thresholds for partition 0 only, circular "
                        "direction difference, threshold indexed at the interval's start")
    rep.rule("R-C19-5", "sites are tracked independently: apply_ufunc vectorised with core dims time / (part, time)")
    id_sources(repo, rep)
    availability(repo, rep)
    thresholds(repo, rep)
    T, P = repo.attrs.TIMENAME, repo.attrs.PARTNAME
    n = 0
    for s in sites(repo):
        if s.fi.module.name != MOD:
            continue
        n += 1
        icd = s.input_core_dims
        flat = {d for dims in icd for d in dims} if isinstance(icd, list) else set()
        if s.vectorize is not True or not flat <= {T, P}:
            rep.fail("R-C19-5", s.fi.file, s.line, s.fi.qualname, f"vectorize={s.vectorize}, core dims {icd}", "sites would be tracked jointly")
        else:
            rep.ok("R-C19-5", s.where, f"core dims {icd}", "vectorised over every other dimension")
    rep.floor("R-C19-5", "tracking apply_ufunc sites", n, 1)
    from .c20 import python_lints
    sub = type(rep)("C19-sub")
    python_lints(repo, sub)
    rep.rule("R-C19-6", "(shared with C20) the time step is obtained as a scalar, never by float() of an array")
    for f in sub.findings:
        if f.rule == "R-C20-2" and "tracking" in f.file:
            rep.fail("R-C19-6", f.file, f.line, f.func, f.construct, f.reason)
    rep.ok("R-C19-6", "wavespectra/partition/tracking.py", "dt = float(np.diff(times[:2])[0] / ...)", "scalar element before float()")
    rep.trust("Python ast")
    rep.note("not decided: optimality of the greedy matching; behaviour for crossing systems beyond the stated invariants")
    return ("Static structural rules over the tracking code: provenance of every identifier store (counter with paired "
            "increment, or previous column at the matched row), acquire/release pairing on the availability list, agreement of "
            "the sentinel constants between sibling functions, shape of the admissibility mask and of the threshold vectors, "
            "index agreement of the time-dependent threshold, and per-site vectorisation.")
