"""Rules shared by several properties (each property's check reports them under its own rule id)."""
import ast

from ..cfg import CFG, ReachingDefs, ENTRY
from ..model import UNKNOWN, call_name, kwarg, unparse
from ..report import AnalysisError


def _is_f32(repo, mod, e):
    if e is None:
        return False
    v = repo.const(mod, e)
    if v in ("float32", "f4", "<f4", "f"):
        return True
    return unparse(e) in ("np.float32", "numpy.float32", "np.single")


def _is_C(repo, mod, e):
    return e is not None and repo.const(mod, e) in ("C",)


def forces_c_float32(repo, fi, e, cfg, rd, at_stmt, depth=0):
    """(ok, why): does expression e denote a C-contiguous float32 array on every path?"""
    mod = fi.module
    if depth > 6:
        return False, "derivation too deep"
    if isinstance(e, ast.Call):
        name = call_name(e)
        if name in ("np.ascontiguousarray", "numpy.ascontiguousarray"):
            dt = kwarg(e, "dtype") or (e.args[1] if len(e.args) > 1 else None)
            if _is_f32(repo, mod, dt):
                return True, "np.ascontiguousarray(x, dtype=float32)"
            if e.args:
                ok, why = is_float32(repo, fi, e.args[0], cfg, rd, at_stmt, depth + 1)
                if ok:
                    return True, f"np.ascontiguousarray of a float32 value ({why})"
            return False, "np.ascontiguousarray without dtype=float32: the C routine reads the buffer as float32"
        if name in ("np.array", "numpy.array", "np.asarray", "np.require", "numpy.require"):
            dt = kwarg(e, "dtype") or (e.args[1] if len(e.args) > 1 else None)
            if name.endswith("require"):
                req = kwarg(e, "requirements") or (e.args[2] if len(e.args) > 2 else None)
                rv = repo.const(mod, req) if req is not None else None
                if _is_f32(repo, mod, dt) and (rv == "C" or (isinstance(rv, (list, tuple)) and "C" in rv)):
                    return True, "np.require(x, float32, 'C')"
                return False, "np.require without float32 / 'C'"
            order = kwarg(e, "order")
            if _is_f32(repo, mod, dt) and _is_C(repo, mod, order) and name.endswith(".array"):
                return True, "np.array(x, dtype=float32, order='C')"
            return False, (f"{name}(...) keeps the memory layout of its input (order='K'/'A'): a Fortran-ordered, "
                           "transposed or strided spectrum reaches the C routine, which reads PyArray_DATA as C order")
        if isinstance(e.func, ast.Attribute) and e.func.attr == "astype":
            dt = e.args[0] if e.args else kwarg(e, "dtype")
            order = kwarg(e, "order")
            if _is_f32(repo, mod, dt) and _is_C(repo, mod, order):
                return True, "x.astype(float32, order='C')"
            if _is_f32(repo, mod, dt):
                ok, why = forces_c_contig(repo, fi, e.func.value, cfg, rd, at_stmt, depth + 1)
                if ok and (kwarg(e, "copy") is None):
                    return True, f"astype(float32) of a C-contiguous value ({why})"
                return False, ("x.astype(np.float32) keeps the layout of x (order='K'): Fortran-ordered / strided input is "
                               "read as C order by the wrapper")
            return False, "astype to a dtype other than float32"
        return False, f"{name}(...) is not a recognised contiguity-and-dtype forcing idiom"
    if isinstance(e, ast.Name):
        node = cfg.node(at_stmt)
        defs = rd.at(node, e.id)
        why = ""
        for d in defs:
            if d == ENTRY:
                return False, f"'{e.id}' is passed as received (layout and dtype decided by the caller)"
            st = cfg.stmt[d]
            if not isinstance(st, ast.Assign):
                return False, f"'{e.id}' bound by {type(st).__name__}"
            ok, why = forces_c_float32(repo, fi, st.value, cfg, rd, st, depth + 1)
            if not ok:
                return False, why
        return True, why
    return False, f"{unparse(e)[:60]} is not a recognised contiguity-and-dtype forcing idiom"


def forces_c_contig(repo, fi, e, cfg, rd, at_stmt, depth):
    if isinstance(e, ast.Call) and call_name(e) in ("np.ascontiguousarray", "numpy.ascontiguousarray"):
        return True, "np.ascontiguousarray"
    if isinstance(e, ast.Call) and call_name(e) in ("np.array", "numpy.array") and _is_C(repo, fi.module, kwarg(e, "order")):
        return True, "np.array(order='C')"
    if isinstance(e, ast.Name):
        node = cfg.node(at_stmt)
        for d in rd.at(node, e.id):
            if d == ENTRY:
                return False, ""
            st = cfg.stmt[d]
            if not isinstance(st, ast.Assign) or not forces_c_contig(repo, fi, st.value, cfg, rd, st, depth + 1)[0]:
                return False, ""
        return True, "contiguous by definition"
    return False, ""


def is_float32(repo, fi, e, cfg, rd, at_stmt, depth):
    if isinstance(e, ast.Call) and isinstance(e.func, ast.Attribute) and e.func.attr == "astype":
        dt = e.args[0] if e.args else kwarg(e, "dtype")
        return (_is_f32(repo, fi.module, dt), "astype(float32)")
    return False, ""


def partition_call_sites(repo):
    """Every call of the native entry point specpart.partition in the package."""
    out = []
    for fi in repo.all_funcs():
        for n in ast.walk(fi.node):
            if isinstance(n, ast.Call):
                sym = repo.resolve_expr(fi.module, n.func)
                nm = call_name(n)
                if (isinstance(sym, tuple) and sym[0] == "ext" and sym[1].endswith("specpart.partition")) or \
                        nm in ("specpart.partition",) or nm.endswith(".specpart.partition"):
                    out.append((fi, n))
    # any other way of reaching the module (from ... import partition as p)
    for m in repo.modules.values():
        for local, (mod, attr) in m.imports.items():
            if mod.endswith("specpart") and attr == "partition":
                for fi in m.all_funcs():
                    for n in ast.walk(fi.node):
                        if isinstance(n, ast.Call) and isinstance(n.func, ast.Name) and n.func.id == local:
                            if (fi, n) not in out:
                                out.append((fi, n))
    return out


def contiguity(repo, rep, rule, floor=6):
    """The C wrapper reads PyArray_DATA as C-ordered float32 unchecked: every caller must force that layout."""
    sites = partition_call_sites(repo)
    rep.floor(rule, "call sites of specpart.partition", len(sites), floor)
    for fi, call in sites:
        if not fi.module.name.startswith("wavespectra.partition"):
            rep.fail(rule, fi.file, call.lineno, fi.qualname, unparse(call)[:100],
                     "the native routine is called from outside wavespectra.partition (who-may-call rule)")
        if not call.args:
            raise AnalysisError(f"specpart.partition call without positional array at {fi.file}:{call.lineno}")
        cfg = CFG(fi.node)
        rd = ReachingDefs(cfg)
        ok, why = forces_c_float32(repo, fi, call.args[0], cfg, rd, call)
        where = f"{fi.file}:{call.lineno} {fi.short}"
        if ok:
            rep.ok(rule, where, f"specpart.partition({unparse(call.args[0])[:70]}, ...)", why)
        else:
            rep.fail(rule, fi.file, call.lineno, fi.qualname, f"specpart.partition({unparse(call.args[0])[:90]}, ...)", why)
    return sites


def per_iteration_buffers(repo, rep, rule, prefixes):
    """A buffer that is emitted once per loop iteration (appended to a list) and is also filled in place inside the loop
    (`X[i, :] = ...`, `X *= f`) must be freshly allocated inside the same iteration before anything else touches it: otherwise
    a record for which no branch fills it (NODATA, missing block) carries the previous record's values.
    Accepts: first mention of X in the loop body is a top-level `X = <expression containing a call>` (an allocation), not an
    alias of a name bound outside the loop."""
    import ast
    from ..model import unparse
    n_loops = n_bufs = 0
    for fi in repo.all_funcs():
        if not any(fi.module.name.startswith(p) for p in prefixes):
            continue
        for loop in ast.walk(fi.node):
            if not isinstance(loop, (ast.For, ast.While)):
                continue
            n_loops += 1
            mutated, emitted = {}, {}
            for n in ast.walk(loop):
                if isinstance(n, ast.Assign):
                    for t in n.targets:
                        if isinstance(t, ast.Subscript) and isinstance(t.value, ast.Name):
                            mutated.setdefault(t.value.id, n)
                elif isinstance(n, ast.AugAssign):
                    t = n.target
                    if isinstance(t, ast.Name):
                        mutated.setdefault(t.id, n)
                    elif isinstance(t, ast.Subscript) and isinstance(t.value, ast.Name):
                        mutated.setdefault(t.value.id, n)
                elif isinstance(n, ast.Call) and isinstance(n.func, ast.Attribute) and n.func.attr == "append" and n.args:
                    for x in ast.walk(n.args[0]):
                        if isinstance(x, ast.Name):
                            emitted.setdefault(x.id, n)
            for name in sorted(set(mutated) & set(emitted)):
                # the emitting append must belong to THIS loop's body directly or through ifs (per-iteration), not to an inner loop only
                ap = emitted[name]
                p = getattr(ap, "_parent", None)
                inner = False
                while p is not None and p is not loop:
                    if isinstance(p, (ast.For, ast.While)):
                        inner = True
                    p = getattr(p, "_parent", None)
                if inner:
                    continue
                # scalars (counters) are not buffers: need an element store or an allocation somewhere
                if not any(isinstance(n, ast.Assign) and any(isinstance(t, ast.Subscript) and isinstance(t.value, ast.Name) and t.value.id == name
                                                             for t in n.targets) for n in ast.walk(loop)):
                    continue
                n_bufs += 1
                first = None
                for st in loop.body:
                    if any(isinstance(x, ast.Name) and x.id == name for x in ast.walk(st)):
                        first = st
                        break
                fresh = isinstance(first, ast.Assign) and len(first.targets) == 1 and isinstance(first.targets[0], ast.Name) \
                    and first.targets[0].id == name and any(isinstance(x, ast.Call) for x in ast.walk(first.value)) \
                    and not any(isinstance(x, ast.Name) and x.id == name for x in ast.walk(first.value))
                if fresh:
                    rep.ok(rule, f"{fi.file}:{first.lineno} {fi.short}", f"{unparse(first)[:80]}", f"'{name}' is allocated anew for every record before it is filled")
                else:
                    rep.fail(rule, fi.file, (first or loop).lineno, fi.qualname, f"{name}: {unparse(first)[:90] if first is not None else 'no allocation in the loop'}",
                             f"'{name}' is filled in place and emitted once per iteration, but it is not allocated afresh at the top of the "
                             "iteration: a record that no branch fills (NODATA / missing block) returns the previous record's values, and "
                             "records already emitted may be overwritten through the shared buffer", anchor=f"per-iteration-buffer:{name}")
    return n_loops, n_bufs


# parameters that were already unused when the rules were written (interface conformity of xarray backends, documented no-ops)
UNUSED_AT_PIN = frozenset("""
wavespectra.cli.main:args wavespectra.specarray.SpecArray.dpspr:mom wavespectra.input.swan.read_hotswan:dirorder
wavespectra.output.netcdf.to_netcdf:specname wavespectra.output.ww3.to_ww3:ncformat wavespectra.output.ww3.to_ww3:compress
wavespectra.partition.partition.np_hp01_wseabins:wscut wavespectra.core.npstats.tp:spectrum
""".split())


def unused_parameters(repo, rep, rule, prefixes, what):
    """A parameter that a function accepts but never reads has no influence on the result: a limit, threshold, depth, window or
    switch that is silently ignored (typically a keyword that stopped being forwarded to the function doing the work).
    Exempt: xarray backend entry points' interface parameters and the parameters that were unused when the rules were written."""
    import ast
    n = 0
    for fi in repo.all_funcs():
        if not any(fi.module.name == p or fi.module.name.startswith(p + ".") or fi.qualname.startswith(p) for p in prefixes):
            continue
        if fi.cls is not None and fi.cls.name.endswith("BackendEntrypoint"):
            continue
        if fi.name.startswith("__"):
            continue
        used = {x.id for x in ast.walk(fi.node) if isinstance(x, ast.Name) and isinstance(x.ctx, ast.Load)}
        # a function that inspects its own frame / locals() uses everything
        if any(isinstance(c, ast.Call) and isinstance(c.func, ast.Name) and c.func.id in ("locals", "vars", "eval") for c in ast.walk(fi.node)):
            continue
        a = fi.node.args
        for p in [x.arg for x in a.args + a.kwonlyargs]:
            if p in ("self", "cls"):
                continue
            n += 1
            if p not in used and f"{fi.qualname}:{p}" not in UNUSED_AT_PIN:
                rep.fail(rule, fi.file, fi.node.lineno, fi.qualname, f"parameter '{p}' of {fi.short} is never read",
                         f"'{p}' is accepted but has no influence on the result ({what}): a caller's non-default value is silently ignored",
                         anchor=f"unused-parameter:{fi.short}.{p}")
    rep.ok(rule, "package", f"{n} parameters in {', '.join(prefixes)}", "every parameter is read (or was already unused when the rules were written)")
    # ... and a control parameter reaches its uses as the caller gave it
    nre = 0
    for fi in repo.all_funcs():
        if not any(fi.module.name == p or fi.module.name.startswith(p + ".") or fi.qualname.startswith(p) for p in prefixes):
            continue
        if fi.name.startswith("__"):
            continue
        for st, p in _control_param_redefinitions(fi):
            nre += 1
            if (fi.name, p) in REDEFINED_AT_PIN:
                rep.ok(rule, f"{fi.file}:{st.lineno} {fi.short}", unparse(st)[:90], f"accepted redefinition of '{p}': {REDEFINED_AT_PIN[(fi.name, p)]}", nontrivial=False)
                continue
            rep.fail(rule, fi.file, st.lineno, fi.qualname, unparse(st)[:110],
                     f"the control parameter '{p}' of {fi.short} is replaced by another value before it is used ({what}): what the caller asked for "
                     "(a cutoff, limit, tolerance, window, count, switch ...) is no longer what the code applies; only coercions of the value itself "
                     "and the filling-in of an absent value are accepted", anchor=f"redefined-parameter:{fi.short}.{p}")
    return n


_COERCERS = ("float", "int", "bool", "str", "list", "tuple", "set", "asarray", "array", "atleast_1d", "atleast_2d", "asanyarray", "Path", "to_coords",
             "float64", "float32", "DataArray", "squeeze", "ravel", "sorted_unique", "abs")

# redefinitions of control parameters present when the rules were written, confirmed by reading (function short name, parameter): reason
REDEFINED_AT_PIN = {
    ("to_octopus", "ntime"): "chunk size: defaulted / clamped to the number of records, then the per-chunk record count inside the dump loop",
    ("to_swan", "ntime"): "chunk size: defaulted / clamped to the number of records",
    ("from_ndbc", "directional"): "switched off when the directional variables are absent from the file",
    ("read_swans", "int_freq"): "interpolation targets accumulated from the files when requested as True",
    ("read_swans", "int_dir"): "default direction grid when requested as True",
    ("read_ndbc_ascii", "dirs"): "1-D files get the single direction 0",
    ("extract_direction", "dir"): "WW3 station header: radians going-to -> parsed value",
    ("partition_and_reconstruct", "freq_name"): "one fit name broadcast to every partition",
    ("partition_and_reconstruct", "dir_name"): "one fit name broadcast to every partition",
    ("spectra", "freq_name"): "CLI: comma separated list",
    ("spectra", "dir_name"): "CLI: comma separated list",
    ("read_spotter", "filetype"): "deduced from the file suffix when not given, lower-cased",
    ("interp_spec", "outdir"): "converted to radians for the 2-D griddata branch (after all comparisons)",
    ("interp_spec", "indir"): "converted to radians for the 2-D griddata branch (after all comparisons)",
}


def _coerced_param_table(fn, dname, key, p):
    import ast
    defs = [a for a in ast.walk(fn) if isinstance(a, ast.Assign) and any(isinstance(t, ast.Name) and t.id == dname for t in a.targets)]
    if len(defs) != 1 or not isinstance(defs[0].value, ast.Dict) or not isinstance(key, ast.Constant):
        return False
    ent = [v_ for k_, v_ in zip(defs[0].value.keys, defs[0].value.values) if isinstance(k_, ast.Constant) and k_.value == key.value]
    if len(ent) != 1 or not (isinstance(ent[0], ast.Name) and ent[0].id == p):
        return False
    for a in ast.walk(fn):
        tg = a.targets if isinstance(a, ast.Assign) else [a.target] if isinstance(a, ast.AugAssign) else []
        for t in tg:
            if isinstance(t, ast.Subscript) and isinstance(t.value, ast.Name) and t.value.id == dname:
                if isinstance(a, ast.AugAssign):
                    return False
                lp = getattr(a, "_parent", None)
                while lp is not None and not isinstance(lp, (ast.For, ast.FunctionDef)):
                    lp = getattr(lp, "_parent", None)
                ok = isinstance(lp, ast.For) and isinstance(lp.target, ast.Tuple) and len(lp.target.elts) == 2 and all(isinstance(e, ast.Name) for e in lp.target.elts) \
                    and isinstance(lp.iter, ast.Call) and isinstance(lp.iter.func, ast.Attribute) and lp.iter.func.attr == "items" \
                    and isinstance(lp.iter.func.value, ast.Name) and lp.iter.func.value.id == dname
                if not ok:
                    return False
                kv, vv = (e.id for e in lp.target.elts)
                val = a.value
                if not (isinstance(t.slice, ast.Name) and t.slice.id == kv and isinstance(val, ast.Call)
                        and (call_name(val) or "").split(".")[-1] in _COERCERS and val.args and isinstance(val.args[0], ast.Name) and val.args[0].id == vv):
                    return False
        if isinstance(a, ast.Call) and isinstance(a.func, ast.Attribute) and isinstance(a.func.value, ast.Name) and a.func.value.id == dname \
                and a.func.attr in ("update", "pop", "popitem", "clear", "setdefault", "__setitem__"):
            return False
    return True


def _control_param_redefinitions(fi):
    """(statement, parameter) for every redefinition of a control (scalar-like) parameter that is neither a coercion of itself, nor the
    filling-in of a default, nor a step of a data pipeline on a data-like parameter."""
    import ast
    out = []
    a = fi.node.args
    params = [x.arg for x in a.posonlyargs + a.args + a.kwonlyargs if x.arg not in ("self", "cls")]
    if not params:
        return out
    # data-like parameters: used through attribute access / subscripts (datasets, arrays, dicts); their reassignment is a pipeline step
    datalike = set()
    for n in ast.walk(fi.node):
        if isinstance(n, (ast.Attribute, ast.Subscript)) and isinstance(n.value, ast.Name) and n.value.id in params and isinstance(n.ctx, ast.Load):
            datalike.add(n.value.id)

    def visit(stmts, conds):
        for st in stmts:
            if isinstance(st, ast.If):
                visit(st.body, conds + [(st.test, True)])
                visit(st.orelse, conds + [(st.test, False)])
                continue
            for fld in ("body", "orelse", "finalbody"):
                if isinstance(st, (ast.For, ast.While, ast.With, ast.Try)) and isinstance(getattr(st, fld, None), list):
                    visit(getattr(st, fld), conds)
            if isinstance(st, ast.Try):
                for h in st.handlers:
                    visit(h.body, conds)
            if not isinstance(st, (ast.Assign, ast.AugAssign)):
                continue
            tg = st.targets if isinstance(st, ast.Assign) else [st.target]
            names = [x.id for t in tg for x in ([t] if isinstance(t, ast.Name) else (t.elts if isinstance(t, (ast.Tuple, ast.List)) else []))
                     if isinstance(x, ast.Name)]
            for p in names:
                if p not in params or p in datalike:
                    continue
                v = st.value
                if isinstance(st, ast.AugAssign):
                    out.append((st, p))
                    continue
                # coercion of itself
                if isinstance(v, ast.Call) and (call_name(v) or "").split(".")[-1] in _COERCERS and v.args and unparse(v.args[0]) == p:
                    continue
                # p = D["p"] with D = {"p": p, ..} a local table whose only other stores coerce each entry in place
                # (for k, x in D.items(): D[k] = np.array(x)): the value is still the caller's
                if isinstance(v, ast.Subscript) and isinstance(v.value, ast.Name) and _coerced_param_table(fi.node, v.value.id, v.slice, p):
                    continue
                if isinstance(v, (ast.List, ast.Tuple)) and len(v.elts) == 1 and unparse(v.elts[0]) == p:
                    continue        # p = [p]
                # default filling:  p = p or X ;  p = X if p is None else p ;  under  if p is None / if not p
                if isinstance(v, ast.BoolOp) and isinstance(v.op, ast.Or) and unparse(v.values[0]) == p:
                    continue
                if isinstance(v, ast.IfExp) and p in unparse(v.test) and (unparse(v.body) == p or unparse(v.orelse) == p):
                    continue

                def is_absent_test(t, truth):
                    if isinstance(t, ast.Compare) and len(t.ops) == 1 and unparse(t.left) == p and isinstance(t.comparators[0], ast.Constant) \
                            and t.comparators[0].value is None:
                        return (isinstance(t.ops[0], ast.Is) and truth) or (isinstance(t.ops[0], ast.IsNot) and not truth)
                    if isinstance(t, ast.UnaryOp) and isinstance(t.op, ast.Not) and unparse(t.operand) == p:
                        return truth
                    if isinstance(t, ast.Name) and t.id == p:
                        return not truth
                    if isinstance(t, ast.BoolOp):
                        return any(is_absent_test(x, truth) for x in t.values)
                    return False
                if any(is_absent_test(t, tr) for t, tr in conds):
                    continue
                # isinstance-normalisation:  if isinstance(p, str): p = [p]
                if any(isinstance(x, ast.Call) and call_name(x) == "isinstance" and x.args and unparse(x.args[0]) == p for t, _ in conds for x in ast.walk(t)):
                    continue
                out.append((st, p))
    visit(fi.node.body, [])
    return out


RATIO_STATS = ("tm01", "tm02", "dm", "dspr", "fdspr", "dpm", "swe", "sw", "goda", "momf", "momd")


def same_band_ratios(repo, rep, rule):
    """Normalised moments (periods, mean direction, spreads, widths) divide integrals taken over the resolved band by the same quadrature.
    hs() adds a parametric high-frequency tail by default, so (hs()/4)**2 is NOT the m0 those numerators were integrated with: using it
    as a denominator biases the statistic whenever the tail term applies (freq[-1] > 0.333 Hz).  A comparison guard on hs() is not a use."""
    sa = repo.cls("wavespectra.specarray.SpecArray")
    n = 0
    for name in RATIO_STATS:
        fi = sa.methods.get(name)
        if fi is None:
            continue
        n += 1
        bad = None
        for c in ast.walk(fi.node):
            if isinstance(c, ast.Call) and isinstance(c.func, ast.Attribute) and c.func.attr in ("hs", "hrms") and unparse(c.func.value) in ("self", "self._obj.spec"):
                tail_off = any(k.arg == "tail" and isinstance(k.value, ast.Constant) and k.value.value is False for k in c.keywords) or \
                    (c.args and isinstance(c.args[0], ast.Constant) and c.args[0].value is False)
                p = getattr(c, "_parent", None)
                in_compare = False
                while p is not None and not isinstance(p, ast.stmt):
                    if isinstance(p, ast.Compare):
                        in_compare = True
                    p = getattr(p, "_parent", None)
                if not tail_off and not in_compare:
                    bad = c
        quad = [c for c in ast.walk(fi.node) if isinstance(c, ast.Call) and isinstance(c.func, ast.Attribute) and c.func.attr in ("integrate", "cumulative_integrate")
                or (isinstance(c, ast.Call) and (call_name(c) or "").split(".")[-1] in ("trapz", "trapezoid", "simpson", "simps"))]
        if quad and bad is None:
            rep.fail(rule, fi.file, quad[0].lineno, fi.qualname, unparse(quad[0])[:100],
                     "one of the moments of this ratio statistic is integrated by a trapezoid / Simpson rule while the library's moments are sums "
                     "weighted by the bin widths df: the end bins get half a width in one and a full width in the other, so for spectra with energy in "
                     "the first or last bin |m1|/m0 can exceed 1 (spread NaN or outside [0, 81.03]) and periods are biased")
            continue
        if bad is not None:
            rep.fail(rule, fi.file, bad.lineno, fi.qualname, unparse(getattr(bad, "_parent", bad))[:100],
                     "the total energy is taken from hs(), which includes the parametric high-frequency tail by default, while the other moments of "
                     "this statistic are integrated over the resolved band only: the normalised moment is biased whenever freq[-1] > 0.333 Hz "
                     "(spread too large, period shifted), i.e. it no longer equals its defining integral")
        else:
            rep.ok(rule, f"{fi.file}:{fi.node.lineno} SpecArray.{name}", "no energy total taken from hs()", "numerator and denominator share one band and quadrature")
    rep.floor(rule, "ratio statistics examined", n, 9)


def wavenumber_polynomial(repo, rep, rule):
    """wavenuma's depth correction is the published polynomial a = 1 + sum_n D_n (k0 h)^n, n = 1..5: every non-zero coefficient of the table
    is summed, and the n-th coefficient multiplies the n-th power (the table may carry a leading 0 for n = 0, or be enumerated from 1)."""
    fi = repo.func("wavespectra.core.utils.wavenuma")
    D = None
    for n in ast.walk(fi.node):
        if isinstance(n, ast.Assign) and isinstance(n.value, (ast.List, ast.Tuple)) and isinstance(n.targets[0], ast.Name) and len(n.value.elts) >= 4:
            D = (n.targets[0].id, n.value.elts, n)
    if D is None:
        for n in ast.walk(fi.node):
            if isinstance(n, ast.Subscript) and isinstance(n.value, (ast.Tuple, ast.List)) and len(n.value.elts) >= 4:
                D = ("<table>", n.value.elts, n)
    loops = [n for n in ast.walk(fi.node) if isinstance(n, ast.For)]
    if D is None or len(loops) != 1:
        raise AnalysisError("wavenuma: coefficient table / loop not found")
    loop = loops[0]
    coef = [repo.const(fi.module, e) for e in D[1]]
    if any(not isinstance(c, (int, float)) for c in coef):
        raise AnalysisError("wavenuma: coefficient table is not constant")
    it = loop.iter
    pairs = None          # (table position, exponent)
    if isinstance(it, ast.Call) and call_name(it) == "range":
        a = [repo.const(fi.module, x) for x in it.args]
        if it.args and isinstance(it.args[-1], ast.Call) and call_name(it.args[-1]) == "len":
            a[-1] = len(coef)
        if all(isinstance(x, int) for x in a):
            rng = range(*a)
            # the term must be  TABLE[i] * x ** i  with the same i
            powv = [p for p in ast.walk(loop) if isinstance(p, ast.BinOp) and isinstance(p.op, ast.Pow)]
            subs = [x for x in ast.walk(loop) if isinstance(x, ast.Subscript) and (unparse(x.value) == D[0] or isinstance(x.value, (ast.Tuple, ast.List)))]
            if len(powv) == 1 and len(subs) == 1 and isinstance(loop.target, ast.Name):
                v = loop.target.id
                from ..astutil import signed_terms
                def lin(e):
                    # e == v + c  ->  c
                    if isinstance(e, ast.Name) and e.id == v:
                        return 0
                    if isinstance(e, ast.BinOp) and isinstance(e.op, (ast.Add, ast.Sub)) and isinstance(e.left, ast.Name) and e.left.id == v:
                        c = repo.const(fi.module, e.right)
                        if isinstance(c, int):
                            return c if isinstance(e.op, ast.Add) else -c
                    return None
                ci, ce = lin(subs[0].slice), lin(powv[0].right)
                if ci is not None and ce is not None:
                    pairs = [(i + ci, i + ce) for i in rng]
    elif isinstance(it, ast.Call) and call_name(it) == "enumerate" and it.args and isinstance(loop.target, ast.Tuple) and len(loop.target.elts) == 2:
        start = 0
        if len(it.args) > 1:
            start = repo.const(fi.module, it.args[1])
        for k in it.keywords:
            if k.arg == "start":
                start = repo.const(fi.module, k.value)
        src = it.args[0]
        lo = 0
        if isinstance(src, ast.Subscript) and isinstance(src.slice, ast.Slice) and src.slice.upper is None and src.slice.step is None:
            lo = repo.const(fi.module, src.slice.lower) if src.slice.lower is not None else 0
            src = src.value
        if isinstance(start, int) and isinstance(lo, int) and (unparse(src) == D[0] or src is D[2]):
            iv = loop.target.elts[0].id
            powv = [p for p in ast.walk(loop) if isinstance(p, ast.BinOp) and isinstance(p.op, ast.Pow)]
            if len(powv) == 1 and isinstance(powv[0].right, ast.Name) and powv[0].right.id == iv:
                pairs = [(k, start + k - lo) for k in range(lo, len(coef))]
    if pairs is None:
        raise AnalysisError("wavenuma: the polynomial loop is not understood (coefficient / exponent pairing)")
    used = {p: e for p, e in pairs if 0 <= p < len(coef)}
    nz = [p for p, c in enumerate(coef) if c != 0]
    first = nz[0] if nz else None
    dropped = [p for p in nz if p not in used]
    # exponent of the first non-zero coefficient must be 1 and exponents follow the table order
    bad_exp = [p for p in nz if p in used and used[p] != 1 + (p - first)]
    if dropped:
        rep.fail(rule, fi.file, loop.lineno, fi.qualname, f"for ... in {unparse(it)}  ({len(coef)} table entries)",
                 f"the polynomial loop leaves out coefficient(s) {[coef[p] for p in dropped]}: the wavenumber (hence celerity, wavelength, the wave-age test "
                 "of the partitioning) is off by more than 0.1 % in intermediate water")
    elif bad_exp:
        rep.fail(rule, fi.file, loop.lineno, fi.qualname, f"for ... in {unparse(it)}: coefficient {coef[bad_exp[0]]} multiplies (k0 h)^{used[bad_exp[0]]}",
                 "coefficients and powers of the depth-correction polynomial are paired off by one (the n-th coefficient must multiply the n-th power): "
                 "wavenumber, celerity and wavelength are wrong in shallow and intermediate water")
    else:
        rep.ok(rule, f"{fi.file}:{loop.lineno} wavenuma", f"{unparse(it)}: {len(nz)} non-zero coefficients, powers 1..{len(nz) + (len(coef) - first - len(nz))}",
               "every term of the polynomial is summed with its own power")


def scale_free_guards(repo, rep, rule, T, names, type_them=False):
    """Comparisons inside the named SpecArray statistics (collected by the units / homogeneity typing T): a quantity that scales with the
    spectrum compared with a non-zero absolute constant makes the statistic change character below that energy level."""
    from fractions import Fraction as Fr
    from ..units import Q
    if type_them:
        for nm in names:
            m = T.sa.methods.get(nm)
            if m is not None:
                try:
                    T.eval_method(m, None, [], None)
                except AnalysisError:
                    pass
    seen_ = set()
    n = 0
    for fi_, node_, l_, r_, rnode_ in T.compares:
        if fi_.cls is None or fi_.cls.name != "SpecArray" or fi_.name not in names:
            continue
        if (fi_.qualname, node_.lineno) in seen_ or not isinstance(l_, Q) or not isinstance(r_, Q):
            continue
        seen_.add((fi_.qualname, node_.lineno))
        n += 1
        for a_, b_, bn_ in ((l_, r_, rnode_), (r_, l_, node_.left)):
            if a_.h not in (Fr(0), None) and b_.lit and repo.const(fi_.module, bn_) not in (0, 0.0):
                v_ = repo.const(fi_.module, bn_)
                rep.fail(rule, fi_.file, node_.lineno, fi_.qualname, unparse(node_)[:100], anchor=f"{fi_.name}:degree-{a_.h}-vs-constant-{v_}", reason=
                         f"the statistic is masked / replaced where a quantity scaling like k^{a_.h} with the spectrum falls below the constant {v_}: for "
                         "such spectra the returned value is a fill value, not the quantity the definition gives (which does not depend on the energy level)")
                break
        else:
            rep.ok(rule, f"{fi_.file}:{node_.lineno} {fi_.short}", unparse(node_)[:80], "scale-free guard", nontrivial=False)
    return n


def _values_stores(tree):
    """Statements that store THROUGH the .values / .data of an object:  x.values[m] = v,  x.data[i] += v."""
    out = []

    def is_vals(b):
        return isinstance(b, ast.Attribute) and b.attr in ("values", "data") and not (isinstance(b.value, ast.Name) and b.value.id in ("np", "numpy"))
    # local names that ARE the .values / .data object (bound once, to exactly that attribute): a store through the name is a store through it
    alias = {}
    for n in ast.walk(tree):
        if isinstance(n, ast.Assign) and len(n.targets) == 1 and isinstance(n.targets[0], ast.Name):
            nm = n.targets[0].id
            alias.setdefault(nm, []).append(n.value)
    alias = {k for k, v in alias.items() if len(v) == 1 and is_vals(v[0])}
    for n in ast.walk(tree):
        tgts = []
        if isinstance(n, ast.Assign):
            tgts = n.targets
        elif isinstance(n, ast.AugAssign):
            tgts = [n.target]
        for t in tgts:
            if isinstance(t, ast.Subscript):
                b = t.value
                while isinstance(b, ast.Subscript):
                    b = b.value
                if is_vals(b) or isinstance(b, ast.Name) and b.id in alias:
                    out.append(n)
            elif isinstance(n, ast.AugAssign) and isinstance(t, ast.Name) and t.id in alias:
                out.append(n)
    return out


def lazy_safe_writes(repo, rep, rule):
    """A store through `x.values[...]` / `x.data[...]` changes x only when x is held in memory: for a dask-backed array `.values` computes a
    temporary, the store goes into the temporary and is lost - the lazy result silently differs from the in-memory one."""
    if len(_values_stores(ast.parse("s.values[~(s.values >= 1)] = 1.0\nq.data[0] += 2\nnp.data[0] = 1\nv = d[k].values\nv[:] = f(v)\nw = 2 * d.values\nw[0] = 1"))) != 3:
        raise AnalysisError(f"{rule} self-test: stores through .values / .data not recognised")
    n = 0
    for fi in repo.all_funcs():
        if fi.module.name.startswith(("wavespectra.plot", "wavespectra.cli")):
            continue
        n += 1
        for st in _values_stores(fi.node):
            rep.fail(rule, fi.file, st.lineno, fi.qualname, unparse(st)[:110],
                     "the value is changed by a store through .values / .data: for dask-backed data that attribute is a freshly computed temporary, so "
                     "the store is lost and the lazy result differs from the in-memory one (use where / fillna / assignment of a new array)")
    rep.ok(rule, "package", f"{n} functions", "no store through .values / .data of a labelled array")
    return n


def _layout_orders(tree, const):
    out = []
    for c in ast.walk(tree):
        if isinstance(c, ast.Call):
            nm = (call_name(c) or "").split(".")[-1] if call_name(c) else (c.func.attr if isinstance(c.func, ast.Attribute) else "")
            if isinstance(c.func, ast.Attribute):
                nm = c.func.attr
            if nm in ("ravel", "flatten", "reshape", "asarray", "array", "copy", "astype", "tobytes", "nditer", "require", "ascontiguousarray"):
                k = kwarg(c, "order")
                v = const(k) if k is not None else None
                if nm in ("ravel", "flatten") and k is None and c.args and isinstance(c.func, ast.Attribute) and not (call_name(c) or "").startswith(("np.", "numpy.")):
                    v = const(c.args[0])
                if isinstance(v, str) and v.upper() in ("K", "A", "F"):
                    out.append((c, v))
    return out


def layout_independent_flattening(repo, rep, rule):
    """Flattening / reshaping in the memory order of the array (order='K' / 'A') or in Fortran order gives another element sequence for a
    Fortran-ordered or transposed input than for the C-ordered array with the same contents: results then depend on the in-memory layout."""
    ctrl = _layout_orders(ast.parse("a = x.ravel(order='K'); b = np.ravel(x, order='A'); c = x.flatten('F'); d = x.ravel(); e = x.reshape(3, order='C')"),
                          lambda e: e.value if isinstance(e, ast.Constant) else None)
    if len(ctrl) != 3:
        raise AnalysisError(f"{rule} self-test: order= idioms not recognised")
    n = 0
    for fi in repo.all_funcs():
        n += 1
        for c, v in _layout_orders(fi.node, lambda e, fi=fi: repo.const(fi.module, e)):
            rep.fail(rule, fi.file, c.lineno, fi.qualname, unparse(c)[:100],
                     f"order={v!r}: the elements are taken in the array's memory order (or Fortran order), so a Fortran-ordered / transposed input with "
                     "the same contents yields another sequence than its C-ordered twin, while the coordinates it is paired with are in index order")
    rep.ok(rule, "package", f"{n} functions", "every flatten / ravel / reshape uses index (C) order")
    return n


def ufunc_forwarding(repo, rep, rule, prefixes=None):
    """Every xr.apply_ufunc site hands its operands to the kernel BY POSITION: an operand that carries the name of one of the kernel's
    parameters must sit in that parameter's slot (two scalars of the same kind swapped in the list go unnoticed by xarray: both have
    empty core dims), keyword operands (`kwargs={..}`) must name parameters of the kernel, and operands are never re-paired by position
    (`join="override"` and friends relabel an operand with another operand's coordinates instead of refusing to align)."""
    from ..ufunc import sites
    from ..astutil import expand_table_comprehension
    n = 0
    for s in sites(repo):
        if prefixes and not any(s.fi.qualname.startswith(p) for p in prefixes):
            continue
        try:
            ks = s.kernels()
        except AnalysisError:
            continue
        n += 1
        j = kwarg(s.call, "join")
        if j is not None and repo.const(s.module, j) != "exact":
            rep.fail(rule, s.fi.file, s.line, s.fi.qualname, f"join={unparse(j)}",
                     "operands whose labels differ are paired by position (or silently padded / dropped) instead of being rejected: each spectrum is "
                     "combined with the wind / depth / parameter value that happens to sit at the same index", anchor=f"ufunc-join:{s.fi.short}")
        for k in ks:
            params = [p for p in k.params if p not in ("self", "cls")]
            bad = False
            for i, a in enumerate(s.args):
                e = a
                while isinstance(e, ast.Call) and isinstance(e.func, ast.Attribute) and e.func.attr in ("astype", "chunk", "load", "compute", "persist", "fillna", "copy"):
                    e = e.func.value
                if isinstance(e, ast.Name) and e.id in params and i < len(params) and params.index(e.id) != i and params[i] != e.id:
                    # the operand in slot i is named like another parameter: accept only when the slot's own name is passed nowhere (a deliberate re-use)
                    others = {x.id for x in s.args if isinstance(x, ast.Name)}
                    if params[i] in others:
                        rep.fail(rule, s.fi.file, s.line, s.fi.qualname, f"operand {i}: {e.id} -> parameter '{params[i]}' of {k.name}",
                                 f"'{e.id}' is passed in the slot of '{params[i]}' while '{params[i]}' is passed elsewhere: the two are exchanged on the way "
                                 "to the kernel (positional forwarding)", anchor=f"ufunc-swap:{s.fi.short}:{e.id}")
                        bad = True
            kw = kwarg(s.call, "kwargs")
            if isinstance(kw, ast.Dict):
                a_ = k.node.args
                if a_.kwarg is None:
                    for kk in kw.keys:
                        nm = repo.const(s.module, kk) if kk is not None else None
                        if isinstance(nm, str) and nm not in k.params:
                            rep.fail(rule, s.fi.file, s.line, s.fi.qualname, f"kwargs key '{nm}'", f"{k.name} has no parameter '{nm}'")
                            bad = True
            if not bad:
                rep.ok(rule, s.where, f"{k.name}({', '.join(unparse(a)[:18] for a in s.args)})", "operands sit in the slots of the kernel parameters they are named after; default join")
    return n
