"""C15 - constructed parametric spectra have the parameters they were built from (structural clauses)."""
import ast
from fractions import Fraction as Fr

from ..model import UNKNOWN, FuncInfo, call_name, kwarg, unparse
from ..report import AnalysisError
from ..units import Q, UEval, lit
from .c12 import NativeTable

FQ = "wavespectra.construct.frequency"
DQ = "wavespectra.construct.direction"
SHAPES = ("pierson_moskowitz", "jonswap", "tma", "gaussian")


def scaling_last(repo, rep):
    for name in SHAPES:
        fi = repo.func(f"{FQ}.{name}")
        rets = [n for n in ast.walk(fi.node) if isinstance(n, ast.Return)]
        if len(rets) != 1 or not isinstance(rets[0].value, ast.Name):
            raise AnalysisError(f"{name}: single `return <name>` expected")
        out = rets[0].value.id
        # statements assigning `out` at function-body level, in order
        seq = []
        for s in fi.node.body:
            if isinstance(s, ast.Assign) and any(isinstance(t, ast.Name) and t.id == out for t in s.targets):
                seq.append(("assign", s, None))
            elif isinstance(s, ast.If):
                for b in s.body:
                    if isinstance(b, ast.Assign) and any(isinstance(t, ast.Name) and t.id == out for t in b.targets):
                        seq.append(("cond", b, s))
                for b in s.orelse:
                    if isinstance(b, ast.Assign) and any(isinstance(t, ast.Name) and t.id == out for t in b.targets):
                        seq.append(("cond-else", b, s))
            elif isinstance(s, ast.AugAssign) and isinstance(s.target, ast.Name) and s.target.id == out:
                seq.append(("assign", s, None))
        if not seq:
            raise AnalysisError(f"{name}: no assignment to the returned array")
        kind, last, guard = seq[-1]
        is_scaled = isinstance(last, ast.Assign) and isinstance(last.value, ast.Call) and call_name(last.value) == "scaled" and \
            len(last.value.args) == 2 and unparse(last.value.args[0]) == out and unparse(last.value.args[1]) == "hs"
        hs_optional = any(p == "hs" for p in fi.params) and _default_is_none(repo, fi, "hs")
        if is_scaled and ((kind == "cond" and unparse(guard.test).replace(" ", "") == "hsisnotNone") or (kind == "assign" and not hs_optional)):
            rep.ok("R-C15-1", f"{fi.file}:{last.lineno} {name}", unparse(last), "the last value-changing step scales the spectrum to the requested Hs")
        else:
            rep.fail("R-C15-1", fi.file, last.lineno, fi.qualname, unparse(last)[:110],
                     f"when hs is requested the LAST value-changing operation on the returned spectrum must be scaled({out}, hs): anything "
                     "applied afterwards (or a missing rescale after a shape factor) leaves the spectrum with another significant height")
    # scaled(): (hs / spec.spec.hs()) ** 2 * spec
    fi = repo.func("wavespectra.core.utils.scaled")
    t = unparse(fi.node).replace(" ", "")
    if "fac=(hs/spec.spec.hs())**2" in t and ("returnfac*spec" in t or "returnspec*fac" in t):
        rep.ok("R-C15-1", f"{fi.file}:{fi.node.lineno} scaled", "fac = (hs / spec.hs())**2; return fac * spec", "Hs is homogeneous of degree 1/2: the result has exactly the requested height")
    else:
        rep.fail("R-C15-1", fi.file, fi.node.lineno, fi.qualname, "scaled()", "scaling to a requested height multiplies by (hs / current hs) squared")


def _default_is_none(repo, fi, p):
    a = fi.node.args
    pos = a.posonlyargs + a.args
    d = dict(zip([x.arg for x in pos[len(pos) - len(a.defaults):]], a.defaults))
    return p in d and repo.const(fi.module, d[p]) is None


def nonneg(repo, rep):
    """R-C15-2: the shape is a product of non-negative factors: no subtraction except inside exponents / even powers."""
    for name in SHAPES:
        fi = repo.func(f"{FQ}.{name}")
        local = {}
        for s in ast.walk(fi.node):
            if isinstance(s, ast.Assign) and isinstance(s.targets[0], ast.Name):
                local.setdefault(s.targets[0].id, s.value)
        bad = []

        def scan(e, safe, depth=0):
            if depth > 12:
                return
            if isinstance(e, ast.Name) and e.id in local and e.id not in ("dsout",):
                scan(local[e.id], safe, depth + 1)
                return
            if isinstance(e, ast.BinOp):
                if isinstance(e.op, ast.Sub) and not safe:
                    bad.append(e)
                if isinstance(e.op, ast.Pow):
                    n = repo.const(fi.module, e.right)
                    even = isinstance(n, (int, float)) and float(n).is_integer() and int(n) % 2 == 0
                    scan(e.left, safe or even, depth + 1)
                    scan(e.right, True, depth + 1)       # exponents may be negative
                    return
                scan(e.left, safe, depth + 1)
                scan(e.right, safe, depth + 1)
            elif isinstance(e, ast.UnaryOp):
                if isinstance(e.op, ast.USub) and not safe:
                    bad.append(e)
                scan(e.operand, safe, depth + 1)
            elif isinstance(e, ast.Call):
                nm = call_name(e)
                if nm in ("np.exp", "np.tanh", "np.sinh", "np.sqrt", "xr.where", "np.where", "scaled", "jonswap", "wavenuma"):
                    for a in e.args:
                        scan(a, True if nm in ("np.exp", "xr.where", "np.where", "wavenuma", "np.tanh", "np.sinh") else safe, depth + 1)
                else:
                    for a in e.args:
                        scan(a, safe, depth + 1)
        first = None
        for s in fi.node.body:
            if isinstance(s, ast.Assign) and isinstance(s.targets[0], ast.Name) and s.targets[0].id == "dsout":
                scan(s.value, False)
        if bad:
            rep.fail("R-C15-2", fi.file, bad[0].lineno, fi.qualname, unparse(bad[0])[:100],
                     "a subtraction / negation reaches the returned spectrum outside an exponent or an even power: the shape can become negative")
        else:
            rep.ok("R-C15-2", f"{fi.file}:{fi.node.lineno} {name}", "product of non-negative factors", "subtractions only inside exponents and squares")


def forwarding(repo, rep):
    """R-C15-5: a shape built on another shape forwards every shared parameter."""
    pairs = [(f"{FQ}.tma", "jonswap"), (f"{DQ}.asymmetric", "cartwright")]
    for outer_q, inner in pairs:
        outer = repo.func(outer_q)
        calls = [c for c in ast.walk(outer.node) if isinstance(c, ast.Call) and call_name(c) == inner]
        if len(calls) != 1:
            raise AnalysisError(f"{outer.short}: call of {inner} not found")
        c = calls[0]
        sym = repo.resolve_symbol(outer.module, inner)
        if not isinstance(sym, FuncInfo):
            raise AnalysisError(f"{inner} not resolved")
        bound = {}
        for i, a in enumerate(c.args):
            if i < len(sym.params):
                bound[sym.params[i]] = unparse(a)
        for k in c.keywords:
            if k.arg:
                bound[k.arg] = unparse(k.value)
        shared = [p for p in sym.params if p in outer.params and p not in ("kwargs",)]
        missing = [p for p in shared if bound.get(p) != p]
        if outer.name == "asymmetric":
            # dm / dspr are replaced by the frequency-dependent theta / sigma on purpose
            missing = [p for p in missing if p not in ("dm", "dspr")]
            if bound.get("dm") != "theta" or bound.get("dspr") != "sigma":
                rep.fail("R-C15-5", outer.file, c.lineno, outer.qualname, unparse(c), "asymmetric must call cartwright with the frequency-dependent direction and spread")
        if missing:
            rep.fail("R-C15-5", outer.file, c.lineno, outer.qualname, unparse(c)[:120],
                     f"{outer.name} accepts {missing} but does not pass {'them' if len(missing) > 1 else 'it'} on to {inner}: non-default values are "
                     "silently ignored (a named parameter never arrives through **kwargs)")
        else:
            rep.ok("R-C15-5", f"{outer.file}:{c.lineno} {outer.name}", unparse(c)[:100], f"every shared parameter of {inner} forwarded")


def spreading(repo, rep):
    fi = repo.func(f"{DQ}.cartwright")
    D = repo.attrs.DIRNAME
    body = fi.node.body
    names = {}
    order = []
    for s in ast.walk(fi.node):
        if isinstance(s, ast.Assign) and isinstance(s.targets[0], ast.Name):
            order.append((s.lineno, s.targets[0].id, s))
    order.sort(key=lambda x: x[0])
    # wrapped angular difference
    dth = [s for _, n, s in order if n == "dth"]
    t = " ".join(unparse(s) for s in dth).replace(" ", "")
    if "np.abs(dir-dm)" in t and "dth.where(dth<=180,360.0-dth)" in t or "dth.where(dth<=180,360-dth)" in t:
        rep.ok("R-C15-3", f"{fi.file}:{dth[0].lineno} cartwright", "dth = |dir - dm| folded at 180", "angular distance taken the short way round")
    else:
        rep.fail("R-C15-3", fi.file, dth[0].lineno if dth else fi.node.lineno, fi.qualname, t[:100], "the distance from the mean direction must be folded into [0, 180] (|d| or 360 - |d|)")
    # every restriction relative to dm uses the folded distance
    for n in ast.walk(fi.node):
        if isinstance(n, ast.Compare) and any(isinstance(x, ast.Name) and x.id == "dm" for x in ast.walk(n)):
            rep.fail("R-C15-3", fi.file, n.lineno, fi.qualname, unparse(n)[:100],
                     "a direction window around the mean direction is tested on raw direction labels: for dm within the window's half-width "
                     "of the 0/360 seam the part of the lobe across the seam is cut off; the test must use the folded distance dth")
    mask = [n for n in ast.walk(fi.node) if isinstance(n, ast.If) and unparse(n.test) == "under_90"]
    if mask:
        mt = unparse(mask[0]).replace(" ", "")
        if "gth.where(np.abs(dth)<=90.0,0.0)" in mt or "gth.where(dth<=90.0,0.0)" in mt or "gth.where(dth<=90,0.0)" in mt:
            rep.ok("R-C15-3", f"{fi.file}:{mask[0].lineno} cartwright", "under_90: gth.where(dth <= 90, 0)", "window on the folded distance")
        elif "dth" not in mt:
            pass       # already reported above
    # normalisation after the mask, over dir, circle measure 2 pi / N, final / R2D
    gsum = [s for _, n, s in order if n == "gsum"]
    if not gsum:
        raise AnalysisError("cartwright: normaliser not found")
    g = gsum[0]
    gt = unparse(g.value).replace(" ", "")
    ok = "gth.sum(" in gt and "2*pi/dir.size" in gt and gt.startswith("1.0/(") or gt.startswith("1/(")
    after_mask = not mask or g.lineno > mask[0].lineno
    sums = [c for c in ast.walk(g.value) if isinstance(c, ast.Call) and isinstance(c.func, ast.Attribute) and c.func.attr == "sum"]
    dim_ok = bool(sums) and ((sums[0].args and repo.const(fi.module, sums[0].args[0]) == D) or (kwarg(sums[0], "dim") is not None and repo.const(fi.module, kwarg(sums[0], "dim")) == D))
    if ok and after_mask and dim_ok:
        rep.ok("R-C15-3", f"{fi.file}:{g.lineno} cartwright", unparse(g)[:100], "normaliser from the same (masked) array over dir with circle measure 2 pi / N")
    else:
        rep.fail("R-C15-3", fi.file, g.lineno, fi.qualname, unparse(g)[:120],
                 "the spreading function must be normalised by the sum of the SAME array (after masking) over the direction dimension times the "
                 "uniform circle measure 2 pi / N, so that it integrates to one for every mean direction and grid orientation")
    rets = [n for n in ast.walk(fi.node) if isinstance(n, ast.Return)]
    rt = unparse(rets[-1].value).replace(" ", "")
    if rt == "gth/R2D":
        rep.ok("R-C15-3", f"{fi.file}:{rets[-1].lineno} cartwright", "return gth / R2D", "per radian -> per degree")
    else:
        rep.fail("R-C15-3", fi.file, rets[-1].lineno, fi.qualname, unparse(rets[-1]), "the normalised function (per radian) must be divided by R2D to be per degree")
    # units: per degree
    tab = NativeTable(repo, {})
    ev = UEval(repo, fi, {"dir": Q({"deg": 1}, dims={D}), "dm": Q({"deg": 1}), "dspr": Q({"deg": 1})}, {"under_90": False}, tab)
    ev.run()
    for p in ev.problems:
        if p.kind == "units":
            rep.fail("R-C15-3", fi.file, p.node.lineno, fi.qualname, unparse(p.node)[:100], p.msg)
    for node, v in ev.returns:
        if isinstance(v, Q) and v.u == {"m": 0, "s": 0, "deg": -1}:
            rep.ok("R-C15-3", f"{fi.file}:{node.lineno} cartwright", f"units {v.ustr()}", "spreading density per degree")
        else:
            rep.fail("R-C15-3", fi.file, node.lineno, fi.qualname, f"returns {v}", "a spreading function has units degree^-1")
    # construct_partition
    cp = repo.func("wavespectra.construct.construct_partition")
    t = unparse(cp.node).replace(" ", "")
    if "dset=efth1d*spread" in t and "returndset.fillna(0.0)" in t:
        rep.ok("R-C15-3", f"{cp.file}:{cp.node.lineno} construct_partition", "efth1d * spread, fillna(0)", "2-D spectrum = shape x spreading, nothing else")
    else:
        rep.fail("R-C15-3", cp.file, cp.node.lineno, cp.qualname, "construct_partition", "the 2-D spectrum must be exactly frequency shape times spreading (missing values zero)")


def monomial(repo, mod, e, local, depth=0):
    """(coefficient, {symbol: exponent}) of a product / quotient / constant-power expression, or None."""
    if depth > 10:
        return None
    c = repo.const(mod, e)
    if isinstance(c, (int, float)) and not isinstance(c, bool):
        return (float(c), {})
    if isinstance(e, ast.Name) and e.id in local:
        return monomial(repo, mod, local[e.id], local, depth + 1)
    if isinstance(e, (ast.Name, ast.Attribute)):
        return (1.0, {unparse(e): Fr(1)})
    if isinstance(e, ast.UnaryOp) and isinstance(e.op, ast.USub):
        m = monomial(repo, mod, e.operand, local, depth + 1)
        return None if m is None else (-m[0], m[1])
    if isinstance(e, ast.BinOp) and isinstance(e.op, (ast.Mult, ast.Div)):
        l, r = monomial(repo, mod, e.left, local, depth + 1), monomial(repo, mod, e.right, local, depth + 1)
        if l is None or r is None:
            return None
        sign = 1 if isinstance(e.op, ast.Mult) else -1
        ex = dict(l[1])
        for k, v in r[1].items():
            ex[k] = ex.get(k, Fr(0)) + sign * v
        coef = l[0] * r[0] if sign == 1 else l[0] / r[0]
        return (coef, {k: v for k, v in ex.items() if v != 0})
    if isinstance(e, ast.BinOp) and isinstance(e.op, ast.Pow):
        n = repo.const(mod, e.right)
        b = monomial(repo, mod, e.left, local, depth + 1)
        if b is None or not isinstance(n, (int, float)):
            return None
        return (b[0] ** n, {k: v * Fr(n).limit_denominator(100) for k, v in b[1].items()})
    return None


def _locals(fi):
    d = {}
    for s in ast.walk(fi.node):
        if isinstance(s, ast.Assign) and isinstance(s.targets[0], ast.Name):
            d.setdefault(s.targets[0].id, s.value)
    return d


def _norm(m, ren):
    if m is None:
        return None
    return (round(m[0], 12), tuple(sorted((ren.get(k, k), v) for k, v in m[1].items())))


def _exp_arg(e, local):
    if isinstance(e, ast.Name) and e.id in local:
        e = local[e.id]
    if isinstance(e, ast.Call) and call_name(e) in ("np.exp", "numpy.exp") and e.args:
        return e.args[0]
    return None


def twins(repo, rep):
    a, b = repo.func(f"{FQ}.jonswap"), repo.func("wavespectra.core.npstats.jonswap")
    la, lb = _locals(a), _locals(b)
    ren = {"fpeak": "fp", "hsig": "hs"}
    facts = {}
    for tag, fi, loc in (("xarray", a, la), ("numpy", b, lb)):
        t1 = _norm(monomial(repo, fi.module, loc.get("term1"), {}), ren) if "term1" in loc else None
        arg2 = _exp_arg(loc.get("term2"), loc) if "term2" in loc else None
        t2 = _norm(monomial(repo, fi.module, arg2, {}), ren) if arg2 is not None else None
        t3 = sorted(float(repo.const(fi.module, n)) for n in ast.walk(loc["term3"]) if isinstance(n, ast.Constant) and isinstance(n.value, (int, float))) if "term3" in loc else None
        sw = None
        if "sigma" in loc:
            for n in ast.walk(loc["sigma"]):
                if isinstance(n, ast.Compare):
                    sw = (type(n.ops[0]).__name__, ren.get(unparse(n.comparators[0]), unparse(n.comparators[0])))
        facts[tag] = (t1, t2, t3, sw)
    if None in facts["xarray"] or None in facts["numpy"]:
        raise AnalysisError("jonswap twins: term1/term2/term3/sigma structure not found")
    want_t1 = (round(9.80665 ** 2 / (2 * 3.141592653589793) ** 4, 12), (("alpha", Fr(1)), ("freq", Fr(-5))))
    if facts["xarray"] == facts["numpy"]:
        rep.ok("R-C15-4", "construct.frequency.jonswap <-> npstats.jonswap", f"prefactor {facts['xarray'][0]}, exponent {facts['xarray'][1]}, sigma switch {facts['xarray'][3]}",
               "term-by-term equal (monomial normal form)")
    else:
        rep.fail("R-C15-4", a.file, a.node.lineno, a.qualname, f"xarray {facts['xarray']} vs numpy {facts['numpy']}",
                 "the two JONSWAP implementations (construction and fitting) differ term by term")
    if facts["xarray"][0] != want_t1 or facts["xarray"][1] != (-1.25, (("fp", Fr(4)), ("freq", Fr(-4)))) or facts["xarray"][3] != ("LtE", "fp"):
        rep.fail("R-C15-4", a.file, a.node.lineno, a.qualname, str(facts["xarray"][:2]),
                 "JONSWAP is alpha g^2 (2 pi)^-4 f^-5 exp(-5/4 (f/fp)^-4) gamma^exp(...) with the sigma switch at f <= fp")
    # Pierson-Moskowitz = the same prefactor and exponential
    pm = repo.func(f"{FQ}.pierson_moskowitz")
    lp = _locals(pm)
    e = lp.get("dsout")
    fac = []

    def flat(x, sign):
        if isinstance(x, ast.BinOp) and isinstance(x.op, ast.Mult):
            flat(x.left, sign); flat(x.right, sign)
        elif isinstance(x, ast.BinOp) and isinstance(x.op, ast.Div):
            flat(x.left, sign); flat(x.right, -sign)
        else:
            fac.append((x, sign))
    if e is None:
        raise AnalysisError("pierson_moskowitz: dsout expression not found")
    flat(e, 1)
    exps = [x for x, s_ in fac if isinstance(x, ast.Call) and call_name(x) in ("np.exp", "numpy.exp")]
    rest = [(x, s_) for x, s_ in fac if not (isinstance(x, ast.Call) and call_name(x) in ("np.exp", "numpy.exp"))]
    coef, ex = 1.0, {}
    okm = True
    for x, s_ in rest:
        m = monomial(repo, pm.module, x, {})
        if m is None:
            okm = False
            break
        coef = coef * m[0] if s_ > 0 else coef / m[0]
        for k, v in m[1].items():
            ex[k] = ex.get(k, Fr(0)) + s_ * v
    pre = _norm((coef, {k: v for k, v in ex.items() if v != 0}), ren) if okm else None
    arg = _norm(monomial(repo, pm.module, exps[0].args[0], {}), ren) if len(exps) == 1 else None
    if pre == facts["xarray"][0] and arg == facts["xarray"][1]:
        rep.ok("R-C15-4", f"{pm.file}:{pm.node.lineno} pierson_moskowitz", f"prefactor {pre}, exponent {arg}", "identical to JONSWAP's first two factors (gamma = 1)")
    else:
        rep.fail("R-C15-4", pm.file, pm.node.lineno, pm.qualname, f"prefactor {pre}, exponent {arg}",
                 "Pierson-Moskowitz must equal JONSWAP's prefactor and exponential (JONSWAP with gamma = 1 is PM)")
    g1, g2 = repo.func(f"{FQ}.gaussian"), repo.func("wavespectra.core.npstats.gaussian")

    def gfacts(fi):
        loc = _locals(fi)
        out = []
        for n in ast.walk(fi.node):
            if isinstance(n, ast.Call) and call_name(n) in ("np.exp", "numpy.exp"):
                out.append(sorted(float(c.value) for c in ast.walk(n) if isinstance(c, ast.Constant) and isinstance(c.value, (int, float))))
        mo = loc.get("mo")
        out.append(_norm(monomial(repo, fi.module, mo, {}), ren) if mo is not None else None)
        return out
    if gfacts(g1) == gfacts(g2) and None not in gfacts(g1):
        rep.ok("R-C15-4", "construct.frequency.gaussian <-> npstats.gaussian", str(gfacts(g1)), "agree")
    else:
        rep.fail("R-C15-4", g1.file, g1.node.lineno, g1.qualname, f"{gfacts(g1)} vs {gfacts(g2)}", "the two Gaussian implementations differ")


def run(repo, rep, tier):
    rep.rule("R-C15-1", "when hs is requested the last value-changing operation is scaled(spectrum, hs) = (hs/Hs)^2 * spectrum")
    rep.rule("R-C15-2", "each shape is a product of non-negative factors (subtraction only inside exponents / even powers)")
    rep.rule("R-C15-3", "spreading: folded angular distance, windows on the folded distance, normaliser from the same masked array over dir "
                        "with circle measure 2 pi / N, per degree; 2-D = shape x spreading")
    rep.rule("R-C15-4", "sibling implementations (construction vs fitting) agree on the shape constants")
    rep.rule("R-C15-5", "shapes built on other shapes forward every shared parameter")
    rep.rule("R-C15-6", "(shared with C05) direction bin widths are taken circularly")
    from .c05 import circular_width
    circular_width(repo, rep, "R-C15-6")
    scaling_last(repo, rep)
    nonneg(repo, rep)
    forwarding(repo, rep)
    try:
        spreading(repo, rep)
    except AnalysisError as e:
        if not rep.findings:
            raise
        rep.note(f"spreading rules stopped early ({e}); the violations above already decide the run")
    twins(repo, rep)
    rep.trust("Python ast; units algebra for the spreading function")
    rep.note("not decided: JONSWAP(gamma=1) = PM, deep-water TMA = JONSWAP, measured dm/dspr equal the requested ones (numeric identities)")
    return ("Static structural rules over the construct package: CFG order (scaling last), sign analysis of the shape expressions, "
            "argument-forwarding completeness between shapes, the spreading function's folded distance / normaliser / units, sibling "
            "constant agreement with the numpy twins, circular bin widths.")
