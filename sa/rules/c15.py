"""C15 - constructed parametric spectra have the parameters they were built from (structural clauses)."""
import ast
from fractions import Fraction as Fr

from ..model import UNKNOWN, FuncInfo, call_name, kwarg, unparse
from ..report import AnalysisError
from ..units import Q, UEval, lit
from .c12 import NativeTable

FQ = "wavespectra.construct.frequency"
DQ = "wavespectra.construct.direction"
SHAPES = ("pierson_moskowitz", "jonswap", "tma", "gaussian")


def scaling_last(repo, rep):
    for name in SHAPES:
        fi = repo.func(f"{FQ}.{name}")
        rets = [n for n in ast.walk(fi.node) if isinstance(n, ast.Return)]
        if len(rets) != 1 or not isinstance(rets[0].value, ast.Name):
            raise AnalysisError(f"{name}: single `return <name>` expected")
        out = rets[0].value.id
        # statements assigning `out` at function-body level, in order
        seq = []
        for s in fi.node.body:
            if isinstance(s, ast.Assign) and any(isinstance(t, ast.Name) and t.id == out for t in s.targets):
                seq.append(("assign", s, None))
            elif isinstance(s, ast.If):
                for b in s.body:
                    if isinstance(b, ast.Assign) and any(isinstance(t, ast.Name) and t.id == out for t in b.targets):
                        seq.append(("cond", b, s))
                for b in s.orelse:
                    if isinstance(b, ast.Assign) and any(isinstance(t, ast.Name) and t.id == out for t in b.targets):
                        seq.append(("cond-else", b, s))
            elif isinstance(s, ast.AugAssign) and isinstance(s.target, ast.Name) and s.target.id == out:
                seq.append(("assign", s, None))
        if not seq:
            raise AnalysisError(f"{name}: no assignment to the returned array")
        kind, last, guard = seq[-1]
        is_scaled = isinstance(last, ast.Assign) and isinstance(last.value, ast.Call) and call_name(last.value) == "scaled" and \
            len(last.value.args) == 2 and unparse(last.value.args[0]) == out and unparse(last.value.args[1]) == "hs"
        hs_optional = any(p == "hs" for p in fi.params) and _default_is_none(repo, fi, "hs")
        if is_scaled and ((kind == "cond" and unparse(guard.test).replace(" ", "") == "hsisnotNone") or (kind == "assign" and not hs_optional)):
            rep.ok("R-C15-1", f"{fi.file}:{last.lineno} {name}", unparse(last), "the last value-changing step scales the spectrum to the requested Hs")
        else:
            rep.fail("R-C15-1", fi.file, last.lineno, fi.qualname, unparse(last)[:110],
                     f"when hs is requested the LAST value-changing operation on the returned spectrum must be scaled({out}, hs): anything "
                     "applied afterwards (or a missing rescale after a shape factor) leaves the spectrum with another significant height")
    # scaled(): (hs / spec.spec.hs()) ** 2 * spec
    fi = repo.func("wavespectra.core.utils.scaled")
    from ..astutil import returns as _rets, resolve as _res, factors as _fac
    okS = False
    rr = _rets(fi.node)
    if len(rr) == 1:
        fs = _fac(rr[0][1])
        if len(fs) == 2 and any(unparse(f) == fi.params[0] for f in fs):
            k = _res(fi.node, [f for f in fs if unparse(f) != fi.params[0]][0], before=rr[0][0].lineno + 1)
            okS = isinstance(k, ast.BinOp) and isinstance(k.op, ast.Pow) and repo.const(fi.module, k.right) == 2 and isinstance(k.left, ast.BinOp) and \
                isinstance(k.left.op, ast.Div) and unparse(k.left.left) == fi.params[1] and unparse(k.left.right).replace(" ", "") == f"{fi.params[0]}.spec.hs()"
    if okS:
        rep.ok("R-C15-1", f"{fi.file}:{fi.node.lineno} scaled", "fac = (hs / spec.hs())**2; return fac * spec", "Hs is homogeneous of degree 1/2: the result has exactly the requested height")
    else:
        rep.fail("R-C15-1", fi.file, fi.node.lineno, fi.qualname, "scaled()", "scaling to a requested height multiplies by (hs / current hs) squared")


def _default_is_none(repo, fi, p):
    a = fi.node.args
    pos = a.posonlyargs + a.args
    d = dict(zip([x.arg for x in pos[len(pos) - len(a.defaults):]], a.defaults))
    return p in d and repo.const(fi.module, d[p]) is None


def nonneg(repo, rep):
    """R-C15-2: the shape is a product of non-negative factors: no subtraction except inside exponents / even powers."""
    for name in SHAPES:
        fi = repo.func(f"{FQ}.{name}")
        local = {}
        for s in ast.walk(fi.node):
            if isinstance(s, ast.Assign) and isinstance(s.targets[0], ast.Name):
                local.setdefault(s.targets[0].id, s.value)
        bad = []

        def scan(e, safe, depth=0):
            if depth > 12:
                return
            if isinstance(e, ast.Name) and e.id in local and e.id not in ("dsout",):
                scan(local[e.id], safe, depth + 1)
                return
            if isinstance(e, ast.BinOp):
                if isinstance(e.op, ast.Sub) and not safe:
                    bad.append(e)
                if isinstance(e.op, ast.Pow):
                    n = repo.const(fi.module, e.right)
                    even = isinstance(n, (int, float)) and float(n).is_integer() and int(n) % 2 == 0
                    scan(e.left, safe or even, depth + 1)
                    scan(e.right, True, depth + 1)       # exponents may be negative
                    return
                scan(e.left, safe, depth + 1)
                scan(e.right, safe, depth + 1)
            elif isinstance(e, ast.UnaryOp):
                if isinstance(e.op, ast.USub) and not safe:
                    bad.append(e)
                scan(e.operand, safe, depth + 1)
            elif isinstance(e, ast.Call):
                nm = call_name(e)
                if nm in ("np.exp", "np.tanh", "np.sinh", "np.sqrt", "xr.where", "np.where", "scaled", "jonswap", "wavenuma"):
                    for a in e.args:
                        scan(a, True if nm in ("np.exp", "xr.where", "np.where", "wavenuma", "np.tanh", "np.sinh") else safe, depth + 1)
                else:
                    for a in e.args:
                        scan(a, safe, depth + 1)
        first = None
        for s in fi.node.body:
            if isinstance(s, ast.Assign) and isinstance(s.targets[0], ast.Name) and s.targets[0].id == "dsout":
                scan(s.value, False)
        if bad:
            rep.fail("R-C15-2", fi.file, bad[0].lineno, fi.qualname, unparse(bad[0])[:100],
                     "a subtraction / negation reaches the returned spectrum outside an exponent or an even power: the shape can become negative")
        else:
            rep.ok("R-C15-2", f"{fi.file}:{fi.node.lineno} {name}", "product of non-negative factors", "subtractions only inside exponents and squares")


def forwarding(repo, rep):
    """R-C15-5: a shape built on another shape forwards every shared parameter."""
    pairs = [(f"{FQ}.tma", "jonswap"), (f"{DQ}.asymmetric", "cartwright")]
    for outer_q, inner in pairs:
        outer = repo.func(outer_q)
        calls = [c for c in ast.walk(outer.node) if isinstance(c, ast.Call) and call_name(c) == inner]
        if len(calls) != 1:
            raise AnalysisError(f"{outer.short}: call of {inner} not found")
        c = calls[0]
        sym = repo.resolve_symbol(outer.module, inner)
        if not isinstance(sym, FuncInfo):
            raise AnalysisError(f"{inner} not resolved")
        bound = {}
        for i, a in enumerate(c.args):
            if i < len(sym.params):
                bound[sym.params[i]] = unparse(a)
        for k in c.keywords:
            if k.arg:
                bound[k.arg] = unparse(k.value)
        shared = [p for p in sym.params if p in outer.params and p not in ("kwargs",)]
        missing = [p for p in shared if bound.get(p) != p]
        if outer.name == "asymmetric":
            # dm / dspr are replaced by the frequency-dependent theta / sigma on purpose
            missing = [p for p in missing if p not in ("dm", "dspr")]
            def _derived(nm, src):
                return any(isinstance(a_, ast.Assign) and isinstance(a_.targets[0], ast.Name) and a_.targets[0].id == nm and
                           any(isinstance(x, ast.Name) and x.id == src for x in ast.walk(a_.value)) for a_ in ast.walk(outer.node))
            if not _derived(bound.get("dm"), "dpm") or not _derived(bound.get("dspr"), "dpspr"):
                rep.fail("R-C15-5", outer.file, c.lineno, outer.qualname, unparse(c), "asymmetric must call cartwright with the frequency-dependent direction and spread")
        if missing:
            rep.fail("R-C15-5", outer.file, c.lineno, outer.qualname, unparse(c)[:120],
                     f"{outer.name} accepts {missing} but does not pass {'them' if len(missing) > 1 else 'it'} on to {inner}: non-default values are "
                     "silently ignored (a named parameter never arrives through **kwargs)")
        else:
            rep.ok("R-C15-5", f"{outer.file}:{c.lineno} {outer.name}", unparse(c)[:100], f"every shared parameter of {inner} forwarded")


def spreading(repo, rep):
    from ..astutil import returns, resolve, factors, dim_arg
    fi = repo.func(f"{DQ}.cartwright")
    D = repo.attrs.DIRNAME
    pdir, pdm = fi.params[0], fi.params[1]
    # the returned array Y:  return Y / R2D
    rr = returns(fi.node)
    if len(rr) != 1:
        raise AnalysisError("cartwright: single return expected")
    r0, rv = rr[0]
    if isinstance(rv, ast.BinOp) and isinstance(rv.op, ast.Div) and isinstance(rv.left, ast.Name) and isinstance(repo.const(fi.module, rv.right), float) \
            and abs(repo.const(fi.module, rv.right) - 57.29577951308232) < 1e-9:
        Y = rv.left.id
        rep.ok("R-C15-3", f"{fi.file}:{r0.lineno} cartwright", f"return {Y} / R2D", "per radian -> per degree")
    else:
        rep.fail("R-C15-3", fi.file, r0.lineno, fi.qualname, unparse(rv)[:80], "the normalised function (per radian) must be divided by R2D to be per degree")
        return
    yassign = sorted([n for n in ast.walk(fi.node) if isinstance(n, ast.Assign) and isinstance(n.targets[0], ast.Name) and n.targets[0].id == Y], key=lambda n: n.lineno)
    # folded angular distance X: X = abs(dir - dm) ; X = X.where(X <= 180, 360 - X)
    X = None
    for n in ast.walk(fi.node):
        if isinstance(n, ast.Assign) and isinstance(n.targets[0], ast.Name) and isinstance(n.value, ast.Call) and call_name(n.value) in ("np.abs", "np.absolute", "abs") \
                and n.value.args and isinstance(n.value.args[0], ast.BinOp) and isinstance(n.value.args[0].op, ast.Sub) and \
                {unparse(n.value.args[0].left), unparse(n.value.args[0].right)} == {pdir, pdm}:
            X = n.targets[0].id
    folded = False
    if X:
        for n in ast.walk(fi.node):
            if isinstance(n, ast.Assign) and isinstance(n.targets[0], ast.Name) and n.targets[0].id == X and isinstance(n.value, ast.Call) and \
                    isinstance(n.value.func, ast.Attribute) and n.value.func.attr == "where" and len(n.value.args) == 2:
                c, o = n.value.args
                if isinstance(c, ast.Compare) and unparse(c.left) == X and isinstance(c.ops[0], ast.LtE) and repo.const(fi.module, c.comparators[0]) == 180 and \
                        isinstance(o, ast.BinOp) and isinstance(o.op, ast.Sub) and repo.const(fi.module, o.left) == 360 and unparse(o.right) == X:
                    folded = True
    if folded:
        rep.ok("R-C15-3", f"{fi.file} cartwright", f"{X} = |dir - dm| folded at 180", "angular distance taken the short way round")
    else:
        rep.fail("R-C15-3", fi.file, fi.node.lineno, fi.qualname, "angular distance", "the distance from the mean direction must be folded into [0, 180] (|d| or 360 - |d|)")
    # every restriction relative to dm uses the folded distance
    for n in ast.walk(fi.node):
        if isinstance(n, ast.Compare) and any(isinstance(x, ast.Name) and x.id == pdm for x in ast.walk(n)):
            rep.fail("R-C15-3", fi.file, n.lineno, fi.qualname, unparse(n)[:100],
                     "a direction window around the mean direction is tested on raw direction labels: for dm within the window's half-width "
                     "of the 0/360 seam the part of the lobe across the seam is cut off; the test must use the folded distance")
    mask = [n for n in ast.walk(fi.node) if isinstance(n, ast.If) and isinstance(n.test, ast.Name) and n.test.id in fi.params]
    for m in mask:
        for n in ast.walk(m):
            if isinstance(n, ast.Call) and isinstance(n.func, ast.Attribute) and n.func.attr == "where" and n.args:
                names = {x.id for x in ast.walk(n.args[0]) if isinstance(x, ast.Name)} - {"np"}
                if X and names == {X}:
                    rep.ok("R-C15-3", f"{fi.file}:{n.lineno} cartwright", unparse(n)[:80], "window on the folded distance")
    # normalisation: last assignment Y = Y * Z with Z = 1 / (Y.sum(dir) * (2 pi / N)), after the mask
    if not yassign:
        raise AnalysisError("cartwright: assignments of the spreading array not found")
    last = yassign[-1]
    fs = factors(last.value)
    Z = None
    if len(fs) == 2 and any(unparse(f) == Y for f in fs):
        Z = resolve(fi.node, [f for f in fs if unparse(f) != Y][0], before=last.lineno)
    okn = False
    if Z is not None and isinstance(Z, ast.BinOp) and isinstance(Z.op, ast.Div) and repo.const(fi.module, Z.left) in (1, 1.0):
        den = factors(Z.right)
        sums = [f for f in den if isinstance(f, ast.Call) and isinstance(f.func, ast.Attribute) and f.func.attr == "sum" and unparse(f.func.value) == Y]
        rest = [f for f in den if f not in sums]
        dim_ok = bool(sums) and dim_arg(sums[0]) is not None and repo.const(fi.module, dim_arg(sums[0])) == D
        meas = False
        if len(rest) == 1:
            m_ = rest[0]
            # 2 * pi / dir.size
            if isinstance(m_, ast.BinOp) and isinstance(m_.op, ast.Div) and unparse(m_.right).replace(" ", "") in (f"{pdir}.size", f"len({pdir})"):
                c = repo.const(fi.module, m_.left)
                meas = isinstance(c, float) and abs(c - 6.283185307179586) < 1e-12
        zline = max([n.lineno for n in ast.walk(fi.node) if isinstance(n, ast.Assign) and n.value is Z] + [last.lineno])
        after_mask = all(zline > m.lineno for m in mask)
        okn = dim_ok and meas and after_mask and len(sums) == 1
    if okn:
        rep.ok("R-C15-3", f"{fi.file}:{last.lineno} cartwright", f"{Y} * 1/({Y}.sum({D}) * 2 pi / N)", "normaliser from the same (masked) array over dir with circle measure 2 pi / N")
    else:
        rep.fail("R-C15-3", fi.file, last.lineno, fi.qualname, unparse(last)[:120],
                 "the spreading function must be normalised by the sum of the SAME array (after masking) over the direction dimension times the "
                 "uniform circle measure 2 pi / N, so that it integrates to one for every mean direction and grid orientation")
    # units: per degree
    tab = NativeTable(repo, {})
    ev = UEval(repo, fi, {pdir: Q({"deg": 1}, dims={D}), pdm: Q({"deg": 1}), fi.params[2]: Q({"deg": 1})}, {fi.params[3]: False} if len(fi.params) > 3 else {}, tab)
    ev.run()
    for p_ in ev.problems:
        if p_.kind == "units":
            rep.fail("R-C15-3", fi.file, p_.node.lineno, fi.qualname, unparse(p_.node)[:100], p_.msg)
    for node, v in ev.returns:
        if isinstance(v, Q) and v.u == {"m": 0, "s": 0, "deg": -1}:
            rep.ok("R-C15-3", f"{fi.file}:{node.lineno} cartwright", f"units {v.ustr()}", "spreading density per degree")
        else:
            rep.fail("R-C15-3", fi.file, node.lineno, fi.qualname, f"returns {v}", "a spreading function has units degree^-1")
    # construct_partition: return (<1-D shape> * <spreading>).fillna(0)
    cp = repo.func("wavespectra.construct.construct_partition")
    okc = False
    rr = returns(cp.node)
    if len(rr) == 1:
        r1, v1 = rr[0]
        if isinstance(v1, ast.Call) and isinstance(v1.func, ast.Attribute) and v1.func.attr == "fillna" and v1.args and repo.const(cp.module, v1.args[0]) in (0, 0.0):
            prod = resolve(cp.node, v1.func.value, before=r1.lineno + 1)
            fs = factors(prod)
            if len(fs) == 2:
                srcs = [resolve(cp.node, f, before=r1.lineno + 1) for f in fs]
                kinds = sorted(unparse(x.func) if isinstance(x, ast.Call) else "?" for x in srcs)
                fn_src = {}
                for x in srcs:
                    if isinstance(x, ast.Call) and isinstance(x.func, ast.Name):
                        fn_src[x.func.id] = resolve(cp.node, x.func, before=r1.lineno + 1)
                mods = sorted(repo.const(cp.module, v.args[0]) for v in fn_src.values() if isinstance(v, ast.Call) and call_name(v) == "load_function" and v.args)
                okc = mods == ["wavespectra.construct.direction", "wavespectra.construct.frequency"]
    if okc:
        rep.ok("R-C15-3", f"{cp.file}:{cp.node.lineno} construct_partition", "freq_func(...) * dir_func(...), fillna(0)", "2-D spectrum = shape x spreading, nothing else")
    else:
        rep.fail("R-C15-3", cp.file, cp.node.lineno, cp.qualname, "construct_partition", "the 2-D spectrum must be exactly frequency shape times spreading (missing values zero)")


from ..astutil import monomial, factors  # noqa: E402


def _locals(fi):
    d = {}
    for s in ast.walk(fi.node):
        if isinstance(s, ast.Assign) and isinstance(s.targets[0], ast.Name):
            d.setdefault(s.targets[0].id, s.value)
    return d


def _norm(m, ren):
    if m is None:
        return None
    return (round(m[0], 12), tuple(sorted((ren.get(k, k), v) for k, v in m[1].items())))


def _exp_arg(e, local):
    if isinstance(e, ast.Name) and e.id in local:
        e = local[e.id]
    if isinstance(e, ast.Call) and call_name(e) in ("np.exp", "numpy.exp") and e.args:
        return e.args[0]
    return None


def _shape_terms(repo, fi):
    """Decompose the un-scaled shape product of a frequency-shape function into (prefactor monomial, exponential
    argument monomial, constants of the remaining factors, comparison of the sigma switch) - by shape, not by names."""
    from ..astutil import resolve, factors
    ren = {"fpeak": "fp", "hsig": "hs"}
    rets = [n for n in ast.walk(fi.node) if isinstance(n, ast.Return) and isinstance(n.value, ast.Name)]
    if not rets:
        return None
    out = rets[-1].value.id
    firsts = sorted([n for n in ast.walk(fi.node) if isinstance(n, ast.Assign) and isinstance(n.targets[0], ast.Name) and n.targets[0].id == out], key=lambda n: n.lineno)
    if not firsts:
        return None
    first = firsts[0]

    def flat(x, sign, acc):
        x = resolve(fi.node, x, before=first.lineno + 1) if isinstance(x, ast.Name) else x
        if isinstance(x, ast.BinOp) and isinstance(x.op, ast.Mult):
            flat(x.left, sign, acc); flat(x.right, sign, acc)
        elif isinstance(x, ast.BinOp) and isinstance(x.op, ast.Div):
            flat(x.left, sign, acc); flat(x.right, -sign, acc)
        else:
            acc.append((x, sign))
    fac = []
    flat(first.value, 1, fac)
    coef, ex, exps, others = 1.0, {}, [], []
    for x, sg in fac:
        if isinstance(x, ast.Call) and call_name(x) in ("np.exp", "numpy.exp") and sg == 1:
            exps.append(x)
            continue
        m = monomial(repo, fi.module, x, {})
        if m is None:
            others.append(x)
            continue
        coef = coef * m[0] if sg > 0 else coef / m[0]
        for k, v in m[1].items():
            ex[k] = ex.get(k, Fr(0)) + sg * v
    pre = _norm((coef, {k: v for k, v in ex.items() if v != 0}), ren)
    arg = _norm(monomial(repo, fi.module, exps[0].args[0], {}), ren) if len(exps) == 1 else None
    oc = sorted(float(repo.const(fi.module, n)) for o in others for n in ast.walk(o) if isinstance(n, ast.Constant) and isinstance(n.value, (int, float)))
    # follow names inside the remaining factors one level for their constants (sigma etc. are separate)
    sw = None
    for n in ast.walk(fi.node):
        if isinstance(n, ast.Call) and call_name(n) in ("np.where", "xr.where", "numpy.where") and n.args and isinstance(n.args[0], ast.Compare):
            c = n.args[0]
            sw = (type(c.ops[0]).__name__, ren.get(unparse(c.comparators[0]), unparse(c.comparators[0])))
    return pre, arg, oc, sw


def tma_depth_function(repo, rep):
    """R-C15-7: the TMA depth function is phi(kd) = tanh(kd)^2 / (1 + 2kd / sinh(2kd)) of the UNCLIPPED product kd = wavenuma(freq, dep) * dep
    (phi -> 1 only asymptotically: evaluating it at a capped kd scales every deep-water frequency by phi(cap) < 1)."""
    from ..astutil import resolve as _res
    fi = repo.func(f"{FQ}.tma")
    dep = "dep" if "dep" in fi.params else None
    if dep is None:
        raise AnalysisError("tma: depth parameter not found")

    def kd_factors(e, depth=0):
        """Multiset of factors of e after copy propagation: ('k',) for wavenuma(freq, dep), ('dep',), numeric constants."""
        e = _res(fi.node, e) if isinstance(e, ast.Name) else e
        out = []
        for f_ in factors(e):
            f_ = _res(fi.node, f_) if isinstance(f_, ast.Name) and f_.id not in fi.params else f_
            if isinstance(f_, ast.BinOp) and isinstance(f_.op, ast.Mult) and depth < 4:
                out += kd_factors(f_, depth + 1)
            elif isinstance(f_, ast.Call) and call_name(f_).split(".")[-1] == "wavenuma" and [unparse(a_) for a_ in f_.args] == ["freq", dep]:
                out.append("k")
            elif isinstance(f_, ast.Name) and f_.id == dep:
                out.append("dep")
            else:
                c_ = repo.const(fi.module, f_)
                out.append(("const", c_) if isinstance(c_, (int, float)) else ("other", unparse(f_)[:40]))
        return sorted(out, key=str)
    seen = {"tanh": [], "sinh": []}
    for c_ in ast.walk(fi.node):
        if isinstance(c_, ast.Call) and call_name(c_).split(".")[-1] in seen and c_.args:
            seen[call_name(c_).split(".")[-1]].append((c_, kd_factors(c_.args[0])))
    if not seen["tanh"] or not seen["sinh"]:
        raise AnalysisError("tma: tanh / sinh of kd not found")
    good = all(f_ == ["dep", "k"] for _, f_ in seen["tanh"]) and all(f_ == sorted([("const", 2), "dep", "k"], key=str) for _, f_ in seen["sinh"])
    if good:
        rep.ok("R-C15-7", f"{fi.file}:{seen['tanh'][0][0].lineno} tma", "tanh(k dep), sinh(2 k dep) with k = wavenuma(freq, dep)", "depth function of the unclipped kd")
    else:
        bad = [c_ for c_, f_ in seen["tanh"] + seen["sinh"] if f_ not in (["dep", "k"], sorted([("const", 2), "dep", "k"], key=str))][0]
        rep.fail("R-C15-7", fi.file, bad.lineno, fi.qualname, unparse(bad)[:90],
                 "the TMA depth function must be evaluated at kd = wavenuma(freq, dep) * dep itself: a capped / altered argument makes phi < 1 in "
                 "deep water, so TMA no longer reduces to JONSWAP there", anchor="tma:depth-function-argument")


def twins(repo, rep):
    a, b = repo.func(f"{FQ}.jonswap"), repo.func("wavespectra.core.npstats.jonswap")
    ren = {"fpeak": "fp", "hsig": "hs"}
    facts = {"xarray": _shape_terms(repo, a), "numpy": _shape_terms(repo, b)}
    if facts["xarray"] is None or facts["numpy"] is None or None in facts["xarray"][:2] or None in facts["numpy"][:2]:
        raise AnalysisError("jonswap twins: shape product not understood")
    want_t1 = (round(9.80665 ** 2 / (2 * 3.141592653589793) ** 4, 12), (("alpha", Fr(1)), ("freq", Fr(-5))))
    if facts["xarray"] == facts["numpy"]:
        rep.ok("R-C15-4", "construct.frequency.jonswap <-> npstats.jonswap", f"prefactor {facts['xarray'][0]}, exponent {facts['xarray'][1]}, sigma switch {facts['xarray'][3]}",
               "term-by-term equal (monomial normal form)")
    else:
        rep.fail("R-C15-4", a.file, a.node.lineno, a.qualname, f"xarray {facts['xarray']} vs numpy {facts['numpy']}",
                 "the two JONSWAP implementations (construction and fitting) differ term by term")
    if facts["xarray"][0] != want_t1 or facts["xarray"][1] != (-1.25, (("fp", Fr(4)), ("freq", Fr(-4)))) or facts["xarray"][3] != ("LtE", "fp"):
        rep.fail("R-C15-4", a.file, a.node.lineno, a.qualname, str(facts["xarray"][:2]),
                 "JONSWAP is alpha g^2 (2 pi)^-4 f^-5 exp(-5/4 (f/fp)^-4) gamma^exp(...) with the sigma switch at f <= fp")
    # scaling to a requested height uses the library's own Hs of the spectrum being scaled, in both twins:
    #   factor = (target / hs(spectrum))^2   (npstats.jonswap)        fac = (hs / spec.spec.hs())^2  (utils.scaled, used by the xarray twin)
    def _hs_square_ratio(fi, target):
        for n in ast.walk(fi.node):
            if isinstance(n, ast.BinOp) and isinstance(n.op, ast.Pow) and repo.const(fi.module, n.right) == 2 and isinstance(n.left, ast.BinOp) \
                    and isinstance(n.left.op, ast.Div) and unparse(n.left.left) == target:
                den = n.left.right
                if isinstance(den, ast.Call) and call_name(den).split(".")[-1] == "hs":
                    return n
        return None
    for fi_, target in ((b, "hsig"), (repo.func("wavespectra.core.utils.scaled"), "hs")):
        hit = _hs_square_ratio(fi_, target)
        if hit is not None:
            rep.ok("R-C15-1", f"{fi_.file}:{hit.lineno} {fi_.short}", unparse(hit)[:60], "scaled by (target / library Hs of the same spectrum)^2: measured Hs == requested Hs, tail included")
        else:
            rep.fail("R-C15-1", fi_.file, fi_.node.lineno, fi_.qualname, "scaling to the requested height",
                     f"{fi_.short} must scale by ({target} / hs(spectrum))^2 with the library's own Hs: any other normalisation (plain m0, trapezoid) "
                     "drops the high-frequency tail term, so the measured Hs differs from the requested one on grids ending above 0.333 Hz",
                     anchor=f"hs-scaling:{fi_.short}")
    # Pierson-Moskowitz = the same prefactor and exponential
    pm = repo.func(f"{FQ}.pierson_moskowitz")
    pt = _shape_terms(repo, pm)
    if pt is None:
        raise AnalysisError("pierson_moskowitz: shape product not understood")
    pre, arg = pt[0], pt[1]
    if pre == facts["xarray"][0] and arg == facts["xarray"][1]:
        rep.ok("R-C15-4", f"{pm.file}:{pm.node.lineno} pierson_moskowitz", f"prefactor {pre}, exponent {arg}", "identical to JONSWAP's first two factors (gamma = 1)")
    else:
        rep.fail("R-C15-4", pm.file, pm.node.lineno, pm.qualname, f"prefactor {pre}, exponent {arg}",
                 "Pierson-Moskowitz must equal JONSWAP's prefactor and exponential (JONSWAP with gamma = 1 is PM)")
    g1, g2 = repo.func(f"{FQ}.gaussian"), repo.func("wavespectra.core.npstats.gaussian")

    def gfacts(fi):
        loc = _locals(fi)
        out = []
        for n in ast.walk(fi.node):
            if isinstance(n, ast.Call) and call_name(n) in ("np.exp", "numpy.exp"):
                out.append(sorted(float(c.value) for c in ast.walk(n) if isinstance(c, ast.Constant) and isinstance(c.value, (int, float))))
        consts = sorted(round(float(repo.const(fi.module, c)), 9) for c in ast.walk(fi.node) if isinstance(c, ast.Constant) and isinstance(c.value, (int, float))
                        and not isinstance(getattr(c, "_parent", None), ast.Expr))
        out.append(consts)
        return out
    if gfacts(g1) == gfacts(g2) and None not in gfacts(g1):
        rep.ok("R-C15-4", "construct.frequency.gaussian <-> npstats.gaussian", str(gfacts(g1)), "agree")
    else:
        rep.fail("R-C15-4", g1.file, g1.node.lineno, g1.qualname, f"{gfacts(g1)} vs {gfacts(g2)}", "the two Gaussian implementations differ")


def positive_divisors(repo, rep):
    """R-C15-10: a quantity that is limited from below and then used as a divisor must be limited to a POSITIVE floor: max(x, 0) still allows
    0/0 and x/0 (NaN / inf), which the construction then carries into the whole spectrum (or silently zero-fills)."""
    rep.rule("R-C15-10", "in the construction helpers, a divisor defined through a lower limiter (np.maximum(x, c), clip(min=c)) has c > 0")
    from ..astutil import resolve
    n = 0
    for fi in repo.all_funcs():
        if not fi.qualname.startswith("wavespectra.construct."):
            continue
        for d in ast.walk(fi.node):
            if not (isinstance(d, ast.BinOp) and isinstance(d.op, ast.Div)):
                continue
            den = d.right
            if isinstance(den, ast.Name):
                den = resolve(fi.node, den, before=d.lineno) or den
            floor = None
            if isinstance(den, ast.Call) and (call_name(den) or "").split(".")[-1] in ("maximum", "fmax") and len(den.args) == 2:
                cs = [repo.const(fi.module, a) for a in den.args]
                floor = next((c for c in cs if isinstance(c, (int, float))), None)
            elif isinstance(den, ast.Call) and isinstance(den.func, ast.Attribute) and den.func.attr == "clip":
                k = kwarg(den, "min") or (den.args[0] if den.args else None)
                floor = repo.const(fi.module, k) if k is not None else None
            elif isinstance(den, ast.Call) and (call_name(den) or "").split(".")[-1] == "clip" and len(den.args) >= 2:
                floor = repo.const(fi.module, den.args[1])
            if floor is None or not isinstance(floor, (int, float)):
                continue
            n += 1
            if floor > 0:
                rep.ok("R-C15-10", f"{fi.file}:{d.lineno} {fi.short}", unparse(d)[:70], f"divisor limited to >= {floor}")
            else:
                rep.fail("R-C15-10", fi.file, d.lineno, fi.qualname, f"{unparse(d)[:60]}  with  {unparse(den)[:60]}",
                         f"the divisor is only limited to >= {floor}: when the limited quantity is not positive (mean frequency not above the peak frequency "
                         "for a narrow swell) the gradients are 0/0 or x/0, the modified direction / spread turn NaN and the constructed spectrum is "
                         "NaN or silently zero instead of having the requested height")
    rep.floor("R-C15-10", "limited divisors in the construction helpers", n, 2)


def overflow_safe_depth_function(repo, rep):
    """R-C15-11: TMA's depth function tends to 1 in deep water.  Written as a quotient whose numerator AND denominator both contain sinh / cosh /
    exp of the relative depth it evaluates to inf/inf = NaN once kd exceeds ~355 (open-ocean depths), instead of to 1."""
    rep.rule("R-C15-11", "no quotient in the TMA depth function has an unbounded hyperbolic / exponential term of the depth in both numerator and "
                         "denominator (inf / inf = NaN in deep water, where TMA must equal JONSWAP)")
    fi = repo.func("wavespectra.construct.frequency.tma")
    GROW = ("sinh", "cosh", "exp", "expm1")
    ctrl = ast.parse("p = np.tanh(kd)**2 * np.sinh(2*kd) / (np.sinh(2*kd) + 2*kd)\nq = np.tanh(kd)**2 / (1 + 2*kd/np.sinh(2*kd))")

    def bad_div(tree):
        out = []
        for d in ast.walk(tree):
            if isinstance(d, ast.BinOp) and isinstance(d.op, ast.Div):
                def grows(e):
                    # growth functions that are NOT themselves under a further division inside e
                    res = False
                    stack = [e]
                    while stack:
                        x = stack.pop()
                        if isinstance(x, ast.BinOp) and isinstance(x.op, ast.Div):
                            stack.append(x.left)
                            continue
                        if isinstance(x, ast.Call) and (call_name(x) or "").split(".")[-1] in GROW:
                            res = True
                        stack.extend(ast.iter_child_nodes(x))
                    return res
                num = d.left
                # a * sinh / den : numerator of the whole product chain
                if grows(num) and grows(d.right):
                    out.append(d)
        return out
    if len(bad_div(ctrl)) != 1:
        raise AnalysisError("R-C15-11 self-test: inf/inf quotient idiom not recognised")
    bad = bad_div(fi.node)
    if bad:
        rep.fail("R-C15-11", fi.file, bad[0].lineno, fi.qualname, unparse(bad[0])[:110],
                 "numerator and denominator both grow like sinh / exp of the relative depth: for kd > ~355 (deep ocean) both overflow and the quotient is "
                 "NaN, so deep-water TMA is NaN instead of equal to JONSWAP")
    else:
        rep.ok("R-C15-11", f"{fi.file}:{fi.node.lineno} tma", "depth function", "growth terms appear on one side of each quotient only: the deep-water limit is finite")


def full_circle_spreading(repo, rep):
    """R-C15-12: wherever the package builds a directional distribution with a REQUESTED spread, the cartwright curve is taken over the full circle:
    the effective value of `under_90` (explicit argument, else the parameter's default) is False.  Cut at +-90 deg and renormalised, a broad requested
    spread (> ~25 deg) is not the spread of the result."""
    from ..astutil import bound_args
    rep.rule("R-C15-12", "the effective `under_90` of every cartwright() call in the package is False (explicitly or by the parameter's default)")
    cw = repo.func("wavespectra.construct.direction.cartwright")
    a = cw.node.args
    names = [x.arg for x in a.posonlyargs + a.args]
    default = None
    if "under_90" in names:
        k = names.index("under_90") - (len(names) - len(a.defaults))
        default = repo.const(cw.module, a.defaults[k]) if k >= 0 else None
    elif any(x.arg == "under_90" for x in a.kwonlyargs):
        k = [x.arg for x in a.kwonlyargs].index("under_90")
        default = repo.const(cw.module, a.kw_defaults[k]) if a.kw_defaults[k] is not None else None
    else:
        raise AnalysisError("cartwright: parameter under_90 vanished")
    n_ = 0
    for fi in repo.all_funcs():
        if fi.module.name.startswith(("wavespectra.plot", "wavespectra.cli")) or fi is cw:
            continue
        for c in ast.walk(fi.node):
            if isinstance(c, ast.Call) and call_name(c).split(".")[-1] == "cartwright":
                sym = repo.resolve_expr(fi.module, c.func)
                if sym is not cw:
                    continue
                n_ += 1
                b = bound_args(repo, fi, c) or {}
                eff = repo.const(fi.module, b["under_90"]) if "under_90" in b else default
                if "under_90" in b and isinstance(b["under_90"], ast.Name) and b["under_90"].id in fi.params:
                    rep.ok("R-C15-12", f"{fi.file}:{c.lineno} {fi.short}", unparse(c)[:70], "forwards its own caller's choice")
                elif eff is False:
                    rep.ok("R-C15-12", f"{fi.file}:{c.lineno} {fi.short}", unparse(c)[:70], "full-circle curve")
                else:
                    rep.fail("R-C15-12", fi.file, c.lineno, fi.qualname, unparse(c)[:90] + ("" if "under_90" in b else f"   [default under_90={default}]"),
                             "the spreading curve is cut at +-90 degrees from the mean direction and renormalised: for a requested spread above ~25 degrees the "
                             "spectrum built does not have the spread it was built from", anchor=f"cartwright-under90:{fi.short}")
    rep.floor("R-C15-12", "cartwright() call sites", n_, 3)


def run(repo, rep, tier):
    from .round7b import hygiene
    hygiene(repo, rep, "C15", ('wavespectra.construct',), falsy=True)
    rep.rule("R-C15-13", "the exponent s of the cos-2s spreading is the exact function of the requested spread: no limiter on it (a clipped s gives every broader / "
                         "narrower request the limit's spread)")
    rep.rule("R-C15-14", "a choice between two constructed shapes is made with where(), never by blending `cond * a + (1 - cond) * b` (0 * NaN leaks the shape that "
                         "was not selected)")
    from .round7 import no_limiter_on, no_arithmetic_blend
    no_limiter_on(repo, rep, "R-C15-13", "wavespectra.construct.direction.cartwright", "cos", "the spreading exponent s")
    no_arithmetic_blend(repo, rep, "R-C15-14", ("wavespectra.construct",))
    full_circle_spreading(repo, rep)
    positive_divisors(repo, rep)
    overflow_safe_depth_function(repo, rep)
    rep.rule("R-C15-8", "every parameter of the functions behind this property is read (parametric shapes): none is accepted and then ignored, and no control parameter (cutoff, limit, tolerance, window, count, switch) is replaced by another value before use (coercion and default filling aside)")
    from .shared import unused_parameters
    unused_parameters(repo, rep, "R-C15-8", ("wavespectra.construct", "wavespectra.core.npstats.jonswap", "wavespectra.core.npstats.gaussian"), "parametric shapes")
    rep.rule("R-C15-9", "(shared with C01) the accessor's dm / dspr that measure a constructed spectrum divide moments taken over one band (no "
                        "tail-including hs() as the energy total)")
    from .shared import same_band_ratios
    same_band_ratios(repo, rep, "R-C15-9")
    rep.rule("R-C15-1", "when hs is requested the last value-changing operation is scaled(spectrum, hs) = (hs/Hs)^2 * spectrum")
    rep.rule("R-C15-2", "each shape is a product of non-negative factors (subtraction only inside exponents / even powers)")
    rep.rule("R-C15-3", "spreading: folded angular distance, windows on the folded distance, normaliser from the same masked array over dir "
                        "with circle measure 2 pi / N, per degree; 2-D = shape x spreading")
    rep.rule("R-C15-4", "sibling implementations (construction vs fitting) agree on the shape constants")
    rep.rule("R-C15-5", "shapes built on other shapes forward every shared parameter")
    rep.rule("R-C15-6", "(shared with C05) direction bin widths are taken circularly")
    from .c05 import circular_width
    circular_width(repo, rep, "R-C15-6")
    scaling_last(repo, rep)
    nonneg(repo, rep)
    forwarding(repo, rep)
    try:
        spreading(repo, rep)
    except AnalysisError as e:
        if not rep.findings:
            raise
        rep.note(f"spreading rules stopped early ({e}); the violations above already decide the run")
    twins(repo, rep)
    rep.rule("R-C15-7", "TMA: depth function of the unclipped kd = wavenuma(freq, dep) * dep")
    tma_depth_function(repo, rep)
    rep.trust("Python ast; units algebra for the spreading function")
    rep.note("not decided: JONSWAP(gamma=1) = PM, deep-water TMA = JONSWAP, measured dm/dspr equal the requested ones (numeric identities)")
    return ("Static structural rules over the construct package: CFG order (scaling last), sign analysis of the shape expressions, "
            "argument-forwarding completeness between shapes, the spreading function's folded distance / normaliser / units, sibling "
            "constant agreement with the numpy twins, circular bin widths.")
