"""C16 - smoothing is a local circular average that keeps the grid."""
import ast

from ..model import UNKNOWN, call_name, kwarg, unparse
from ..order import OrderAnalysis
from ..report import AnalysisError

Q = "wavespectra.core.utils.smooth_spec"


def _leaked_loop_value(fi, name):
    """If `name` is the target of a `for name in <literal list/tuple/dict>` loop, the value it keeps after the loop."""
    for n in ast.walk(fi.node):
        if isinstance(n, ast.For) and isinstance(n.target, ast.Name) and n.target.id == name:
            it = n.iter
            if isinstance(it, (ast.List, ast.Tuple)) and it.elts:
                return it.elts[-1]
            return UNKNOWN
        if isinstance(n, ast.For) and isinstance(n.target, ast.Tuple):
            names = [e.id for e in n.target.elts if isinstance(e, ast.Name)]
            if name in names:
                it = n.iter
                # for k, v in {...}.items()
                if isinstance(it, ast.Call) and isinstance(it.func, ast.Attribute) and it.func.attr == "items" and isinstance(it.func.value, ast.Dict):
                    d = it.func.value
                    idx = names.index(name)
                    return (d.keys if idx == 0 else d.values)[-1]
                return UNKNOWN
    return None


def _free_names(e):
    return {n.id for n in ast.walk(e) if isinstance(n, ast.Name)} - {"np", "None", "int", "max", "min", "abs"}


class _NoEval(Exception):
    pass


def _ev(e, env):
    """Evaluate a window test over concrete window sizes (finite case analysis; only the constructs such a test is made of)."""
    if isinstance(e, ast.Constant):
        return e.value
    if isinstance(e, ast.Name):
        if e.id in env:
            return env[e.id]
        raise _NoEval(e.id)
    if isinstance(e, (ast.Tuple, ast.List)):
        return [_ev(x, env) for x in e.elts]
    if isinstance(e, ast.UnaryOp) and isinstance(e.op, ast.Not):
        return not _ev(e.operand, env)
    if isinstance(e, ast.BoolOp):
        vals = [_ev(v, env) for v in e.values]
        return all(vals) if isinstance(e.op, ast.And) else any(vals)
    if isinstance(e, ast.BinOp):
        a, b = _ev(e.left, env), _ev(e.right, env)
        ops = {ast.Add: lambda: a + b, ast.Sub: lambda: a - b, ast.Mult: lambda: a * b, ast.FloorDiv: lambda: a // b, ast.Mod: lambda: a % b}
        if type(e.op) in ops:
            return ops[type(e.op)]()
        raise _NoEval("op")
    if isinstance(e, ast.Compare):
        left = _ev(e.left, env)
        for op, c in zip(e.ops, e.comparators):
            right = _ev(c, env)
            r = {ast.Lt: left < right, ast.LtE: left <= right, ast.Gt: left > right, ast.GtE: left >= right, ast.Eq: left == right,
                 ast.NotEq: left != right}.get(type(op))
            if r is None:
                raise _NoEval("cmp")
            if not r:
                return False
            left = right
        return True
    if isinstance(e, ast.Call) and isinstance(e.func, ast.Name) and e.func.id in ("all", "any", "max", "min") and e.args:
        a = e.args[0]
        if isinstance(a, (ast.GeneratorExp, ast.ListComp)) and len(a.generators) == 1 and isinstance(a.generators[0].target, ast.Name) and not a.generators[0].ifs:
            items = _ev(a.generators[0].iter, env)
            vals = [_ev(a.elt, dict(env, **{a.generators[0].target.id: it})) for it in items]
        elif len(e.args) > 1:
            vals = [_ev(x, env) for x in e.args]
        else:
            vals = _ev(a, env)
        return {"all": all, "any": any, "max": max, "min": min}[e.func.id](vals)
    raise _NoEval(type(e).__name__)


def no_premature_return(repo, rep, fi, fw, dw):
    """The input may be handed back unsmoothed only when BOTH windows are 1 (then smoothing is the identity)."""
    from ..astutil import path_conditions
    P0 = fi.params[0]
    roll = [n for n in ast.walk(fi.node) if isinstance(n, ast.Call) and isinstance(n.func, ast.Attribute) and n.func.attr == "rolling"]
    n = 0
    for r in ast.walk(fi.node):
        if isinstance(r, ast.Return) and isinstance(r.value, ast.Name) and r.value.id == P0 and roll and r.lineno < roll[0].lineno:
            n += 1
            pcs = path_conditions(fi.node, r)
            wrong = None
            try:
                for a in (1, 3, 5):
                    for b in (1, 3, 5):
                        taken = all(bool(_ev(t, {fw: a, dw: b})) == truth for t, truth in pcs)
                        if taken and (a, b) != (1, 1):
                            wrong = (a, b)
            except _NoEval as ex:
                raise AnalysisError(f"smooth_spec: early return of the input under a condition that is not a window test ({ex})")
            if wrong:
                rep.fail("R-C16-3", fi.file, r.lineno, fi.qualname, f"return {P0}  under  " + " and ".join(("" if tr else "not ") + unparse(t)[:60] for t, tr in pcs),
                         f"the input is returned unsmoothed for windows ({fw}, {dw}) = {wrong}: smoothing is the identity only when BOTH windows are 1, so the "
                         "requested running mean along the other dimension is silently skipped")
            else:
                rep.ok("R-C16-3", f"{fi.file}:{r.lineno} smooth_spec", f"return {P0}", "only for windows (1, 1)")
    return n


def run(repo, rep, tier):
    rep.rule("R-C16-7", "smooth_spec casts a coordinate at most, never the spectra, to a narrower type")
    from .round7b import narrowing_cast_on_data
    rep.floor("R-C16-7", "narrowing casts in smooth_spec", narrowing_cast_on_data(repo, rep, "R-C16-7", "wavespectra.core.utils.smooth_spec"), 0)
    from .round7b import hygiene
    hygiene(repo, rep, "C16", ('wavespectra.core.utils',), falsy=True)
    rep.rule("R-C16-6", "(shared with C03) the NaN a centred window leaves at the grid edges is filled from the input on every path")
    from .round7 import unconditional_boundary_fill
    unconditional_boundary_fill(repo, rep, "R-C16-6")
    rep.rule("R-C16-5", "every parameter of the functions behind this property is read (smoothing): none is accepted and then ignored, and no control parameter (cutoff, limit, tolerance, window, count, switch) is replaced by another value before use (coercion and default filling aside)")
    from .shared import unused_parameters
    unused_parameters(repo, rep, "R-C16-5", ("wavespectra.core.utils.smooth_spec", "wavespectra.specarray.SpecArray.smooth", "wavespectra.partition.partition.Partition"), "smoothing")
    rep.rule("R-C16-1", "both window sizes are tested for evenness and ValueError is raised before any data operation")
    rep.rule("R-C16-2", "circular padding: last bins relabelled -360 in front, first bins +360 behind, width derived from the "
                        "DIRECTION window, only under the circularity test |max - min + dd - 360| < 0.1 dd")
    rep.rule("R-C16-3", "centred rolling mean with freq/dir windows on their own dimensions; grid restored by label selection of the "
                        "input directions, input coordinates re-attached, NaN edges filled from the input")
    rep.rule("R-C16-4", "(shared with C05) labels follow data through the sort / pad / clip sequence")
    fi = repo.func(Q)
    fw, dw = fi.params[1], fi.params[2]
    body = fi.node.body
    D, F = repo.attrs.DIRNAME, repo.attrs.FREQNAME
    # ---- R-C16-1 ----
    # the first DATA operation: an assignment whose value is more than a name / constant (aliases of the window parameters are not data operations)
    first_data = next((s for s in body if isinstance(s, ast.Assign) and not isinstance(s.value, (ast.Name, ast.Constant))), None)
    alias = {s.targets[0].id: s.value.id for s in ast.walk(fi.node) if isinstance(s, ast.Assign) and len(s.targets) == 1 and isinstance(s.targets[0], ast.Name)
             and isinstance(s.value, ast.Name) and s.value.id in (fw, dw)}
    raises = [n for n in ast.walk(fi.node) if isinstance(n, ast.Raise)]
    covered = set()
    for n in ast.walk(fi.node):
        if isinstance(n, ast.If) and any(isinstance(x, ast.Raise) for x in ast.walk(n)):
            t = n.test
            names = _free_names(t)
            is_even = "% 2" in unparse(t)
            if not is_even:
                continue
            for nm in names:
                nm = alias.get(nm, nm)
                if nm in (fw, dw):
                    covered.add(nm)
                else:
                    p = getattr(n, "_parent", None)
                    while p is not None and not isinstance(p, ast.For):
                        p = getattr(p, "_parent", None)
                    if p is not None and isinstance(p.iter, (ast.List, ast.Tuple, ast.Dict)):
                        covered |= _free_names(p.iter) & {fw, dw}
                    elif p is not None:
                        covered |= _free_names(p.iter) & {fw, dw}
            exc = [x for x in ast.walk(n) if isinstance(x, ast.Raise)][0].exc
            nm = unparse(exc.func) if isinstance(exc, ast.Call) else unparse(exc)
            if nm != "ValueError":
                rep.fail("R-C16-1", fi.file, n.lineno, fi.qualname, unparse(n.test), f"even windows must be rejected with ValueError, not {nm}")
            if first_data is not None and n.lineno > first_data.lineno:
                rep.fail("R-C16-1", fi.file, n.lineno, fi.qualname, unparse(n.test), "the window check must precede every data operation")
    if covered == {fw, dw}:
        rep.ok("R-C16-1", f"{fi.file} smooth_spec", f"evenness of {fw} and {dw} -> ValueError", "both windows validated first")
    else:
        rep.fail("R-C16-1", fi.file, fi.node.lineno, fi.qualname, "window validation",
                 f"window(s) {sorted({fw, dw} - covered)} are not checked for evenness: an even window is not symmetric")
    # ---- R-C16-2 ----
    pads = {}
    for n in ast.walk(fi.node):
        if isinstance(n, ast.Assign) and isinstance(n.targets[0], ast.Name) and isinstance(n.value, ast.Call) and \
                isinstance(n.value.func, ast.Attribute) and n.value.func.attr == "isel":
            for k in n.value.keywords:
                v = k.value
                sl = None
                if isinstance(v, ast.Dict):
                    for kk, vv in zip(v.keys, v.values):
                        if repo.const(fi.module, kk) == D and isinstance(vv, ast.Call) and call_name(vv) == "slice":
                            sl = vv
                elif k.arg == D and isinstance(v, ast.Call) and call_name(v) == "slice":
                    sl = v
                if sl is not None:
                    pads[n.targets[0].id] = (n, sl)
    concat0 = [n for n in ast.walk(fi.node) if isinstance(n, ast.Call) and call_name(n) in ("xr.concat", "xarray.concat")
               and n.args and isinstance(n.args[0], (ast.List, ast.Tuple)) and len(n.args[0].elts) == 3]
    if concat0:
        ends = {unparse(concat0[0].args[0].elts[0]), unparse(concat0[0].args[0].elts[2])}
        pads = {k: v for k, v in pads.items() if k in ends}
    if len(pads) != 2:
        raise AnalysisError("smooth_spec: the two circular pad slices not found")
    shifts = {}
    for n in ast.walk(fi.node):
        if isinstance(n, ast.Assign) and isinstance(n.targets[0], ast.Name) and n.targets[0].id in pads and isinstance(n.value, ast.Call) and \
                isinstance(n.value.func, ast.Attribute) and n.value.func.attr == "assign_coords":
            for b in ast.walk(n.value):
                if isinstance(b, ast.BinOp) and isinstance(b.op, (ast.Add, ast.Sub)) and repo.const(fi.module, b.right) == 360:
                    shifts[n.targets[0].id] = (-360 if isinstance(b.op, ast.Sub) else 360, n)
    concat = [n for n in ast.walk(fi.node) if isinstance(n, ast.Call) and call_name(n) in ("xr.concat", "xarray.concat")
              and n.args and isinstance(n.args[0], (ast.List, ast.Tuple)) and len(n.args[0].elts) == 3]
    if not concat:
        raise AnalysisError("smooth_spec: concat([left, dsout, right]) not found")
    order = [unparse(e) for e in concat[0].args[0].elts]
    widths = []
    for name, (n, sl) in pads.items():
        a = [repo.const(fi.module, x) if not isinstance(x, ast.UnaryOp) or not isinstance(x.operand, ast.Name) else x for x in sl.args]
        lo, hi = (sl.args + [None, None])[:2]
        tail = isinstance(lo, ast.UnaryOp) and isinstance(lo.op, ast.USub) and (hi is None or repo.const(fi.module, hi) is None)
        head = (repo.const(fi.module, lo) in (0, None)) and hi is not None and not isinstance(hi, ast.UnaryOp)
        w = lo.operand if tail else (hi if head else None)
        if w is None:
            raise AnalysisError("smooth_spec: pad slice form not understood")
        widths.append((name, w))
        sh = shifts.get(name, (None, n))[0]
        pos = order.index(name) if name in order else None
        legal = (tail and sh == -360 and pos == 0) or (head and sh == 360 and pos == 2)
        if legal:
            rep.ok("R-C16-2", f"{fi.file}:{n.lineno} smooth_spec", f"{name} = {'last' if tail else 'first'} bins, {sh:+d}, position {pos}",
                   "copy of the far end relabelled across the seam and placed on the matching side")
        else:
            rep.fail("R-C16-2", fi.file, n.lineno, fi.qualname, f"{unparse(n)}; shift {sh}; position {pos} in {order}",
                     "circular padding must take the LAST bins, relabel them -360 and put them IN FRONT, and the FIRST bins +360 BEHIND; "
                     "any other pairing averages across the wrong neighbours at the 0/360 seam")
    for name, w in widths:
        src = w
        if isinstance(w, ast.Name):
            lk = _leaked_loop_value(fi, w.id)
            if lk is UNKNOWN:
                raise AnalysisError("smooth_spec: pad width comes from a loop variable over a non-literal iterable")
            if lk is not None:
                src = lk
        names = _free_names(src)
        if names == {dw}:
            rep.ok("R-C16-2", f"{fi.file} smooth_spec", f"pad width of '{name}' = {unparse(w)} -> {unparse(src)}", "derived from the direction window")
        else:
            rep.fail("R-C16-2", fi.file, pads[name][0].lineno, fi.qualname, f"{unparse(pads[name][0])}  (width {unparse(w)} = {unparse(src)})",
                     f"the circular padding must be at least half the DIRECTION window wide; it is derived from {sorted(names) or unparse(src)}: "
                     f"for {dw} // 2 larger than that, bins next to the seam are not averaged across it")
    # circularity test
    pad_nodes = [pads[k][0] for k in pads]
    guards_ = [n for n in ast.walk(fi.node) if isinstance(n, ast.If) and isinstance(n.test, (ast.Name, ast.Compare)) and pad_nodes
               and all(any(pn is x for x in ast.walk(n)) for pn in pad_nodes)]
    # innermost such guard
    guards_ = [g for g in guards_ if not any(h is not g and any(h is x for x in ast.walk(g)) for h in guards_)]
    cname = guards_[0].test.id if guards_ and isinstance(guards_[0].test, ast.Name) else None
    circ = [n for n in ast.walk(fi.node) if isinstance(n, ast.Assign) and isinstance(n.targets[0], ast.Name) and n.targets[0].id == cname
            and isinstance(n.value, ast.Compare)]
    if guards_ and isinstance(guards_[0].test, ast.Compare):
        # `if abs(coverage - 360) < tol: pad` without an intermediate flag
        circ = [ast.copy_location(ast.Assign(targets=[ast.Name(id="<test>", ctx=ast.Store())], value=guards_[0].test), guards_[0])]
    if not circ:
        raise AnalysisError("smooth_spec: is_circular test not found")
    c = circ[0].value
    lhs = c.left
    # the spacing entering the test is the exact spacing of the grid: no rounding / truncation of the differences (a 2.5 degree grid rounded to whole degrees
    # misses the tenth-of-a-bin tolerance and is no longer recognised as a full circle)
    for d_ in ast.walk(fi.node):
        if isinstance(d_, ast.Call) and call_name(d_).split(".")[-1] == "diff" and d_.args and unparse(d_.args[0]) in ("dirs", "dsout[attrs.DIRNAME].values", "dsout.dir.values"):
            p_ = getattr(d_, "_parent", None)
            hops = 0
            while p_ is not None and hops < 4:
                nm_ = p_.attr if isinstance(p_, ast.Attribute) else (call_name(p_).split(".")[-1] if isinstance(p_, ast.Call) else "")
                if nm_ in ("round", "rint", "floor", "ceil", "trunc", "around", "astype") and (nm_ != "astype" or (isinstance(p_, ast.Attribute) or "int" in unparse(p_))):
                    if nm_ != "astype" or "int" in unparse(getattr(p_, "_parent", p_)):
                        rep.fail("R-C16-2", fi.file, d_.lineno, fi.qualname, unparse(getattr(p_, "_parent", p_))[:90],
                                 "the direction spacing is rounded before the full-circle test: fine grids (2.5, 1.25, 0.5 degrees) then fail the tenth-of-a-bin "
                                 "tolerance, get no circular padding and the window does not wrap at the seam", anchor="smooth_spec:rounded-spacing")
                        break
                p_ = getattr(p_, "_parent", None)
                hops += 1
    if isinstance(lhs, ast.Call) and call_name(lhs) in ("abs", "np.abs", "np.absolute") and isinstance(c.ops[0], ast.Lt) and "360" in unparse(lhs):
        rep.ok("R-C16-2", f"{fi.file}:{circ[0].lineno} smooth_spec", unparse(circ[0])[:100], "|coverage - 360| below a tenth of a bin")
    else:
        rep.fail("R-C16-2", fi.file, circ[0].lineno, fi.qualname, unparse(circ[0])[:120],
                 "the full-circle test must bound the ABSOLUTE deviation of max - min + dd from 360: without abs() every partial "
                 "direction sector counts as circular and its two ends are averaged into each other")
    # ... and it must be a function of direction DIFFERENCES only (coverage = max - min + dd): a test that involves an absolute direction
    # (dirs[-1] + dd - 360) holds for grids starting at 0 only, so a full-circle grid with another origin is not padded and the window does
    # not wrap - smoothing then does not commute with circular shifts / relabelling of the direction axis
    dirvars = set()
    for n in ast.walk(fi.node):
        if isinstance(n, ast.Assign) and isinstance(n.targets[0], ast.Name) and not isinstance(n.value, ast.Compare):
            v = n.value
            if any((isinstance(x, ast.Attribute) and x.attr in (D, "DIRNAME")) or (isinstance(x, ast.Constant) and x.value == D) for x in ast.walk(v)) \
                    and not any(isinstance(x, ast.Call) and call_name(x).split(".")[-1] in ("diff", "isel", "sel", "sortby", "concat", "rolling", "assign_coords", "where", "chunk", "ediff1d", "gradient") for x in ast.walk(v)):
                dirvars.add(n.targets[0].id)

    def absdeg(e):
        if isinstance(e, ast.Constant):
            return 0
        if isinstance(e, ast.Name):
            return 1 if e.id in dirvars else 0
        if isinstance(e, ast.Subscript):
            if repo.const(fi.module, e.slice) == D:
                return 1                      # x["dir"]: the direction values themselves
            return absdeg(e.value)
        if isinstance(e, ast.Attribute):
            if e.attr == D:
                return 1
            return absdeg(e.value)
        if isinstance(e, ast.Call):
            nm = call_name(e).split(".")[-1] if call_name(e) else ""
            if nm in ("list", "set", "sorted", "tuple", "unique", "array", "asarray", "frozenset") and e.args:
                return absdeg(e.args[0])
            if isinstance(e.func, ast.Attribute) and e.func.attr in ("max", "min", "item", "astype", "mean") and not e.args:
                return absdeg(e.func.value)
            if nm in ("max", "min", "float", "abs", "absolute", "amax", "amin", "asarray", "array") and e.args:
                return absdeg(e.args[0])
            if nm in ("diff", "ediff1d", "gradient", "ptp"):
                return 0
            return None
        if isinstance(e, ast.UnaryOp):
            d_ = absdeg(e.operand)
            return None if d_ is None else (-d_ if isinstance(e.op, ast.USub) else d_)
        if isinstance(e, ast.BinOp):
            a_, b_ = absdeg(e.left), absdeg(e.right)
            if a_ is None or b_ is None:
                return None
            if isinstance(e.op, ast.Add):
                return a_ + b_
            if isinstance(e.op, ast.Sub):
                return a_ - b_
            if isinstance(e.op, (ast.Mult, ast.Div)) and a_ == 0 and b_ == 0:
                return 0
            return None
        return None
    if isinstance(lhs, ast.Call) and lhs.args:
        dg = absdeg(lhs.args[0])
        if dg is None:
            raise AnalysisError(f"smooth_spec: circularity test {unparse(lhs)[:60]} not understood (direction-shift degree)")
        if dg != 0:
            rep.fail("R-C16-2", fi.file, circ[0].lineno, fi.qualname, unparse(circ[0])[:120],
                     "the full-circle test depends on an absolute direction value, not only on direction differences (max - min + dd): a full-circle "
                     "grid whose first direction is not 0 (5, 15, .., 355 or -180 .. 170) is not recognised, the window does not wrap across the seam, "
                     "and smoothing no longer commutes with circular shifts of the direction axis")
        else:
            rep.ok("R-C16-2", f"{fi.file}:{circ[0].lineno} smooth_spec", unparse(lhs.args[0])[:80], "built from direction differences only: independent of the grid's origin")
    elif not dirvars and not (isinstance(lhs, ast.Call) and lhs.args):
        raise AnalysisError("smooth_spec: direction values variable not identified")
    guard = guards_
    if guard and all(pads[k][0] in list(ast.walk(guard[0])) for k in pads):
        rep.ok("R-C16-2", f"{fi.file}:{guard[0].lineno} smooth_spec", "if is_circular: pad", "padding only for full-circle grids")
    else:
        rep.fail("R-C16-2", fi.file, fi.node.lineno, fi.qualname, "padding guard", "padding must happen only under the circularity test")
    # ---- R-C16-3 ----
    no_premature_return(repo, rep, fi, fw, dw)
    # the working copy may be transposed for speed only if the caller's dimension order is restored: the result takes its order from it
    trs = [c for c in ast.walk(fi.node) if isinstance(c, ast.Call) and isinstance(c.func, ast.Attribute) and c.func.attr == "transpose"]
    restored = any(isinstance(c.args[0] if c.args else None, ast.Starred) and unparse(c.args[0].value).replace(" ", "") in (f"{fi.params[0]}.dims", f"{fi.params[0]}[{repo.attrs.SPECNAME!r}].dims")
                   for c in trs)
    others = [c for c in trs if not (c.args and isinstance(c.args[0], ast.Starred))]
    if others and not restored:
        rep.fail("R-C16-3", fi.file, others[0].lineno, fi.qualname, unparse(others[0])[:100],
                 "the working copy is transposed and the caller's dimension order is never restored (no transpose(*input.dims) afterwards): the values are "
                 "right per label but the result's dimensions come back in another order than the input's")
    else:
        rep.ok("R-C16-3", f"{fi.file} smooth_spec", f"{len(trs)} transpose call(s)", "the result keeps the input's dimension order")
    # the window must see its neighbours: a rolling mean evaluated block by block (map_blocks / apply_ufunc / map_overlap without depth) truncates the
    # window at every chunk boundary of a windowed dimension that is not collapsed into one chunk first
    perblock = [c for c in ast.walk(fi.node) if isinstance(c, ast.Call) and isinstance(c.func, ast.Attribute) and c.func.attr in ("map_blocks", "map_overlap", "blockwise")
                and any(isinstance(x, ast.Call) and isinstance(x.func, ast.Attribute) and x.func.attr == "rolling" for a_ in list(c.args) + [k_.value for k_ in c.keywords] for x in ast.walk(a_))]
    for c in perblock:
        single = set()
        for ch in ast.walk(fi.node):
            if isinstance(ch, ast.Call) and isinstance(ch.func, ast.Attribute) and ch.func.attr == "chunk" and (ch.lineno, ch.col_offset) < (c.lineno, c.col_offset):
                for k_ in ch.keywords:
                    if k_.arg in (F, D) and repo.const(fi.module, k_.value) == -1:
                        single.add(k_.arg)
        if single != {F, D}:
            rep.fail("R-C16-3", fi.file, c.lineno, fi.qualname, unparse(c)[:100],
                     f"the running mean is evaluated block by block while {sorted({F, D} - single)} may be split into several chunks: the windows next to every "
                     "internal chunk boundary are cut (they come back NaN and are refilled with the unsmoothed input)", anchor="smooth_spec:per-block-rolling")
    roll = [n for n in ast.walk(fi.node) if isinstance(n, ast.Call) and isinstance(n.func, ast.Attribute) and n.func.attr == "rolling"]
    if len(roll) != 1:
        if any(f_.anchor == "smooth_spec:per-block-rolling" for f_ in rep.findings):
            return
        raise AnalysisError("smooth_spec: rolling() not found")
    # the mean of a window is a real number: the result is never cast (back) to the input's own dtype
    for c in ast.walk(fi.node):
        if isinstance(c, ast.Call) and isinstance(c.func, ast.Attribute) and c.func.attr == "astype" and c.args \
                and any(isinstance(x, ast.Attribute) and x.attr == "dtype" and isinstance(x.value, ast.Name) and x.value.id in fi.params[:1] for x in ast.walk(c.args[0])) \
                and (c.lineno, c.col_offset) > (roll[0].lineno, roll[0].col_offset):
            rep.fail("R-C16-3", fi.file, c.lineno, fi.qualname, unparse(c)[:90],
                     "the smoothed values are cast to the dtype of the input: for integer-typed spectra (packed / counts) every window mean is truncated and is "
                     "no longer the mean of its window", anchor="smooth_spec:cast-to-input-dtype")
    r = roll[0]
    dimarg = kwarg(r, "dim") or (r.args[0] if r.args else None)
    mapping = None
    if isinstance(dimarg, ast.Name):
        for n in ast.walk(fi.node):
            if isinstance(n, ast.Assign) and isinstance(n.targets[0], ast.Name) and n.targets[0].id == dimarg.id and isinstance(n.value, ast.Dict):
                mapping = n.value
    elif isinstance(dimarg, ast.Dict):
        mapping = dimarg
    got = {}
    if mapping is not None:
        for k, v in zip(mapping.keys, mapping.values):
            got[repo.const(fi.module, k)] = unparse(v)
    for k in r.keywords:
        if k.arg in (F, D):
            got[k.arg] = unparse(k.value)
    center = kwarg(r, "center")
    if got == {F: fw, D: dw} and center is not None and repo.const(fi.module, center) is True:
        rep.ok("R-C16-3", f"{fi.file}:{r.lineno} smooth_spec", f"rolling({got}, center=True).mean()", "each window on its own dimension, centred")
    else:
        rep.fail("R-C16-3", fi.file, r.lineno, fi.qualname, f"rolling({got}, center={unparse(center) if center is not None else None})",
                 f"the running mean must use {fw} along {F} and {dw} along {D}, centred")
    nxt = getattr(r, "_parent", None)
    if not (isinstance(nxt, ast.Attribute) and nxt.attr == "mean"):
        rep.fail("R-C16-3", fi.file, r.lineno, fi.qualname, unparse(nxt)[:80] if nxt is not None else "rolling", "the window statistic must be the mean")
    t = unparse(fi.node).replace(" ", "")
    P0 = fi.params[0]
    wh = [c_ for c_ in ast.walk(fi.node) if isinstance(c_, ast.Call) and call_name(c_).split(".")[-1] == "where" and len(c_.args) == 3
          and isinstance(c_.args[0], ast.Call) and isinstance(c_.args[0].func, ast.Attribute) and c_.args[0].func.attr == "notnull"
          and unparse(c_.args[0].func.value) == unparse(c_.args[1]) and unparse(c_.args[2]) == P0 and unparse(c_.args[1]) != P0]
    if wh:
        rep.ok("R-C16-3", f"{fi.file} smooth_spec", "xr.where(dsout.notnull(), dsout, dset)", "edges where the window does not fit keep the input")
    else:
        rep.fail("R-C16-3", fi.file, fi.node.lineno, fi.qualname, "edge fill", "NaN edges of the rolling mean must be filled from the input spectrum")
    if f"assign_coords({P0}.coords)" in t:
        rep.ok("R-C16-3", f"{fi.file} smooth_spec", "assign_coords(dset.coords)", "input coordinates (and their order) restored")
    else:
        rep.fail("R-C16-3", fi.file, fi.node.lineno, fi.qualname, "coordinate restore", "the output must carry exactly the input's coordinates")
    # ---- R-C16-4 ----
    oa = OrderAnalysis(repo, fi, D)
    ev = oa.run()
    for kind, node, msg in ev:
        rep.fail("R-C16-4", fi.file, node.lineno, fi.qualname, unparse(node)[:120], msg)
    rep.ok("R-C16-4", f"{fi.file} smooth_spec", f"{oa.checked} order-sensitive operations", "positional ops on the sorted object; labels re-attached after label selection")
    # accessor and partition callers pass the windows through
    # every package caller of smooth_spec (the partition methods included) hands each window to its own parameter
    ncallers = 0
    for f3 in repo.all_funcs():
        if f3.qualname in (Q, "wavespectra.specarray.SpecArray.smooth"):
            continue
        for c3 in ast.walk(f3.node):
            if isinstance(c3, ast.Call) and call_name(c3).split(".")[-1] == "smooth_spec":
                ncallers += 1
                from ..astutil import bound_args as _ba3
                b3 = _ba3(repo, f3, c3) or {}
                k3 = {k_: unparse(v_) for k_, v_ in b3.items()}
                mism = [(p_, k3.get(p_)) for p_ in ("freq_window", "dir_window") if p_ in f3.params and k3.get(p_) != p_]
                if mism:
                    rep.fail("R-C16-3", f3.file, c3.lineno, f3.qualname, unparse(c3)[:110],
                             f"{f3.short} takes {mism[0][0]} from its caller but hands smooth_spec {mism[0][1]!r} for it: the requested window is "
                             "ignored (the direction window decides whether peaks either side of the 0/360 seam merge)")
                else:
                    rep.ok("R-C16-3", f"{f3.file}:{c3.lineno} {f3.short}", unparse(c3)[:80], "windows passed to their own parameters")
    rep.floor("R-C16-3", "package callers of smooth_spec besides the accessor", ncallers, 4)
    for q, call in (("wavespectra.specarray.SpecArray.smooth", "smooth_spec"),):
        f2 = repo.func(q)
        c = [n for n in ast.walk(f2.node) if isinstance(n, ast.Call) and call_name(n) == call]
        from ..astutil import bound_args
        b_ = bound_args(repo, f2, c[0]) if c else None
        kws = {k_: unparse(v_) for k_, v_ in (b_ or {}).items()}
        from ..astutil import resolve as _resolve
        data_arg = (b_ or {}).get(P0)
        if isinstance(data_arg, ast.Name):
            data_arg = _resolve(f2.node, data_arg, before=c[0].lineno + 1) or data_arg
        if data_arg is None or unparse(data_arg) != "self._obj":
            rep.fail("R-C16-3", f2.file, c[0].lineno if c else f2.node.lineno, f2.qualname, unparse(c[0])[:110] if c else "smooth_spec call",
                     f"the accessor hands smooth_spec {unparse(data_arg) if data_arg is not None else 'nothing'} instead of the array itself: smooth_spec "
                     "restores the coordinates and order of ITS input, so the result comes back on the re-ordered grid, not on the caller's")
        else:
            rep.ok("R-C16-3", f"{f2.file}:{c[0].lineno} {f2.short}", "smooth_spec(self._obj, ..)", "the array itself is smoothed: its own grid is what is restored")
        if kws.get("freq_window") == "freq_window" and kws.get("dir_window") == "dir_window":
            rep.ok("R-C16-3", f"{f2.file}:{c[0].lineno} {f2.short}", unparse(c[0]), "windows passed to their own parameters")
        else:
            rep.fail("R-C16-3", f2.file, f2.node.lineno, f2.qualname, unparse(c[0]) if c else "smooth_spec call", "freq_window / dir_window must be passed to the matching parameters")
    rep.trust("Python ast; xarray rolling/sel semantics")
    rep.note("not decided: window-mean values, min/max bounds, commutation with circular shifts (numeric)")
    return ("Static structural rules over smooth_spec: validation dominance, the legal (end, relabel sign, side) triples of the "
            "circular padding and the data-flow of its width from the direction window (following a leaked loop variable to the "
            "last element of the literal it iterates), the absolute-value circularity test, the window-to-dimension mapping, and "
            "order provenance of the sort / pad / clip / relabel sequence.")
