"""C05 - results depend on labels, not storage order or memory layout."""
import ast

from ..model import UNKNOWN, call_name, kwarg, unparse
from ..order import analyse_package
from ..report import AnalysisError
from ..ufunc import sites

DIRLIKE = ("dir", "dirs", "direction", "directions")

# one named symbol per exemption, with the reason (a report here would be a false alarm on behaviour)
EXEMPT_WIDTH = {
    "wavespectra.partition.hanson_and_phillips_2001.spread_hp01":
        "dd multiplies both every moment and the normaliser e = sum(S*DF*dd): it cancels exactly, the result does not depend on it",
}
# file-header parsing of instrument readers is C13's scope (the strings are the file's own column labels)
OUT_OF_SCOPE_PREFIX = ("wavespectra.input.",)


def circular_width(repo, rep, rule):
    """A difference of two elements of a direction array at constant positions must be taken circularly."""
    n = 0
    for fi in repo.all_funcs():
        if fi.module.name.startswith(OUT_OF_SCOPE_PREFIX):
            continue
        for node in ast.walk(fi.node):
            if not (isinstance(node, ast.BinOp) and isinstance(node.op, ast.Sub)):
                continue
            pair = _dir_elems(repo, fi, node.left, node.right)
            if pair is None:
                continue
            n += 1
            if fi.qualname in EXEMPT_WIDTH:
                rep.ok(rule, f"{fi.file}:{node.lineno} {fi.short}", unparse(node), "exempt: " + EXEMPT_WIDTH[fi.qualname], nontrivial=False)
                continue
            if _folded_circularly(fi, node):
                rep.ok(rule, f"{fi.file}:{node.lineno} {fi.short}", unparse(_stmt(node))[:90], "difference folded onto the circle: min(|d|, 360 - |d|)")
                continue
            rep.fail(rule, fi.file, node.lineno, fi.qualname, unparse(_stmt(node))[:120],
                     f"bin width taken as the plain difference {unparse(node)} of two stored directions: it is 330 instead of 30 "
                     "when the stored sequence starts 330, 0, 30 (seam between the first two), and negative for descending "
                     "storage; use the circular difference (utils.angle)")
        for node in ast.walk(fi.node):
            if isinstance(node, ast.Call) and call_name(node).split(".")[-1] == "angle" and len(node.args) == 2:
                if _dir_elems(repo, fi, node.args[0], node.args[1]) is not None:
                    n += 1
                    rep.ok(rule, f"{fi.file}:{node.lineno} {fi.short}", unparse(node), "circular difference of two stored directions")
    return n


def _folded_circularly(fi, node):
    """Is the plain difference `node` the d of  min(|d|, 360 - |d|)  (utils.angle written out)?  The difference (possibly wrapped in abs / np.absolute) is
    either bound to a name t with a later np.minimum(t, 360 - t), or appears directly twice inside such a call."""
    e = node
    p = getattr(e, "_parent", None)
    while isinstance(p, ast.Call) and call_name(p).split(".")[-1] in ("abs", "absolute", "fabs", "float") and len(p.args) == 1:
        e, p = p, getattr(p, "_parent", None)
    texts = {unparse(e)}
    if isinstance(p, ast.Assign) and len(p.targets) == 1 and isinstance(p.targets[0], ast.Name):
        texts.add(p.targets[0].id)
    for c in ast.walk(fi.node):
        if isinstance(c, ast.Call) and call_name(c).split(".")[-1] in ("minimum", "min", "fmin") and len(c.args) == 2:
            for a, b in ((c.args[0], c.args[1]), (c.args[1], c.args[0])):
                if unparse(a) in texts and isinstance(b, ast.BinOp) and isinstance(b.op, ast.Sub) and unparse(b.right) in texts \
                        and isinstance(b.left, ast.Constant) and b.left.value in (360, 360.0):
                    return True
    return False


def _stmt(n):
    while n is not None and not isinstance(n, ast.stmt):
        n = getattr(n, "_parent", None)
    return n


def _unwrap(e):
    while isinstance(e, ast.Call) and call_name(e) in ("float", "abs", "np.abs", "int") and len(e.args) == 1:
        e = e.args[0]
    return e


def _dir_elems(repo, fi, a, b):
    a, b = _unwrap(a), _unwrap(b)
    if not (isinstance(a, ast.Subscript) and isinstance(b, ast.Subscript)):
        return None
    ia, ib = repo.const(fi.module, a.slice), repo.const(fi.module, b.slice)
    if not (isinstance(ia, int) and isinstance(ib, int) and ia != ib):
        return None
    if unparse(a.value) != unparse(b.value):
        return None
    base = a.value
    name = base.attr if isinstance(base, ast.Attribute) else (base.id if isinstance(base, ast.Name) else None)
    if isinstance(base, ast.Subscript):
        v = repo.const(fi.module, base.slice)
        name = v if isinstance(v, str) else None
    if name is None or name.lower() not in DIRLIKE:
        return None
    return (a, b)


def kernel_axes(repo, rep, rule):
    """input_core_dims order at each apply_ufunc site matches the axis order the numpy kernel assumes."""
    n = 0
    F, D = repo.attrs.FREQNAME, repo.attrs.DIRNAME
    for s in sites(repo):
        icd = s.input_core_dims
        if icd is UNKNOWN or not isinstance(icd, list):
            raise AnalysisError(f"input_core_dims not constant at {s.where}")
        for kf in s.kernels():
            n += 1
            ps = kf.params
            for i, dims in enumerate(icd):
                if len(dims) == 2:
                    if set(dims) == {F, D} and dims != [F, D]:
                        rep.fail(rule, s.fi.file, s.line, s.fi.qualname, f"input_core_dims[{i}] = {dims} for kernel {kf.short}",
                                 "numpy kernels index spectra as [freq, dir] (sum(axis=1) integrates direction; the C routine "
                                 "wraps axis 1): the core dims must be listed in that order")
                    else:
                        rep.ok(rule, s.where, f"arg {i} ({ps[i] if i < len(ps) else '?'}) core dims {dims}", "axis order as the kernel assumes")
            if s.vectorize is not True:
                rep.fail(rule, s.fi.file, s.line, s.fi.qualname, f"apply_ufunc({kf.short}, ...) vectorize={s.vectorize}",
                         "without vectorize=True the kernel receives the full N-d array and its positional axes mean other dimensions")
        ocd = s.output_core_dims
        if isinstance(ocd, list):
            for dims in ocd:
                if F in dims and D in dims and dims.index(F) > dims.index(D):
                    rep.fail(rule, s.fi.file, s.line, s.fi.qualname, f"output_core_dims {dims}", "kernels return (..., freq, dir)")
    return n


def positional_axes(repo, rep, rule):
    """No positional axis (axis=<int>, .T, nameless transpose, .shape[i]) on labelled data in xarray-level code."""
    targets = [fi for fi in repo.all_funcs() if (fi.cls is not None and fi.cls.name in ("SpecArray", "Partition"))
               or fi.module.name in ("wavespectra.core.xrstats",)
               or fi.qualname in ("wavespectra.core.utils.regrid_spec", "wavespectra.core.utils.smooth_spec",
                                  "wavespectra.core.utils.scaled", "wavespectra.core.utils.waveage")]
    n = 0
    for fi in targets:
        for node in ast.walk(fi.node):
            if isinstance(node, ast.Call):
                ax = kwarg(node, "axis")
                if ax is not None and isinstance(node.func, ast.Attribute) and not call_name(node).startswith("np."):
                    v = repo.const(fi.module, ax)
                    if isinstance(v, int):
                        n += 1
                        rep.fail(rule, fi.file, node.lineno, fi.qualname, unparse(node)[:100],
                                 "positional axis on labelled data: the result changes when the dataset's dimensions are stored in "
                                 "another order; name the dimension instead")
                if isinstance(node.func, ast.Attribute) and node.func.attr == "transpose" and not node.args and not node.keywords:
                    n += 1
                    rep.fail(rule, fi.file, node.lineno, fi.qualname, unparse(node)[:100], "nameless transpose() depends on the stored dimension order")
            if isinstance(node, ast.Attribute) and node.attr == "T" and not unparse(node.value).startswith("np."):
                n += 1
                rep.fail(rule, fi.file, node.lineno, fi.qualname, unparse(node)[:100], ".T depends on the stored dimension order")
    rep.ok(rule, "SpecArray / Partition / xrstats / regrid_spec / smooth_spec", f"{len(targets)} xarray-level functions scanned",
           "no positional axis, .T or nameless transpose on labelled data")
    return len(targets)


_RAW_ATTRS = ("values", "data")
_SCALARISERS = ("float", "int", "len", "bool", "str")
_REDUCERS = ("sum", "max", "min", "mean", "item", "size", "ndim", "any", "all", "argmax", "argmin", "tolist")


def raw_positional(repo, rep, rule):
    """Label-level code (accessor methods, xrstats, regrid / smooth / scaled / waveage) never lets a bare ndarray taken out of a labelled
    array meet labelled data positionally: (a) arithmetic between a raw vector / array (`x.values`, `x.data`, np.asarray(x)) and a
    labelled array broadcasts against the LAST axis instead of by dimension name; (b) numpy calls with an integer axis= (or an
    Ellipsis subscript) on such raw data pick whatever dimension happens to be stored there.  Both are right only for one stored
    dimension order - and for a single spectrum but not for a dataset with leading dimensions stored last."""
    targets = [fi for fi in repo.all_funcs() if (fi.cls is not None and fi.cls.name in ("SpecArray", "Partition"))
               or fi.module.name in ("wavespectra.core.xrstats",)
               or fi.qualname in ("wavespectra.core.utils.regrid_spec", "wavespectra.core.utils.smooth_spec",
                                  "wavespectra.core.utils.scaled", "wavespectra.core.utils.waveage")]
    nops = 0
    for fi in targets:
        lab_roots = {"self"} if fi.cls is not None else set(fi.params[:1])
        env = {}

        def kind(e):
            # 'R' raw multi-element array from labelled data, 'L' labelled, 'S' scalar / unknown
            if isinstance(e, ast.Constant):
                return "S"
            if isinstance(e, ast.Name):
                if e.id in env:
                    return env[e.id]
                return "L" if e.id in lab_roots else ("P" if e.id in fi.params else "S")
            if isinstance(e, ast.Attribute):
                if e.attr in _RAW_ATTRS:
                    b = e.value
                    if isinstance(b, ast.Subscript) and not isinstance(b.slice, ast.Slice) and not (isinstance(b.slice, ast.Tuple)):
                        return "S"         # x.freq[-1].values: one element
                    return "R" if kind(b) in ("L", "R", "P") else "S"       # P: a parameter whose .values / .data is taken is a labelled array
                if e.attr in _REDUCERS or e.attr in ("shape", "dims", "name", "attrs", "dtype", "sizes"):
                    return "S"
                return kind(e.value)
            if isinstance(e, ast.Subscript):
                k = kind(e.value)
                if k == "R" and not isinstance(e.slice, (ast.Slice, ast.Tuple)):
                    return "S"
                return k
            if isinstance(e, ast.Call):
                nm = call_name(e) or ""
                last = nm.split(".")[-1]
                if last in _SCALARISERS:
                    return "S"
                if isinstance(e.func, ast.Attribute) and e.func.attr in _REDUCERS and not e.args and kind(e.func.value) == "R":
                    return "S"
                if isinstance(e.func, ast.Attribute) and e.func.attr in ("to_numpy",) and kind(e.func.value) in ("L", "R"):
                    return "R"
                if nm in ("np.asarray", "np.array", "numpy.asarray", "numpy.array") and e.args and kind(e.args[0]) in ("L", "R"):
                    return "R"
                ks = [kind(a) for a in e.args] + [kind(k_.value) for k_ in e.keywords]
                if isinstance(e.func, ast.Attribute) and not nm.startswith(("np.", "numpy.", "xr.", "xarray.")):
                    ks.append(kind(e.func.value))
                if "L" in ks:
                    return "L"
                if "R" in ks:
                    return "R"
                return "S"
            if isinstance(e, ast.BinOp):
                return combine(e)
            if isinstance(e, ast.UnaryOp):
                return kind(e.operand)
            if isinstance(e, ast.IfExp):
                ks = {kind(e.body), kind(e.orelse)}
                return "L" if "L" in ks else "R" if "R" in ks else "S"
            if isinstance(e, (ast.Tuple, ast.List)):
                ks = {kind(x) for x in e.elts}
                return "L" if "L" in ks else "R" if "R" in ks else "S"
            return "S"
        found = []

        def combine(e):
            nonlocal nops
            a, b = kind(e.left), kind(e.right)
            if {a, b} == {"L", "R"}:
                nops += 1
                found.append(e)
                return "L"
            if "L" in (a, b):
                nops += 1
                return "L"
            return "R" if "R" in (a, b) else "S"
        for _ in range(2):
            found.clear()
            for s in ast.walk(fi.node):
                if isinstance(s, ast.Assign) and len(s.targets) == 1 and isinstance(s.targets[0], ast.Name):
                    env[s.targets[0].id] = kind(s.value)
                elif isinstance(s, (ast.Return, ast.Expr, ast.AugAssign)) and getattr(s, "value", None) is not None:
                    kind(s.value)
        seen = set()
        for e in found:
            if id(e) in seen:
                continue
            seen.add(id(e))
            rep.fail(rule, fi.file, e.lineno, fi.qualname, unparse(e)[:110],
                     "a bare ndarray taken out of a labelled array (.values / .data / np.asarray) is combined arithmetically with labelled data: numpy "
                     "broadcasting aligns it with the LAST stored axis, not with the dimension it came from, so the result is wrong whenever that "
                     "dimension is not stored last (and silently so when the sizes happen to match)")
        # (b) positional axis / Ellipsis on raw data
        for c in ast.walk(fi.node):
            if isinstance(c, ast.Call) and (call_name(c) or "").startswith(("np.", "numpy.")):
                ax = kwarg(c, "axis")
                if ax is not None and isinstance(repo.const(fi.module, ax), int) and any(kind(a) == "R" for a in c.args):
                    nops += 1
                    rep.fail(rule, fi.file, c.lineno, fi.qualname, unparse(c)[:110],
                             "positional axis on the bare data of a labelled array: which dimension that is depends on the stored dimension order "
                             "(and on which non-spectral dimensions the dataset has); use the named operation instead")
            if isinstance(c, ast.Subscript) and kind(c.value) == "R" and any(isinstance(x, ast.Constant) and x.value is Ellipsis for x in ast.walk(c.slice)):
                nops += 1
                rep.fail(rule, fi.file, c.lineno, fi.qualname, unparse(c)[:110], "Ellipsis indexing on the bare data of a labelled array assumes a stored dimension order")
    rep.ok(rule, "SpecArray / Partition / xrstats / regrid_spec / smooth_spec", f"{len(targets)} label-level functions, {nops} arithmetic operations on labelled data examined",
           "no bare ndarray meets labelled data positionally")
    return nops


def foreign_labels(repo, rep, rule):
    """assign_coords REPLACES labels position by position: coordinates taken from ANOTHER labelled object stamp that object's labels onto data stored in a
    possibly different order (two operands with the same labels stored rolled / descending are then paired by position).  Accepted: values derived from the
    receiver's own coordinates, plain arrays / scalars computed here, and the wholesale restore `x.assign_coords(<first parameter>.coords)`."""
    SCOPE = ("wavespectra.specarray", "wavespectra.core.utils", "wavespectra.core.xrstats", "wavespectra.partition.partition")
    n_ = 0

    def root(e):
        while isinstance(e, (ast.Attribute, ast.Subscript, ast.Call)):
            e = e.func if isinstance(e, ast.Call) else e.value
        return e.id if isinstance(e, ast.Name) else None
    for fi in repo.all_funcs():
        if fi.module.name not in SCOPE:
            continue
        for c in ast.walk(fi.node):
            if not (isinstance(c, ast.Call) and isinstance(c.func, ast.Attribute) and c.func.attr == "assign_coords"):
                continue
            n_ += 1
            recv = root(c.func.value)
            if len(c.args) == 1 and isinstance(c.args[0], ast.Attribute) and c.args[0].attr == "coords" and isinstance(c.args[0].value, ast.Name) \
                    and c.args[0].value.id in fi.params[:2]:
                rep.ok(rule, f"{fi.file}:{c.lineno} {fi.short}", unparse(c)[:70], "the input's own coordinates restored wholesale")
                continue
            vals = []
            for a in c.args:
                if isinstance(a, ast.Dict):
                    vals += list(a.values)
                elif isinstance(a, ast.DictComp):
                    vals.append(a.value)
                else:
                    vals.append(a)
            vals += [k.value for k in c.keywords]
            foreign = set()
            for v in vals:
                for x in ast.walk(v):
                    if isinstance(x, (ast.Subscript, ast.Attribute)) and isinstance(x.value, ast.Name):
                        r = x.value.id
                        if r in (recv, "np", "numpy", "attrs", "xr", "math") or (r == "self" and recv == "self"):
                            continue
                        if r == "self" or isinstance(x, ast.Subscript) or x.attr in ("coords", "dir", "freq", "values", "data", "indexes"):
                            # a labelled object other than the receiver supplies the labels
                            loc = [a_ for a_ in ast.walk(fi.node) if isinstance(a_, ast.Assign) and any(isinstance(t_, ast.Name) and t_.id == r for t_ in a_.targets)]
                            plain = loc and all(isinstance(a_.value, ast.Call) and call_name(a_.value).split(".")[-1] in
                                                ("array", "asarray", "arange", "linspace", "unique", "sort", "concatenate", "list", "sorted") for a_ in loc)
                            if not plain:
                                foreign.add(r)
            if foreign:
                rep.fail(rule, fi.file, c.lineno, fi.qualname, unparse(c)[:110],
                         f"the labels of {sorted(foreign)} are stamped onto '{recv}' position by position: operands holding the same labels in another stored order "
                         "(rolled, descending) are then combined bin-with-wrong-bin instead of being aligned by label", anchor=f"foreign-labels:{fi.short}:{recv}")
            else:
                rep.ok(rule, f"{fi.file}:{c.lineno} {fi.short}", unparse(c)[:70], "labels derived from the receiver's own coordinates / computed here")
    return n_


def run(repo, rep, tier):
    rep.rule("R-C05-w1", "no direction bin width is derived from the extent max(dir) - min(dir) of the axis (a sector straddling north has extent ~360)")
    from .round7b import extent_width
    extent_width(repo, rep, "R-C05-w1")
    rep.rule("R-C05-11", "(shared with C02) the peak direction is the stored coordinate at the arg-max of the spectrum AS STORED: an index found on a re-sorted copy is "
                         "not applied to the caller-ordered labels")
    from .c02 import peak_direction as _pd
    from .c07 import _Relabel
    _pd(repo, _Relabel(rep, "R-C05-11"))
    rep.rule("R-C05-12", "(shared with C04) the watershed-line reassignment of the native routine reads one array and writes a snapshot: updating labels in place "
                         "makes the result depend on the storage order of the bins (hence on how the directions are rolled)")
    from . import cnative as _cn
    rep.floor("R-C05-12", "neighbour-label reassignment stores", _cn.double_buffer(repo, rep, "R-C05-12"), 1)
    from .round7b import hygiene
    hygiene(repo, rep, "C05", ('wavespectra.specarray', 'wavespectra.core.utils', 'wavespectra.partition.', 'wavespectra.core.xrstats'), falsy=True)
    rep.rule("R-C05-9", "assign_coords never stamps another labelled object's coordinates onto data (that is a positional pairing): labels come from the receiver itself, "
                        "from arrays computed in the function, or are the wholesale restore of the input's own coordinates")
    rep.floor("R-C05-9", "assign_coords sites in label-level code", foreign_labels(repo, rep, "R-C05-9"), 5)
    rep.rule("R-C05-10", "(shared with C11) writers that hand the bare array to a text format fix the full axis order by name first (time, site, freq, dir): an Ellipsis keeps "
                         "the stored order of the remaining axes and the file then depends on how the dataset happened to be stored")
    from .c11 import swan_axis_order as _sao
    from .c07 import _Relabel
    _sao(repo, _Relabel(rep, "R-C05-10"))
    rep.rule("R-C05-8", "no flattening / reshaping in memory order or Fortran order (order='K' / 'A' / 'F'): the element sequence would depend on the "
                        "in-memory layout of the input")
    from .shared import layout_independent_flattening
    layout_independent_flattening(repo, rep, "R-C05-8")
    rep.rule("R-C05-1", "the C routine only ever sees C-contiguous float32 arrays (who-may-call + accepted idioms)")
    rep.rule("R-C05-2", "a difference of two stored directions at constant positions goes through the circular difference")
    rep.rule("R-C05-3", "labels follow data: no positional indexing / rolling along dir on caller-ordered data, label slices only "
                        "on data sorted here, and direction labels are only assigned onto data with the same order provenance")
    rep.rule("R-C05-4", "no positional axis, .T or nameless transpose on labelled data in xarray-level code")
    rep.rule("R-C05-5", "apply_ufunc core dims are listed in the axis order the numpy kernels assume; vectorize=True")
    from .shared import contiguity
    contiguity(repo, rep, "R-C05-1")
    n = circular_width(repo, rep, "R-C05-2")
    rep.floor("R-C05-2", "direction-pair width sites", n, 3)
    ev, checked, nfunc = analyse_package(repo, repo.attrs.DIRNAME)
    for fi, kind, node, msg in ev:
        if fi.qualname in EXEMPT_WIDTH and kind == "POS":
            continue
        rep.fail("R-C05-3", fi.file, node.lineno, fi.qualname, unparse(_stmt(node) or node)[:140], msg)
    rep.ok("R-C05-3", "package", f"{nfunc} functions, {checked} order-sensitive operations on '{repo.attrs.DIRNAME}' examined",
           "positional ops only on data sorted in the same function; label assignments have matching provenance")
    rep.floor("R-C05-3", "order-sensitive operations examined", checked, 12)
    rep.rule("R-C05-7", "label-level code never combines a bare ndarray taken out of a labelled array with labelled data (broadcast by position), "
                        "nor applies a positional axis / Ellipsis index to such bare data")
    nraw = raw_positional(repo, rep, "R-C05-7")
    rep.floor("R-C05-7", "arithmetic operations on labelled data examined", nraw, 100)
    rep.rule("R-C05-6", "(shared with C04) the native neighbour table wraps the direction axis, so where the stored direction "
                        "sequence starts does not split a wave system at the seam")
    from . import c04
    from .c07 import _Relabel
    from . import cnative
    cf = cnative.core(repo)
    sub = type(rep)("C05-sub")
    c04.run(repo, sub, "quick")
    for f in sub.findings:
        if f.rule in ("R-C04-1", "R-C04-2"):
            rep.fail("R-C05-6", f.file, f.line, f.func, f.construct, f.reason)
    rep.ok("R-C05-6", cnative.SPECPART_C, f"{len([o for o in sub.obligations if o.rule in ('R-C04-1', 'R-C04-2')])} neighbour/layout obligations",
           "established by the C04 rules")
    positional_axes(repo, rep, "R-C05-4")
    k = kernel_axes(repo, rep, "R-C05-5")
    rep.floor("R-C05-5", "apply_ufunc kernel bindings", k, 12)
    rep.analysed.update({"order_ops": checked, "functions": nfunc})
    rep.trust("Python ast; xarray label alignment (arithmetic / where / concat align by label, isel/roll are positional)")
    rep.note("not decided: equality of results under transposition as such; dtype-width effects; only the direction axis is "
             "tracked by the order-provenance analysis (frequencies are assumed stored ascending, as the library does)")
    return ("Static: accepted-idiom dataflow at every call into the C extension; a scan for stored-direction differences that "
            "bypass the circular difference; an order-provenance abstract interpretation of every function (order tag of the "
            "direction axis per value: caller's order / sorted here / unknown) flagging positional or slice operations on "
            "caller-ordered data and label assignments across different provenances; positional-axis lint; sibling agreement "
            "between apply_ufunc core-dim order and kernel axis order.")
