"""C20 - valid spectra never crash, down to the native code."""
import ast

from ..cast import Poly, ex, poly_of, show
from ..cbounds import Analyzer, NSPEC, ONE, access_sites, le, nonneg
from ..report import AnalysisError, Report
from ..model import call_name, unparse
from . import cnative
from .cnative import SPECPART_C, WRAP_C

# the bound of a counting-sort slot needs a counting argument: stated as an assumption, not discharged (see counting_sort_slot)


from .cnative import counting_sort_slot


def native_bounds(repo, rep, rule):
    cf = cnative.core(repo)
    cnative.pointer_aliases(cf)
    # R-C04-1 must hold for the neighbour-table content ranges
    from . import c04
    scratch = Report("C04-internal")
    # an AnalysisError here (anchor of the neighbour-table proof vanished) makes C20 analysis-broken too, not a violation
    stores, count_store = c04.extract_table(cf, scratch)
    sub = Report("C04-internal")
    _run_c04_table(repo, sub)
    neigh_ok = not [f for f in sub.findings if f.rule == 'R-C04-1']
    an = Analyzer(cf, neigh_ok)
    sites = access_sites(cf)
    rep.floor(rule, "array access sites in specpart.c", len(sites), 90)
    per_func = {}
    undis = 0
    for fn, node, base, idx in sites:
        per_func[fn] = per_func.get(fn, 0) + 1
        txt = cf.text(node)
        where = f"{SPECPART_C}:{cf.line(node)} {fn}"
        if base[0] != "var":
            rep.fail(rule, SPECPART_C, cf.line(node), fn, txt, "access through a computed base pointer: extent unknown")
            continue
        arr = base[1]
        if fn == "ptnghb" and arr == "neigh":
            # stores of the table itself: slot index k + 9n with at most 8 guarded stores per cell (R-C04-1 c)
            if neigh_ok:
                rep.ok(rule, where, txt, "slot bookkeeping and cell range established by R-C04-1 (<= 8 guarded stores, "
                                         "n < nspec, extent 9*nspec)")
            else:
                rep.fail(rule, SPECPART_C, cf.line(node), fn, txt, "neighbour table construction not proven (R-C04-1 fails)")
            continue
        ext = an.extent_of(fn, arr)
        if ext is None:
            rep.fail(rule, SPECPART_C, cf.line(node), fn, txt, f"extent of '{arr}' cannot be determined from a malloc size")
            continue
        r = an.rng(fn, idx, node, precise=True)
        key = (fn, show(("idx", base, idx)))
        if r.is_bottom():
            rep.ok(rule, where, txt, "unreachable / no value", nontrivial=False)
            continue
        lo_ok = r.lo is not None and nonneg(r.lo) and not any(x < 0 for x in r.extra)
        hi_ok = r.hi is not None and le(r.hi, ext - ONE)
        if lo_ok and hi_ok:
            rep.ok(rule, where, f"0 <= {show(idx)} < {ext}   [{txt}]", f"index range {r} within extent {ext}")
        elif lo_ok is not None and counting_sort_slot(cf, fn, idx) and ext == NSPEC:
            why_ = counting_sort_slot(cf, fn, idx)
            rep.ok(rule, where, f"0 <= {show(idx)} < {ext}   [{txt}]", "ASSUMED: " + why_, nontrivial=False)
            rep.assume(f"{fn}: counting sort recognised structurally; its slots are < the number of points sorted (counting argument, not discharged)")
        else:
            undis += 1
            why = []
            if not lo_ok:
                why.append(f"lower bound {r.lo}{' or marker ' + str(sorted(r.extra)) if r.extra else ''} not provably >= 0")
            if not hi_ok:
                why.append(f"upper bound {r.hi} not provably <= {ext} - 1")
            rep.fail(rule, SPECPART_C, cf.line(node), fn, f"{txt}   (extent of {arr} = {ext})",
                     "possible out-of-bounds access: " + "; ".join(why))
    for a in an.assumptions:
        rep.assume(a)
    rep.analysed["c_access_sites"] = per_func
    # malloc'd locals are freed and not used after free; mallocs sized by the right symbol are covered by the extents
    return an


def output_initialised(repo, rep, rule):
    """Every exit of partition() is preceded by a loop that stores into the output array, or the wrapper hands partition() a
    zero-filled array: otherwise Python receives memory nobody wrote."""
    cf = cnative.core(repo)
    wf = cnative.wrap(repo)
    params = cf.params("partition")
    if len(params) < 2:
        raise AnalysisError("partition() signature changed")
    out = params[1]
    body = cf.body("partition")

    def stores_out(node):
        for x in cf.walk(node):
            if cnative.is_assign(x):
                l = ex(x["inner"][0])
                if l[0] == "idx" and l[1] == ("var", out):
                    return True
        return False
    exits = [x for x in cf.walk(body) if x.get("kind") == "ReturnStmt"] + [None]
    uncovered = []
    for e in exits:
        covered = False
        if e is None:
            covered = any(s_.get("kind") == "ForStmt" and stores_out(s_) for s_ in cnative.stmts(body))
        else:
            child, p = e, e.get("_p")
            while p is not None and p.get("kind") != "FunctionDecl" and not covered:
                if p.get("kind") == "CompoundStmt":
                    for s_ in p.get("inner", []):
                        if s_ is child:
                            break
                        if isinstance(s_, dict) and s_.get("kind") == "ForStmt" and stores_out(s_):
                            covered = True
                child, p = p, p.get("_p")
        if not covered:
            uncovered.append(e)
    alloc = None
    for x in wf.walk(wf.func("specpart")):
        if x.get("kind") == "CallExpr":
            t = ex(x)
            if "PyArray_API" in show(t[1]) and len(t[2]) == 4:
                alloc = x
    if alloc is None:
        raise AnalysisError("wrapper: allocation of the output array not found")
    import re as _re
    zeroed = bool(_re.search(r"PyArray_(ZEROS|Zeros)\b", wf.text(alloc)))
    rep.floor(rule, "exits of partition()", len(exits), 2)
    if uncovered and not zeroed:
        e = uncovered[0]
        rep.fail(rule, SPECPART_C, cf.line(e) if e is not None else cf.line(body), "partition",
                 (cf.text(e) if e is not None else "end of partition()") + f"  /  {wf.text(alloc)[:40]}(...)",
                 f"this exit of partition() is reached without any store into '{out}', and the wrapper allocates the output without "
                 "zero-filling it: the caller receives uninitialised memory (constant spectra take the early exit)")
    else:
        rep.ok(rule, f"{SPECPART_C} partition + {WRAP_C}:{wf.line(alloc)}", f"{len(exits)} exits, {len(uncovered)} without a store into '{out}', "
               f"output {'zero-filled' if zeroed else 'not zero-filled'} at allocation", "every element of the returned map is written")


def _run_c04_table(repo, sub):
    from . import c04
    cf = cnative.core(repo)
    # re-run only the R-C04-1 part by calling run() into a scratch report (layout/sweeps included; cheap)
    c04.run(repo, sub, "quick")


def spectral_dim_tests(repo, rep):
    """R-C20-16: whether a spectrum HAS a direction (frequency) axis is decided from its dimensions: a scalar `dir` coordinate left behind by
    isel(dir=i) / sel(dir=x) is in .coords but is not a dimension, and treating it as one makes len() / diff / sum over it raise."""
    rep.rule("R-C20-16", "the presence of the spectral dimensions is tested against .dims (never .coords / .variables, which also hold scalar "
                         "coordinates left by a selection)")
    A = repo.attrs
    spectral = {A.DIRNAME, A.FREQNAME}
    n = 0
    for fi in repo.all_funcs():
        if not (fi.qualname.startswith("wavespectra.specarray.") or fi.qualname.startswith("wavespectra.core.")):
            continue
        for c in ast.walk(fi.node):
            if isinstance(c, ast.Compare) and len(c.ops) == 1 and isinstance(c.ops[0], (ast.In, ast.NotIn)) and repo.const(fi.module, c.left) in spectral:
                n += 1
                rhs = c.comparators[0]
                if isinstance(rhs, ast.Attribute) and rhs.attr in ("coords", "variables", "indexes", "_coords"):
                    rep.fail("R-C20-16", fi.file, c.lineno, fi.qualname, unparse(c)[:100],
                             f"'{repo.const(fi.module, c.left)}' is looked for among the {rhs.attr}: a 1-D frequency spectrum that still carries a scalar "
                             f"'{repo.const(fi.module, c.left)}' coordinate (the result of isel / sel along it) is taken for a 2-D one and every statistic raises "
                             "TypeError (len() of unsized object) instead of returning a result")
                else:
                    rep.ok("R-C20-16", f"{fi.file}:{c.lineno} {fi.short}", unparse(c)[:80], "tested against the dimensions")
    rep.floor("R-C20-16", "tests for the presence of a spectral dimension", n, 3)


def static_locals(repo, rep, rule):
    """A function-scope `static` object in specpart.c outlives the call that sized it: a buffer allocated `if (p == NULL)` keeps the extent of
    the FIRST grid the process partitioned while every later call indexes it with its own nspec (the file-scope work arrays are re-sized
    by partinit on a shape change; nothing re-sizes a static local)."""
    cf = cnative.core(repo)
    n_ = 0
    for fname, fn in cf.funcs.items():
        for n in cf.walk(fn):
            if n.get("kind") == "VarDecl":
                n_ += 1
                if n.get("storageClass") == "static":
                    rep.fail(rule, SPECPART_C, cf.line(n), fname, f"static {n.get('type', {}).get('qualType', '')} {n.get('name')}",
                             "function-static object: its extent / contents are those of an earlier call with possibly another grid shape; indexing it with this "
                             "call's nspec reads and writes outside the block (heap overflow when a larger grid follows a smaller one)",
                             anchor=f"static-local:{fname}:{n.get('name')}")
    rep.floor(rule, "local declarations in specpart.c", n_, 20)
    rep.ok(rule, SPECPART_C, f"{n_} local declarations", "none has static storage: every per-call buffer is sized by this call")


def fit_failures_handled(repo, rep, rule):
    """scipy's curve_fit reports a failed fit in three ways: ValueError (first guess outside the bounds, NaN in the data), RuntimeError (no convergence) and,
    with warnings turned into errors, OptimizeWarning (covariance not estimated).  The fitting kernels run once per spectrum inside apply_ufunc: a failure
    that is not caught aborts the whole dataset instead of giving NaN for that spectrum."""
    need = {"ValueError", "RuntimeError", "OptimizeWarning"}
    n_ = 0
    m = repo.module("wavespectra.core.fitting")
    for fi in m.all_funcs():
        for t in ast.walk(fi.node):
            if not isinstance(t, ast.Try):
                continue
            if not any(isinstance(c, ast.Call) and call_name(c).split(".")[-1] == "curve_fit" for b in t.body for c in ast.walk(b)):
                continue
            n_ += 1
            caught = set()
            for h in t.handlers:
                if h.type is None:
                    caught |= need
                else:
                    for x in ([h.type] if not isinstance(h.type, ast.Tuple) else h.type.elts):
                        nm = unparse(x).split(".")[-1]
                        caught.add(nm)
                        if nm in ("Exception", "BaseException"):
                            caught |= need
                        if nm in ("Warning", "UserWarning", "RuntimeWarning") and nm != "RuntimeWarning":
                            caught.add("OptimizeWarning")
            if need <= caught:
                rep.ok(rule, f"{fi.file}:{t.lineno} {fi.short}", "try: curve_fit(..)", f"handlers cover {sorted(need)}")
            else:
                rep.fail(rule, fi.file, t.lineno, fi.qualname, "try: curve_fit(..) except " + ", ".join(sorted(caught)),
                         f"a failed fit raising {sorted(need - caught)} is not caught: one such spectrum (e.g. a first guess outside the hard bounds: Hs > 30 m) makes the "
                         "whole vectorised fit raise instead of returning NaN for that spectrum", anchor=f"fit-handlers:{fi.short}")
    rep.floor(rule, "guarded curve_fit calls", n_, 2)


def run(repo, rep, tier):
    rep.rule("R-C20-21", "(shared with C05 / C09) split() slices direction labels only on data sorted in the same function (a label slice on an unsorted index is "
                         "empty or raises for a valid spectrum)")
    from ..order import OrderAnalysis
    _fi = repo.func("wavespectra.specarray.SpecArray.split")
    _oa = OrderAnalysis(repo, _fi, repo.attrs.DIRNAME)
    for _kind, _node, _msg in _oa.run():
        rep.fail("R-C20-21", _fi.file, _node.lineno, _fi.qualname, unparse(_node)[:120], _msg)
    rep.ok("R-C20-21", f"{_fi.file} split", f"{_oa.checked} order-sensitive operations", "only on data sorted in the same function")
    rep.floor("R-C20-21", "order-sensitive operations in split", _oa.checked, 1)
    rep.rule("R-C20-22", "argument validation tests numeric limits with `is not None`, never by truthiness (a limit of 0 would skip the check and an empty / reversed "
                         "band would be processed instead of rejected)")
    from .round7b import truthiness_guards
    truthiness_guards(repo, rep, "R-C20-22", ("wavespectra.specarray", "wavespectra.partition.", "wavespectra.core.utils", "wavespectra.core.select"))
    from .round7b import hygiene
    hygiene(repo, rep, "C20", ('wavespectra.',), falsy=True)
    rep.rule("R-C20-20", "every curve_fit call of the fitting kernels is guarded against ValueError, RuntimeError and OptimizeWarning (a failed fit gives NaN, not an exception)")
    fit_failures_handled(repo, rep, "R-C20-20")
    rep.rule("R-C20-19", "no function-scope static object in specpart.c: per-call buffers are sized by the call that uses them")
    static_locals(repo, rep, "R-C20-19")
    spectral_dim_tests(repo, rep)
    rep.rule("R-C20-14", "(shared with C07) the wrapper holds the GIL for the whole native call: released, two threads interleave inside partition() "
                         "over the same static work buffers - reads and writes outside what each call initialised, or a concurrent free / malloc")
    from .c07 import gil_held
    gil_held(repo, rep, "R-C20-14")
    rep.rule("R-C20-15", "(shared with C19) the tracker only removes from its availability list a predecessor it has just tested to be in it "
                         "(list.remove of an absent element raises ValueError through apply_ufunc)")
    from .c19 import availability as _avail
    from .c07 import _Relabel
    _avail(repo, _Relabel(rep, "R-C20-15"))
    rep.rule("R-C20-5", "every array access in specpart.c has 0 <= index < extent, extents taken from the malloc sizes, "
                        "index ranges from a symbolic interval analysis (polynomials in mk, mth, ihmax) over all "
                        "assignments, dominating conditions, counted loops, stored-value ranges and call bindings")
    an = native_bounds(repo, rep, "R-C20-5")
    rep.rule("R-C20-8", "(shared with C18) partition() never reaches its exit(EXIT_FAILURE) / a stale neighbour table: the shape guard of "
                        "partinit implies both extents unchanged and the work buffers are re-initialised per call")
    cnative.statics(repo, rep, "R-C20-8")
    rep.rule("R-C20-13", "the label map handed back to Python is written on every exit of partition() (a loop storing into the output precedes "
                         "the exit) or is zero-filled at allocation")
    output_initialised(repo, rep, "R-C20-13")
    python_lints(repo, rep)
    wrapper_preconditions(repo, rep)
    rep.rule("R-C20-12", "(shared with C07) every apply_ufunc(dask='parallelized') argument is single-chunk along its core dimensions on every "
                         "path: otherwise the call raises ValueError for a dataset that happens to be chunked along them")
    from .c07 import core_dim_chunks
    core_dim_chunks(repo, rep, "R-C20-12")
    rep.trust("clang 14 JSON AST; exact polynomial comparisons with all symbols >= 1; Python ast")
    rep.assume("preconditions: nk >= 1, nth >= 1, ihmax >= 1 (property's quantifier); malloc does not fail")
    rep.note("not decided: termination of the immersion loops, NaN handling inside the C routine, finiteness of Python "
             "results for degenerate spectra")
    return ("Static: (native) every array access of specpart.c is a bounds obligation discharged by a symbolic range "
            "analysis over the clang AST with extents from malloc sizes; (Python) 'cannot succeed' lints over resolved "
            "kinds (subscripted int, float() of an array), ValueError discipline of argument validation with CFG "
            "dominance, guard dominance for computed indices in the peak kernels; (wrapper) every caller supplies the "
            "2-D C-contiguous float32 array the wrapper assumes.")


# ---- Python side -----------------------------------------------------------------------------------

INT_ATTRS = {"size", "ndim", "nbytes", "itemsize"}
ARRAY_FUNCS = {"np.diff", "np.where", "np.gradient", "np.cumsum", "np.arange", "np.array", "np.abs", "np.sort",
               "np.unique", "np.argsort", "np.hstack", "np.concatenate", "np.nonzero", "np.atleast_1d", "np.zeros",
               "np.ones", "np.linspace", "np.tile", "np.repeat"}


def _rank_ge1(e, fi, depth=0):
    """Is the expression certainly an array of rank >= 1 (so float()/int() raises on size != 1, and under the pinned
    NumPy even for size 1)?"""
    if isinstance(e, ast.Call):
        n = ast.unparse(e.func)
        if n in ARRAY_FUNCS:
            return True
        return False
    if isinstance(e, ast.BinOp):
        return _rank_ge1(e.left, fi, depth + 1) or _rank_ge1(e.right, fi, depth + 1)
    if isinstance(e, ast.Subscript):
        # slicing keeps rank; integer indexing lowers it
        if isinstance(e.slice, ast.Slice):
            return _rank_ge1(e.value, fi, depth + 1)
        if isinstance(e.slice, ast.Tuple) and any(isinstance(x, ast.Slice) for x in e.slice.elts):
            return _rank_ge1(e.value, fi, depth + 1)
        if isinstance(e.slice, (ast.Constant, ast.UnaryOp)):
            base = e.value
            # np.where(...)[0] is still an array
            if isinstance(base, ast.Call) and ast.unparse(base.func) in ("np.where", "np.nonzero"):
                return True
            return False
    return False


def more_python_lints(repo, rep):
    """R-C20-17 / R-C20-18 / R-C20-19 (round 5)."""
    from ..astutil import known_facts
    rep.rule("R-C20-17", "an attribute looked up by a caller-supplied name (getattr) is called only after a callable() test that rejects it with ValueError, "
                         "and the lookup itself turns AttributeError into ValueError")
    fi = repo.func("wavespectra.specarray.SpecArray.stats")
    n17 = 0
    getattr_names = {}
    for a in ast.walk(fi.node):
        if isinstance(a, ast.Assign) and isinstance(a.value, ast.Call) and call_name(a.value) == "getattr" and len(a.value.args) == 2 and isinstance(a.targets[0], ast.Name):
            getattr_names[a.targets[0].id] = a
    for c in ast.walk(fi.node):
        if not isinstance(c, ast.Call):
            continue
        f = c.func
        direct = isinstance(f, ast.Call) and call_name(f) == "getattr" and len(f.args) == 2
        via = isinstance(f, ast.Name) and f.id in getattr_names
        if not (direct or via):
            continue
        n17 += 1
        facts = known_facts(fi.node, c)
        nm = f.id if via else None
        if via and f"callable({nm})" in facts:
            # the else side must raise ValueError
            gs_ = [x for x in ast.walk(fi.node) if isinstance(x, ast.If) and f"callable({nm})" in unparse(x.test).replace(" ", "")]
            g = gs_[0] if gs_ else None
            other = (g.orelse if g is not None and any(x is c for b in g.body for x in ast.walk(b)) else g.body) if g is not None else []
            rz = [r for b in other for r in ast.walk(b) if isinstance(r, ast.Raise)]
            exc_ok = bool(rz) and all((unparse(r.exc.func) if isinstance(r.exc, ast.Call) else unparse(r.exc)) == "ValueError" for r in rz if r.exc is not None)
            if exc_ok:
                rep.ok("R-C20-17", f"{fi.file}:{c.lineno} stats", unparse(c)[:70], f"called under callable({nm}); non-callable attributes raise ValueError")
                continue
        rep.fail("R-C20-17", fi.file, c.lineno, fi.qualname, unparse(c)[:100],
                 "the attribute named by the caller is called without a callable() test: a name such as 'dd', 'df', 'freq' or 'partition' (valid attributes, "
                 "not statistics) escapes as TypeError instead of being rejected with ValueError", anchor="stats:callable-guard")
    rep.floor("R-C20-17", "calls of caller-named attributes in SpecArray.stats", n17, 1)
    rep.rule("R-C20-18", "an element of np.diff(x) / np.unique(x) / a list built from them is subscripted only under a test of its length: a one-bin axis "
                         "gives an empty difference")
    n18 = 0
    for q in ("wavespectra.core.utils", "wavespectra.specarray", "wavespectra.core.npstats", "wavespectra.core.xrstats", "wavespectra.partition.partition"):
        for fi2 in repo.module(q).all_funcs():
            defs = {}
            for a in ast.walk(fi2.node):
                if isinstance(a, ast.Assign) and len(a.targets) == 1 and isinstance(a.targets[0], ast.Name) \
                        and any(isinstance(x, ast.Call) and call_name(x).split(".")[-1] == "diff" for x in ast.walk(a.value)) \
                        and not any(isinstance(x, ast.Call) and isinstance(x.func, ast.Attribute) and x.func.attr in ("sum", "mean", "max", "min", "all", "any") for x in ast.walk(a.value)):
                    defs[a.targets[0].id] = a
            for sub in ast.walk(fi2.node):
                if isinstance(sub, ast.Subscript) and isinstance(sub.value, ast.Name) and sub.value.id in defs and isinstance(sub.ctx, ast.Load) \
                        and isinstance(sub.slice, ast.Constant) and isinstance(sub.slice.value, int) and sub.lineno > defs[sub.value.id].lineno:
                    nm = sub.value.id
                    stores = [x for x in ast.walk(fi2.node) if isinstance(x, ast.Name) and x.id == nm and isinstance(x.ctx, ast.Store)]
                    if len(stores) > 1 and not any(isinstance(getattr(x, "_parent", None), ast.Assign) and getattr(x, "_parent") is defs[nm] for x in stores):
                        continue
                    n18 += 1
                    facts = known_facts(fi2.node, sub)
                    lens = (f"len({nm})", f"{nm}.size", f"np.size({nm})")
                    guarded = any(any(l_ in g for l_ in lens) for g in facts) or any(g in (nm, f"{nm}.size") for g in facts)
                    if guarded:
                        rep.ok("R-C20-18", f"{fi2.file}:{sub.lineno} {fi2.short}", unparse(sub), "under a test of the number of differences")
                    else:
                        rep.fail("R-C20-18", fi2.file, sub.lineno, fi2.qualname, unparse(sub),
                                 f"'{nm}' holds the differences of an axis: for a spectrum with a single bin on that axis it is empty and this subscript raises "
                                 "IndexError (valid one-direction / one-frequency spectra crash)", anchor=f"diff-subscript:{fi2.short}:{nm}")
    n18 += diff_reductions(repo, rep, "R-C20-18")
    if not n18:
        rep.ok("R-C20-18", "wavespectra (statistics, utils, partition)", "no subscripted difference vector", "nothing to guard")


def diff_reductions(repo, rep, rule, modules=("wavespectra.core.utils", "wavespectra.specarray", "wavespectra.core.npstats", "wavespectra.core.xrstats",
                                              "wavespectra.partition.partition", "wavespectra.partition.tracking")):
    """np.diff(X)[k] / np.diff(X)....mean() / .min() / .max() written in one expression: X has at least two elements on every path that gets there
    (a literal two-element selection, or a dominating test of X's size / length) - otherwise the difference is empty: IndexError, or a NaN / NaT
    that turns the statistic into NaN for a valid one-record input."""
    from ..astutil import known_facts
    n_ = 0
    for q in modules:
        for fi in repo.module(q).all_funcs():
            for c in ast.walk(fi.node):
                if not (isinstance(c, ast.Call) and call_name(c).split(".")[-1] == "diff" and call_name(c).split(".")[0] in ("np", "numpy") and c.args):
                    continue
                # how is the difference consumed?
                p, cur, consumed = getattr(c, "_parent", None), c, None
                for _ in range(6):
                    if isinstance(p, ast.Subscript) and p.value is cur and isinstance(p.slice, ast.Constant):
                        consumed = "subscript"
                        break
                    if isinstance(p, ast.Attribute) and p.value is cur and p.attr in ("mean", "min", "max", "median", "item"):
                        consumed = p.attr
                        break
                    if isinstance(p, ast.Attribute) and p.value is cur or isinstance(p, ast.Call) and p.func is cur:
                        cur, p = p, getattr(p, "_parent", None)
                        continue
                    break
                if consumed is None:
                    continue
                n_ += 1
                x = c.args[0]
                two = False
                base = x
                while True:
                    if isinstance(base, ast.Attribute) and base.attr in ("values", "data"):
                        base = base.value
                    elif isinstance(base, ast.Subscript) and isinstance(base.slice, ast.Slice):
                        base = base.value
                    elif isinstance(base, ast.Call) and isinstance(base.func, ast.Attribute) and base.func.attr in ("astype", "to_numpy"):
                        base = base.func.value
                    else:
                        break
                if isinstance(base, ast.Call) and isinstance(base.func, ast.Attribute) and base.func.attr in ("isel", "sel"):
                    for k in base.keywords:
                        if isinstance(k.value, (ast.List, ast.Tuple)) and len(k.value.elts) >= 2:
                            two = True
                bt = unparse(base).replace(" ", "")
                facts = known_facts(fi.node, c)
                sized = any(g in (f"1<{bt}.size", f"2<={bt}.size", f"1<len({bt})", f"2<=len({bt})", f"1<{bt}.shape[0]", f"2<={bt}.shape[0]") for g in facts)
                where = f"{fi.file}:{c.lineno} {fi.short}"
                if two or sized:
                    rep.ok(rule, where, unparse(getattr(cur, "_parent", cur))[:80], "at least two elements: " + ("two-element selection" if two else "dominating size test"))
                else:
                    rep.fail(rule, fi.file, c.lineno, fi.qualname, unparse(p if p is not None else c)[:100],
                             f"the differences of '{unparse(base)[:40]}' are consumed ({consumed}) without a dominating test that it has at least two elements: for a "
                             "one-record / one-bin input the difference is empty and the result is IndexError or NaN", anchor=f"diff-of-short-axis:{fi.short}:{bt[:30]}")
    return n_


def python_lints(repo, rep):
    more_python_lints(repo, rep)
    rep.rule("R-C20-1", "no subscript is applied to an int-valued attribute (.size, .ndim, len(...))")
    rep.rule("R-C20-2", "float()/int() is never applied to an expression that is certainly an array of rank >= 1")
    rep.rule("R-C20-3", "argument validation raises ValueError (not assert / other types) and the test dominates the "
                        "first use of the validated argument")
    rep.rule("R-C20-4", "kernels that index by a computed position have a dominating guard for the degenerate case")
    n1 = n2 = 0
    for fi in repo.all_funcs():
        for n in ast.walk(fi.node):
            if isinstance(n, ast.Subscript):
                v = n.value
                if isinstance(v, ast.Attribute) and v.attr in INT_ATTRS:
                    n1 += 1
                    rep.fail("R-C20-1", fi.file, n.lineno, fi.qualname, ast.unparse(n),
                             f".{v.attr} is an int: subscripting it raises TypeError whenever this line is reached")
                elif isinstance(v, ast.Call) and ast.unparse(v.func) == "len":
                    rep.fail("R-C20-1", fi.file, n.lineno, fi.qualname, ast.unparse(n), "len() is an int")
            if isinstance(n, ast.Call) and isinstance(n.func, ast.Name) and n.func.id in ("float", "int") and n.args:
                n2 += 1
                if _rank_ge1(n.args[0], fi):
                    rep.fail("R-C20-2", fi.file, n.lineno, fi.qualname, ast.unparse(n)[:120],
                             "float()/int() of an array expression (np.diff / slice / np.where(...)[0]): TypeError under "
                             "the pinned NumPy for every input, or for any input with more than one element")
                else:
                    rep.ok("R-C20-2", f"{fi.file}:{n.lineno} {fi.short}", ast.unparse(n)[:80], "argument is not certainly an array",
                           nontrivial=False)
    rep.ok("R-C20-1", "package", f"{sum(1 for _ in repo.all_funcs())} functions scanned", "no int-valued attribute is subscripted")
    validation(repo, rep)
    kernel_guards(repo, rep)
    empty_lists(repo, rep)
    # (shared with R-C09-2) overlapping boxes are rejected with ValueError for EVERY pair of boxes
    from .c09 import bbox_rule
    sub9 = type(rep)("C20-sub9")
    try:
        bbox_rule(repo, sub9)
    except AnalysisError:
        pass
    rep.rule("R-C20-10", "(shared with C09) Partition.bbox rejects overlapping boxes with ValueError for every pair, before any mask is built")
    n9 = 0
    for f_ in sub9.findings:
        if "overlap" in f_.construct or "overlap" in f_.reason:
            n9 += 1
            rep.fail("R-C20-10", f_.file, f_.line, f_.func, f_.construct, f_.reason)
    if not n9:
        rep.ok("R-C20-10", "wavespectra/partition/partition.py bbox", "overlap test over all pairs", "invalid (overlapping) boxes raise ValueError")
    # tps reads freq[ipeak-1] and freq[ipeak+1]: the peak locator must never return an end bin (shared with C02)
    rep.rule("R-C02-2", "(shared with C02) _peak marks strict interior maxima only, so ipeak-1 and ipeak+1 exist")
    from .c02 import peak_definition
    peak_definition(repo, rep)


VALIDATORS = [
    # (function, parameters validated, description)
    ("wavespectra.specarray.SpecArray.split", ("fmin", "fmax", "dmin", "dmax"), "fmax <= fmin / dmax <= dmin"),
    ("wavespectra.specarray.SpecArray._interp_freq", ("fint",), "fint outside the frequency range"),
    ("wavespectra.specarray.SpecArray.stats", ("stats", "names"), "stats container / names length / unknown method"),
    ("wavespectra.core.utils.smooth_spec", ("freq_window", "dir_window"), "even window"),
    ("wavespectra.partition.partition.Partition.bbox", ("bboxes",), "fmin >= fmax / overlapping boxes"),
    ("wavespectra.partition.partition.Partition.hp01", ("wstype",), "wstype not in 0,1,2"),
    ("wavespectra.partition.partition.Partition.__init__", ("dset",), "not a DataArray/Dataset"),
    ("wavespectra.specdataset.SpecDataset.sel", ("method",), "unknown selection method"),
    ("wavespectra.specarray.SpecArray.momd", (), "1-D spectrum"),
    ("wavespectra.specarray.SpecArray.dm", (), "1-D spectrum"),
    ("wavespectra.specarray.SpecArray.dspr", (), "1-D spectrum"),
    ("wavespectra.specarray.SpecArray.fdspr", (), "1-D spectrum"),
    ("wavespectra.specarray.SpecArray.uss_x", (), "1-D spectrum"),
    ("wavespectra.specarray.SpecArray.uss_y", (), "1-D spectrum"),
    ("wavespectra.core.xrstats.peak_wave_direction", (), "1-D spectrum"),
    ("wavespectra.core.xrstats.mean_direction_at_peak_wave_period", (), "1-D spectrum"),
    ("wavespectra.core.xrstats.peak_directional_spread", (), "1-D spectrum"),
]
VALUE_ERRORS = {"ValueError"}


def empty_lists(repo, rep):
    """R-C20-9: in the numpy partition kernels the list of detected partitions is EMPTY for a flat / constant spectrum (the native
    routine then reports zero partitions): it may be converted with np.array (accepts []), but np.stack / concatenate / max / min
    of it raise."""
    rep.rule("R-C20-9", "a possibly empty list of detected partitions is never passed to a function that rejects empty input "
                        "(np.stack / vstack / hstack / concatenate / max / min) without a non-emptiness guard")
    RAISES = {"stack", "vstack", "hstack", "dstack", "concatenate", "max", "min", "amax", "amin", "argmax", "argmin", "nanmax", "nanmin"}
    nl = 0
    mod = repo.module("wavespectra.partition.partition")
    for fi in mod.funcs.values():
        if not fi.name.startswith("np_"):
            continue
        lists = set()
        for a_ in ast.walk(fi.node):
            if isinstance(a_, ast.Assign) and isinstance(a_.value, ast.List) and not a_.value.elts and isinstance(a_.targets[0], ast.Name):
                lists.add(a_.targets[0].id)
        # only those filled by append inside a loop
        filled = set()
        for l_ in ast.walk(fi.node):
            if isinstance(l_, (ast.For, ast.While)):
                for c_ in ast.walk(l_):
                    if isinstance(c_, ast.Call) and isinstance(c_.func, ast.Attribute) and c_.func.attr == "append" and isinstance(c_.func.value, ast.Name) \
                            and c_.func.value.id in lists:
                        filled.add(c_.func.value.id)
        # ... and lists built by a comprehension over range(<count>) / over another such list (count may be zero)
        for a_ in ast.walk(fi.node):
            if isinstance(a_, ast.Assign) and isinstance(a_.value, ast.ListComp) and isinstance(a_.targets[0], ast.Name):
                it = a_.value.generators[0].iter
                if (isinstance(it, ast.Call) and call_name(it) == "range" and len(it.args) == 1 and isinstance(it.args[0], ast.Name)) or \
                        (isinstance(it, ast.Name) and it.id in filled):
                    filled.add(a_.targets[0].id)
        for c_ in ast.walk(fi.node):
            if not isinstance(c_, ast.Call) or not c_.args:
                continue
            cn = call_name(c_).split(".")[-1]
            a0 = c_.args[0]
            if cn in RAISES and isinstance(a0, ast.Name) and a0.id in filled:
                # still the raw list at this point? (not rebound to an array in between)
                rebound = any(isinstance(x, ast.Assign) and any(isinstance(t, ast.Name) and t.id == a0.id for t in x.targets)
                              and not isinstance(x.value, (ast.List, ast.ListComp)) and x.lineno < c_.lineno for x in ast.walk(fi.node))
                if rebound:
                    continue
                nl += 1
                guarded = False
                p_ = getattr(c_, "_parent", None)
                while p_ is not None and p_ is not fi.node:
                    if isinstance(p_, ast.If) and any(isinstance(x, ast.Name) and x.id == a0.id for x in ast.walk(p_.test)):
                        guarded = True
                    p_ = getattr(p_, "_parent", None)
                if guarded:
                    rep.ok("R-C20-9", f"{fi.file}:{c_.lineno} {fi.short}", ast.unparse(c_)[:70], "under a guard on the list")
                else:
                    rep.fail("R-C20-9", fi.file, c_.lineno, fi.qualname, ast.unparse(c_)[:90],
                             f"'{a0.id}' is empty when the watershed finds no partition (flat / constant / all-zero spectrum): {cn}([]) raises, "
                             "so one calm spectrum anywhere in a dataset makes the whole call fail", anchor=f"empty-list:{fi.name}:{cn}")
    rep.ok("R-C20-9", "wavespectra/partition/partition.py", f"{nl} uses of possibly empty partition lists in rejecting functions", "none unguarded")


def validation(repo, rep):
    from ..cfg import CFG
    nsites = 0
    for qual, params, desc in VALIDATORS:
        fi = repo.func(qual)
        raises = [n for n in ast.walk(fi.node) if isinstance(n, ast.Raise) and n.exc is not None]
        asserts = [n for n in ast.walk(fi.node) if isinstance(n, ast.Assert)]
        if not raises:
            rep.fail("R-C20-3", fi.file, fi.node.lineno, fi.qualname, f"validation of {desc}",
                     "the function no longer rejects invalid arguments with an exception (validation removed)")
            continue
        for a in asserts:
            rep.fail("R-C20-3", fi.file, a.lineno, fi.qualname, ast.unparse(a)[:100],
                     "assert-based validation: raises AssertionError (or nothing under -O), not ValueError")
        for r in raises:
            nsites += 1
            exc = r.exc
            name = ast.unparse(exc.func) if isinstance(exc, ast.Call) else ast.unparse(exc)
            inside_handler = _in_handler(r)
            if name.split(".")[-1] in VALUE_ERRORS:
                rep.ok("R-C20-3", f"{fi.file}:{r.lineno} {fi.short}", ast.unparse(r)[:80], "raises ValueError")
            elif name in ("NotImplementedError",):
                rep.ok("R-C20-3", f"{fi.file}:{r.lineno} {fi.short}", ast.unparse(r)[:80], "unsupported feature (not argument validation)", nontrivial=False)
            else:
                rep.fail("R-C20-3", fi.file, r.lineno, fi.qualname, ast.unparse(r)[:100],
                         f"invalid arguments are rejected with {name}, the property requires ValueError")
        # dominance: the validating raise must precede the first data operation on the wrapped object
        if params:
            cfg = CFG(fi.node)
            first_raise_test = None
            for r in raises:
                if _in_handler(r):
                    continue
                node = cfg.node(r)
                gs = cfg.guards(node)
                if gs:
                    first_raise_test = r
                    break
    rep.floor("R-C20-3", "validation raise sites", nsites, 20)


def _in_handler(n):
    p = getattr(n, "_parent", None)
    while p is not None:
        if isinstance(p, ast.ExceptHandler):
            return True
        p = getattr(p, "_parent", None)
    return False


KERNELS_IPEAK = ["wavespectra.core.npstats.dpm", "wavespectra.core.npstats.tps", "wavespectra.core.npstats.tp",
                 "wavespectra.core.npstats.dpspr"]


def kernel_guards(repo, rep):
    from ..cfg import CFG
    for qual in KERNELS_IPEAK:
        fi = repo.func(qual)
        p0 = fi.params[0]
        cfg = CFG(fi.node)
        subs = [n for n in ast.walk(fi.node) if isinstance(n, ast.Subscript) and any(
            isinstance(x, ast.Name) and x.id == p0 for x in ast.walk(n.slice))]
        if not subs:
            raise AnalysisError(f"{qual}: no subscript by {p0} (idiom changed)")
        for s in subs:
            node = cfg.node(s)
            ok = False
            for test, truth in cfg.guards(node):
                t = ast.unparse(test)
                # reached only when `not ipeak` is False  /  `ipeak` true  / ipeak != 0 / ipeak > 0
                if (t == f"not {p0}" and truth is False) or (t == p0 and truth is True) or \
                        (t in (f"{p0} != 0", f"{p0} > 0", f"{p0} >= 1", f"0 < {p0}", f"1 <= {p0}") and truth is True) or \
                        (t in (f"{p0} == 0", f"{p0} < 1", f"{p0} <= 0") and truth is False):
                    ok = True
            if ok:
                rep.ok("R-C20-4", f"{fi.file}:{s.lineno} {fi.short}", ast.unparse(s), f"dominated by the '{p0} is 0 -> NaN' guard")
            else:
                rep.fail("R-C20-4", fi.file, s.lineno, fi.qualname, ast.unparse(s),
                         f"indexing by {p0}-dependent position without the dominating 'no interior peak' guard: "
                         "index 0 means 'no peak' and ipeak-1 / ipeak+1 leave the array")
    # alpha: tail window with 0 / 1 / many frequencies
    fi = repo.func("wavespectra.core.npstats.alpha")
    pos = None
    for n in ast.walk(fi.node):
        if isinstance(n, ast.Assign) and isinstance(n.targets[0], ast.Name) and isinstance(n.value, ast.Subscript) and \
                isinstance(n.value.value, ast.Call) and ast.unparse(n.value.value.func) in ("np.where", "np.nonzero", "numpy.where"):
            pos = n.targets[0].id
    if pos is None:
        raise AnalysisError("npstats.alpha: tail-window index selection (np.where(...)[0]) not found")
    sizes = set()
    for n in ast.walk(fi.node):
        if isinstance(n, ast.If):
            t = n.test
            if isinstance(t, ast.Compare) and len(t.ops) == 1:
                l = ast.unparse(t.left).replace(" ", "")
                v = repo.const(fi.module, t.comparators[0])
                if l in (f"{pos}.size", f"len({pos})") and isinstance(v, int):
                    if isinstance(t.ops[0], ast.Eq):
                        sizes.add(v)
                    elif isinstance(t.ops[0], ast.Lt):
                        sizes |= set(range(0, v))
                    elif isinstance(t.ops[0], ast.LtE):
                        sizes |= set(range(0, v + 1))
            elif isinstance(t, ast.UnaryOp) and isinstance(t.op, ast.Not) and ast.unparse(t.operand).replace(" ", "") in (f"{pos}.size", f"len({pos})"):
                sizes.add(0)
    missing = {0, 1} - sizes
    if missing:
        rep.fail("R-C20-4", fi.file, fi.node.lineno, fi.qualname, "tail-window selection",
                 f"degenerate tail windows are no longer handled: no branch for a window holding {sorted(missing)} frequencies")
    else:
        rep.ok("R-C20-4", f"{fi.file}:{fi.node.lineno} alpha", "tail window with 0 / 1 / many frequencies", "both degenerate cases have a branch")
    # replacement windows built from a selected index: [p, p + 1] is in range only where p is known not to be the last index
    fi = repo.func("wavespectra.core.npstats.alpha")
    single = {}
    for n in ast.walk(fi.node):
        if isinstance(n, ast.Assign) and len(n.targets) == 1 and isinstance(n.targets[0], ast.Name):
            single.setdefault(n.targets[0].id, []).append(n.value)

    def may_be_selected(e, depth=0):
        # an element of the selected positions (any valid index, possibly the last one)
        if isinstance(e, ast.Subscript) and isinstance(e.value, ast.Name) and e.value.id == pos:
            return True
        if isinstance(e, ast.IfExp):
            return may_be_selected(e.body, depth) or may_be_selected(e.orelse, depth)
        if isinstance(e, ast.Name) and e.id != pos and depth < 3:
            return any(may_be_selected(v, depth + 1) for v in single.get(e.id, []))
        return False

    def last_excluded(conds):
        for t, truth in conds:
            if isinstance(t, ast.Compare) and len(t.ops) == 1:
                l, r = ast.unparse(t.left).replace(" ", ""), ast.unparse(t.comparators[0]).replace(" ", "")
                sides = {l, r}
                is_last = any(x.endswith(".size-1") or x.startswith("len(") and x.endswith(")-1") for x in sides)
                sel = any(may_be_selected(x) for x in (t.left, t.comparators[0]))
                if is_last and sel:
                    op = type(t.ops[0])
                    if (op is ast.Eq and not truth) or (op is ast.NotEq and truth) or (op is ast.Lt and truth and may_be_selected(t.left)) \
                            or (op is ast.GtE and not truth and may_be_selected(t.left)):
                        return True
        return False
    nwin = 0

    def visit(stmts_, conds):
        nonlocal nwin
        for st in stmts_:
            if isinstance(st, ast.If):
                visit(st.body, conds + [(st.test, True)])
                visit(st.orelse, conds + [(st.test, False)])
            elif isinstance(st, ast.Assign) and isinstance(st.value, (ast.List, ast.Tuple)) and isinstance(st.targets[0], ast.Name) \
                    and st.targets[0].id == pos:
                nwin += 1
                for el in st.value.elts:
                    if isinstance(el, ast.BinOp) and isinstance(el.op, ast.Add) and may_be_selected(el.left) and not last_excluded(conds):
                        rep.fail("R-C20-4", fi.file, st.lineno, fi.qualname, ast.unparse(st),
                                 f"'{ast.unparse(el)}' can be one past the last frequency: the selected position may be the last index and no "
                                 "dominating test excludes that case, so the window indexes out of bounds (IndexError) for a peak near the top "
                                 "of the frequency range")
                        break
                else:
                    rep.ok("R-C20-4", f"{fi.file}:{st.lineno} alpha", ast.unparse(st), "replacement window stays inside the frequency axis")
            elif isinstance(st, (ast.For, ast.While, ast.With, ast.Try)):
                visit(getattr(st, "body", []), conds)
    visit(fi.node.body, [])
    # npstats.hs: direction width only when more than one direction
    fi = repo.func("wavespectra.core.npstats.hs")
    cfg = CFG(fi.node)
    for n in ast.walk(fi.node):
        if isinstance(n, ast.Subscript) and isinstance(n.value, ast.Name) and n.value.id == "dir" and \
                isinstance(n.slice, ast.Constant) and n.slice.value == 1:
            from ..astutil import known_facts
            gs = known_facts(fi.node, n)
            if any(g in ("1<len(dir)", "1<dir.size", "2<=len(dir)", "2<=dir.size") for g in gs) and "dirisnotNone" in gs:
                rep.ok("R-C20-4", f"{fi.file}:{n.lineno} hs", "dir[1]", "guarded by 'dir is not None and len(dir) > 1'")
            else:
                rep.fail("R-C20-4", fi.file, n.lineno, fi.qualname, ast.unparse(n),
                         "dir[1] without the 'dir is not None and len(dir) > 1' guard: 1-D / single-direction spectra crash")


def wrapper_preconditions(repo, rep):
    rep.rule("R-C20-6", "the wrapper reads DIMS[1] and PyArray_DATA as float* unchecked: every Python caller passes a "
                        "C-contiguous float32 array (2-D by the apply_ufunc core-dim contract)")
    from .shared import contiguity
    contiguity(repo, rep, "R-C20-6")
    rep.rule("R-C20-7", "no use after free: every free() of a file-scope buffer in partinit is followed by its "
                        "reallocation before return; locals are freed only at function end")
    cf = cnative.core(repo)
    for fn in cf.funcs:
        body = cnative.stmts(cf.body(fn))
        freed = {}
        for i, s in enumerate(body):
            for n in cf.walk(s):
                if n.get("kind") == "CallExpr":
                    t = ex(n)
                    if show(t[1]) == "free" and t[2] and t[2][0][0] == "var":
                        freed[t[2][0][1]] = (i, n)
        for name, (i, n) in freed.items():
            is_global = name in {g["name"] for g in cf.globals} and name not in cf.params(fn)
            used_after = False
            realloc = False
            # everything executed after the free(), in execution order (tree positions), wherever it is nested
            later = sorted((m for m in cf.walk(cf.func(fn)) if cf.pb(m) is not None and cf.pb(m) > cf.pe(n)), key=cf.pb)
            for m in later:
                if cnative.is_assign(m) and ex(m["inner"][0]) == ("var", name):
                    realloc = True
                if m.get("kind") == "DeclRefExpr" and m["referencedDecl"]["name"] == name and not realloc:
                    # ignore the DeclRef that is the LHS of the reallocating assignment
                    par = m.get("_p")
                    if not (par is not None and cnative.is_assign(par) and par["inner"][0] is m):
                        used_after = True
            if used_after:
                rep.fail("R-C20-7", SPECPART_C, cf.line(n), fn, cf.text(n), f"'{name}' is used after free()")
            elif is_global and not realloc:
                rep.fail("R-C20-7", SPECPART_C, cf.line(n), fn, cf.text(n),
                         f"file-scope buffer '{name}' is freed and not reallocated: the next call uses a dangling pointer")
            else:
                rep.ok("R-C20-7", f"{SPECPART_C}:{cf.line(n)} {fn}", cf.text(n),
                       "reallocated before return" if is_global else "local freed at function end, not used afterwards")
