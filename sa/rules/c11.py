"""C11 - write/read round trips: writer and reader agree on the tables and conventions they share."""
import ast
import math

from ..model import UNKNOWN, FuncInfo, call_name, kwarg, unparse
from ..report import AnalysisError
from ..astutil import canon, factors, resolve


def _strs(node):
    """string constants (and the literal parts of f-strings / format templates) inside a node"""
    out = []
    for n in ast.walk(node):
        if isinstance(n, ast.Constant) and isinstance(n.value, str):
            out.append(n.value)
    return out


def swan_vocab(repo, rep):
    sf = repo.cls("wavespectra.core.swan.SwanSpecFile")
    wh, ws, rd, init = sf.methods["write_header"], sf.methods["write_spectra"], sf.methods["read"], sf.methods["__init__"]
    # keywords the reader looks for
    recognised = set()
    for fi in (init, rd):
        for c in ast.walk(fi.node):
            if isinstance(c, ast.Call) and call_name(c) == "self._read_header" and c.args:
                v = repo.const(fi.module, c.args[0])
                if isinstance(v, str):
                    recognised.add(v)
    # block keywords: first token of the strings that START a line in the writer
    written = set()
    for fi in (wh, ws):
        for s in _strs(fi.node):
            for line in s.split("\n"):
                tok = line.strip().split(" ")[0] if line.strip() else ""
                if tok.isupper() and tok.isalpha() and len(tok) >= 4:
                    written.add(tok)
            if s.strip().startswith("SWAN"):
                written.add("SWAN")
    need = {"SWAN", "TIME", "LONLAT", "AFREQ", "NDIR", "QUANT", "NODATA", "ZERO", "FACTOR"}
    missing_w = need - written
    unknown = {w for w in written if w in need} - recognised
    if missing_w:
        raise AnalysisError(f"SwanSpecFile writer: keyword(s) {sorted(missing_w)} not found (format changed)")
    if unknown:
        rep.fail("R-C11-1", wh.file, wh.node.lineno, wh.qualname, f"written {sorted(written & need)}; recognised {sorted(recognised)}",
                 f"the writer emits block keyword(s) {sorted(unknown)} the reader never looks for: the file does not read back")
    else:
        rep.ok("R-C11-1", f"{wh.file} SwanSpecFile", f"keywords {sorted(written & need)}", "every keyword written is recognised by the reader")
    # writer branches NODATA / ZERO / FACTOR <-> reader branches (the factor variable is found by shape, not by name)
    facvar = None
    for n in ast.walk(ws.node):
        if isinstance(n, ast.If) and isinstance(n.test, ast.Call) and call_name(n.test) in ("np.isnan", "numpy.isnan", "math.isnan") and n.test.args and isinstance(n.test.args[0], ast.Name):
            facvar = n.test.args[0].id
            chain = [n.test]
            e = n.orelse
            while len(e) == 1 and isinstance(e[0], ast.If):
                chain.append(e[0].test)
                e = e[0].orelse
    okb = False
    if facvar is not None and len(chain) >= 2:
        t2 = chain[1]
        okb = isinstance(t2, ast.Compare) and isinstance(t2.ops[0], ast.LtE) and unparse(t2.left) == facvar and repo.const(ws.module, t2.comparators[0]) == 0
    if okb:
        rep.ok("R-C11-1", f"{ws.file}:{ws.node.lineno} write_spectra", "isnan(fac) -> NODATA; fac <= 0 -> ZERO; else FACTOR", "three cases, three reader branches")
    else:
        rep.fail("R-C11-1", ws.file, ws.node.lineno, ws.qualname, "NODATA / ZERO / FACTOR case split", "missing / zero / scaled spectra must map onto NODATA / ZERO / FACTOR blocks")
    # factor: written spec / fac, read back multiplied by the factor parsed from the file
    wdiv = any(isinstance(n, ast.BinOp) and isinstance(n.op, ast.Div) and unparse(n.right) == facvar for c in ast.walk(ws.node)
               if isinstance(c, ast.Call) and call_name(c) in ("np.savetxt", "numpy.savetxt") for n in ast.walk(c))
    rfac = None
    for n in ast.walk(rd.node):
        if isinstance(n, ast.Assign) and isinstance(n.targets[0], ast.Name) and isinstance(n.value, ast.Call) and call_name(n.value) == "float" and "readline" in unparse(n.value):
            rfac = n.targets[0].id
    rmul = any(isinstance(n, ast.AugAssign) and isinstance(n.op, ast.Mult) and unparse(n.value) == rfac for n in ast.walk(rd.node)) or \
        any(isinstance(n, ast.BinOp) and isinstance(n.op, ast.Mult) and rfac in (unparse(n.left), unparse(n.right)) for n in ast.walk(rd.node))
    if wdiv and rfac and rmul:
        rep.ok("R-C11-1", f"{ws.file} SwanSpecFile", "write spec / fac ; read Snew *= fac", "inverse operations")
    else:
        rep.fail("R-C11-1", ws.file, ws.node.lineno, ws.qualname, "factor handling", "the reader must multiply by the factor the writer divided by")
    # time format
    to_swan = repo.func("wavespectra.output.swan.to_swan")
    wfmt = None
    for n in ast.walk(to_swan.node):
        if isinstance(n, ast.FormattedValue) and n.format_spec is not None:
            spec = "".join(v.value for v in n.format_spec.values if isinstance(v, ast.Constant))
            if "%Y" in spec:
                wfmt = spec
    rfmt = None
    for c in ast.walk(rd.node):
        if isinstance(c, ast.Call) and call_name(c).endswith("strptime") and len(c.args) == 2:
            rfmt = repo.const(rd.module, c.args[1])
    if wfmt is not None and wfmt == rfmt:
        rep.ok("R-C11-1", f"{to_swan.file} / {rd.file}", f"time format {wfmt}", "writer strftime == reader strptime")
    else:
        rep.fail("R-C11-1", to_swan.file, to_swan.node.lineno, to_swan.qualname, f"writes '{wfmt}', reads '{rfmt}'", "timestamps are written in a format the reader does not parse")
    # declared unit line => reader's units branch is the identity
    jtest = any(isinstance(n, ast.If) and isinstance(n.test, ast.Call) and isinstance(n.test.func, ast.Attribute) and n.test.func.attr == "startswith"
                and n.test.args and repo.const(init.module, n.test.args[0]) == "J" for n in ast.walk(init.node))
    if "m2/Hz/degr" in " ".join(_strs(wh.node)) and jtest:
        rep.ok("R-C11-1", f"{wh.file} SwanSpecFile", "unit line 'm2/Hz/degr' does not start with J", "reader applies no energy-unit factor")
    else:
        rep.fail("R-C11-1", wh.file, wh.node.lineno, wh.qualname, "unit line", "the unit declared by the writer must select the reader's identity units branch")


def dir_permutation(repo, rep, rule):
    """labels and data columns are reordered by the same index array, both as gathers"""
    sf = repo.cls("wavespectra.core.swan.SwanSpecFile")
    init, rd = sf.methods["__init__"], sf.methods["read"]
    lab = dat = None
    for g in ast.walk(init.node):
        if isinstance(g, ast.If) and unparse(g.test) == "dirorder":
            for n in g.body:
                if isinstance(n, ast.Assign) and unparse(n.targets[0]) == "self.dirs":
                    lab = n
    for n in ast.walk(rd.node):
        if isinstance(n, ast.Assign) and "self.dirmap" in unparse(n):
            dat = n
    if lab is None or dat is None:
        raise AnalysisError("SwanSpecFile: direction reordering statements not found")
    lt = unparse(lab.value).replace(" ", "")
    gather_lab = lt.startswith("self.dirs[self.dirmap]")
    gather_dat = isinstance(dat, ast.Assign) and isinstance(dat.targets[0], ast.Name) and isinstance(dat.value, ast.Subscript) and \
        unparse(dat.value.value) == dat.targets[0].id and isinstance(dat.value.slice, ast.Tuple) and len(dat.value.slice.elts) == 2 and \
        isinstance(dat.value.slice.elts[0], ast.Slice) and unparse(dat.value.slice.elts[1]) == "self.dirmap"
    dm = [n for n in ast.walk(init.node) if isinstance(n, ast.Assign) and unparse(n.targets[0]) == "self.dirmap" and "argsort" in unparse(n.value)]
    key_ok = bool(dm) and "self.dirs%360" in unparse(dm[0].value).replace(" ", "")
    if gather_lab and gather_dat and key_ok:
        rep.ok(rule, f"{init.file}:{lab.lineno} SwanSpecFile", "dirs = dirs[dirmap] % 360 ; Snew = Snew[:, dirmap] ; dirmap = argsort(dirs % 360)", "labels and data gathered by the same sort index")
    else:
        bad = lab if not gather_lab else dat
        rep.fail(rule, init.file, bad.lineno, (init if bad is lab else rd).qualname, f"{unparse(lab)} ;  {unparse(dat)}",
                 "the sorted direction labels and the energy columns must be obtained by indexing with the SAME permutation (a gather X[dirmap]); "
                 "sorting labels independently, or scattering (X[:, dirmap] = X), attaches energy to the wrong directions unless the "
                 "permutation is its own inverse")


def location_order(repo, rep):
    """R-C11-2: slowest-varying grid coordinate on write == first reshaped axis on read."""
    st = repo.func("wavespectra.specdataset.SpecDataset._check_and_stack_dims")
    worder = None
    for c in ast.walk(st.node):
        if isinstance(c, ast.Call) and isinstance(c.func, ast.Attribute) and c.func.attr == "stack":
            for k in c.keywords:
                v = repo.const(st.module, k.value)
                if k.arg == repo.attrs.SITENAME and isinstance(v, (tuple, list)):
                    worder = (tuple(v), c)
    rs = repo.func("wavespectra.input.swan.read_swan")
    rorder = None
    for c in ast.walk(rs.node):
        if isinstance(c, ast.Call) and isinstance(c.func, ast.Attribute) and c.func.attr == "reshape" and len(c.args) == 5:
            rorder = ([unparse(a) for a in c.args], c)
    if worder is None or rorder is None:
        raise AnalysisError("location order: stack(site=...) / reshape(...) not found")
    slow_w = worder[0][0]            # first name in stack tuple varies slowest
    a1 = rorder[0][1]
    # which coordinate sized the first location axis: follow len(<name>) to sorted(np.unique(<x or y of the file>))
    slow_r = None
    m = ast.parse(a1, mode="eval").body
    if isinstance(m, ast.Call) and call_name(m) == "len" and m.args and isinstance(m.args[0], ast.Name):
        src = m.args[0]
        before = rorder[1].lineno
        for _ in range(8):
            if isinstance(src, ast.Name):
                cands = [a_ for a_ in ast.walk(rs.node) if isinstance(a_, ast.Assign) and isinstance(a_.targets[0], ast.Name)
                         and a_.targets[0].id == src.id and a_.lineno < before]
                if not cands:
                    break
                a_ = max(cands, key=lambda x: x.lineno)
                src, before = a_.value, a_.lineno
            elif isinstance(src, ast.Call) and call_name(src) in ("sorted", "np.unique", "numpy.unique", "list") and src.args:
                src = src.args[0]
            else:
                break
        t = unparse(src)
        slow_r = repo.attrs.LONNAME if t.endswith(".x") else (repo.attrs.LATNAME if t.endswith(".y") else None)
    if slow_r is None:
        raise AnalysisError("read_swan: cannot tell which coordinate sizes the first location axis")
    if slow_w == slow_r:
        rep.ok("R-C11-2", f"{st.file}:{worder[1].lineno} / {rs.file}:{rorder[1].lineno}", f"slowest grid coordinate '{slow_w}' on both sides", "each spectrum read back at the position it was written from")
    else:
        rep.fail("R-C11-2", rs.file, rorder[1].lineno, rs.qualname, f"reshape({', '.join(rorder[0])}) vs stack(site={worder[0]})", anchor="swan:grid-location-order", reason=
                 f"the writer flattens a grid with '{slow_w}' varying slowest, the reader rebuilds it with '{slow_r}' slowest: on a grid with "
                 "unequal sizes every spectrum comes back at another position")


def json_formats(repo, rep):
    w, r = repo.func("wavespectra.output.json.to_json"), repo.func("wavespectra.input.json.read_json")
    def dflt(fi, p):
        a = fi.node.args
        pos = a.posonlyargs + a.args
        d = dict(zip([x.arg for x in pos[len(pos) - len(a.defaults):]], a.defaults))
        return repo.const(fi.module, d[p]) if p in d else None
    a, b = dflt(w, "date_format"), dflt(r, "date_format")
    if a is not None and a == b:
        rep.ok("R-C11-3", f"{w.file} / {r.file}", f"date_format default {a!r}", "same strftime / strptime format")
    else:
        rep.fail("R-C11-3", w.file, w.node.lineno, w.qualname, f"writer {a!r} reader {b!r}", "JSON timestamps are written and parsed with different default formats")
    def containers(fi):
        for n in ast.walk(fi.node):
            if isinstance(n, ast.For) and isinstance(n.iter, (ast.List, ast.Tuple)):
                v = repo.const(fi.module, n.iter)
                if isinstance(v, (list, tuple)) and "coords" in v:
                    return tuple(v)
        # the same loop in its unrolled normal form: item__u0 = "coords"; ...; item__u1 = "data_vars"; ...
        un = [(a_.lineno, a_.col_offset, a_.value.value) for a_ in ast.walk(fi.node) if isinstance(a_, ast.Assign) and isinstance(a_.value, ast.Constant)
              and a_.value.value in ("coords", "data_vars", "attrs", "dims") and isinstance(a_.targets[0], ast.Name) and "__u" in a_.targets[0].id]
        if un:
            return tuple(x[2] for x in sorted(un))
        # ... with the constant folded into its uses:  if 'time' in d['coords']: ...   if 'time' in d['data_vars']: ...
        tst = [(t_.lineno, t_.col_offset, t_.test.comparators[0].slice.value) for t_ in ast.walk(fi.node) if isinstance(t_, ast.If) and isinstance(t_.test, ast.Compare)
               and len(t_.test.ops) == 1 and isinstance(t_.test.ops[0], ast.In) and isinstance(t_.test.left, ast.Constant) and t_.test.left.value == repo.attrs.TIMENAME
               and isinstance(t_.test.comparators[0], ast.Subscript) and isinstance(t_.test.comparators[0].slice, ast.Constant)]
        if tst:
            return tuple(x[2] for x in sorted(tst))
        return None
    if containers(w) == containers(r) == ("coords", "data_vars"):
        rep.ok("R-C11-3", f"{w.file} / {r.file}", "time converted in coords and data_vars on both sides", "same containers")
    else:
        rep.fail("R-C11-3", w.file, w.node.lineno, w.qualname, f"{containers(w)} vs {containers(r)}", "writer and reader convert times in different containers")


def ww3_pair(repo, rep):
    wm, rm = repo.module("wavespectra.output.ww3"), repo.module("wavespectra.input.ww3")
    a = repo.const(wm, wm.consts["MAPPING"]) if "MAPPING" in wm.consts else None
    b = repo.const(rm, rm.consts["MAPPING"]) if "MAPPING" in rm.consts else None
    if isinstance(a, dict) and a == b:
        rep.ok("R-C11-4", f"{wm.relpath} / {rm.relpath}", f"MAPPING ({len(a)} names)", "identical tables; writer applies the inverse")
    else:
        rep.fail("R-C11-4", wm.relpath, 1, "wavespectra.output.ww3", "MAPPING tables", "writer and reader rename with different tables")
    w, r = repo.func("wavespectra.output.ww3.to_ww3"), repo.func("wavespectra.input.ww3.from_ww3")
    wt, rt = unparse(w.node).replace(" ", ""), unparse(r.node).replace(" ", "")
    inv = False
    for n in ast.walk(w.node):
        if isinstance(n, ast.DictComp) and len(n.generators) == 1:
            g = n.generators[0]
            if isinstance(g.target, ast.Tuple) and len(g.target.elts) == 2 and unparse(g.iter).replace(" ", "") == "MAPPING.items()":
                k_, v_ = (unparse(e) for e in g.target.elts)
                inv = unparse(n.key) == v_ and unparse(n.value) == k_
    if inv:
        rep.ok("R-C11-4", f"{w.file} to_ww3", "rename({v: k for k, v in MAPPING.items() ...})", "inverse of the reader's mapping")
    else:
        rep.fail("R-C11-4", w.file, w.node.lineno, w.qualname, "rename mapping", "the writer must rename with the inverse of the reader's MAPPING")
    # energy factor: writer * R2D, reader * D2R
    def factor(fi):
        spec = repo.attrs.SPECNAME
        for n in ast.walk(fi.node):
            tgt = val = None
            if isinstance(n, ast.AugAssign) and isinstance(n.target, ast.Subscript) and repo.const(fi.module, n.target.slice) == spec:
                c = repo.const(fi.module, n.value)
                if isinstance(c, float):
                    return c if isinstance(n.op, ast.Mult) else (1 / c if isinstance(n.op, ast.Div) else None)
            if isinstance(n, ast.Assign) and isinstance(n.targets[0], ast.Subscript) and repo.const(fi.module, n.targets[0].slice) == spec and isinstance(n.value, ast.BinOp):
                for x in (n.value.left, n.value.right):
                    c = repo.const(fi.module, x)
                    if isinstance(c, float):
                        return c if isinstance(n.value.op, ast.Mult) else 1 / c
        return None
    fw, fr = factor(w), factor(r)
    if fw and fr and abs(fw * fr - 1.0) < 1e-12:
        rep.ok("R-C11-4", f"{w.file} / {r.file}", f"energy factors {fw:.6g} x {fr:.6g} = 1", "per-degree <-> per-radian and back")
    else:
        rep.fail("R-C11-4", w.file, w.node.lineno, w.qualname, f"writer factor {fw}, reader factor {fr}", "the density written and read back is scaled by a factor other than one")
    flip = "+180)%360"
    if flip in wt and flip in rt:
        rep.ok("R-C11-4", f"{w.file} / {r.file}", "(dir + 180) % 360 on write and on read", "coming-from <-> going-to and back")
    else:
        rep.fail("R-C11-4", w.file, w.node.lineno, w.qualname, "direction flip", "both sides must turn directions by 180 degrees modulo 360")


def chunk_loops(repo, rep):
    for q in ("wavespectra.output.swan.to_swan", "wavespectra.output.octopus.to_octopus"):
        fi = repo.func(q)
        loops = [n for n in ast.walk(fi.node) if isinstance(n, ast.While)]
        if len(loops) != 1:
            raise AnalysisError(f"{fi.short}: chunked dump loop not found")
        lp = loops[0]
        t = unparse(lp.test).replace(" ", "")
        body = unparse(lp).replace(" ", "")
        lo_ = hi_ = None
        for b_ in lp.body:
            if isinstance(b_, ast.AugAssign) and isinstance(b_.op, ast.Add) and isinstance(b_.target, ast.Name) and unparse(b_.value) == "ntime":
                hi_ = b_.target.id
        for b_ in lp.body:
            if isinstance(b_, ast.Assign) and isinstance(b_.targets[0], ast.Name) and isinstance(b_.value, ast.Name) and b_.value.id == hi_:
                lo_ = b_.targets[0].id
        progress = lo_ is not None and hi_ is not None
        # the loop must continue while unwritten records remain: a disjunct / the test `i0 < <size>`
        conds = [unparse(v).replace(" ", "") for v in (lp.test.values if isinstance(lp.test, ast.BoolOp) and isinstance(lp.test.op, ast.Or) else [lp.test])]
        covers = any(c.startswith(f"{lo_}<") and c.endswith(".time.size") for c in conds)
        if progress and covers:
            rep.ok("R-C11-8", f"{fi.file}:{lp.lineno} {fi.short}", f"while {unparse(lp.test)}", "every record is written, including a trailing partial chunk; i0/i1 advance by ntime")
        elif not covers:
            rep.fail("R-C11-8", fi.file, lp.lineno, fi.qualname, f"while {unparse(lp.test)}",
                     "the dump loop stops when the next FULL chunk does not fit: with an ntime that does not divide the number of times the "
                     "last records are silently never written")
        else:
            rep.fail("R-C11-8", fi.file, lp.lineno, fi.qualname, "loop progress", "the chunk cursor must advance (i0 = i1; i1 += ntime)")


def stack_guards(repo, rep):
    fi = repo.func("wavespectra.specdataset.SpecDataset._check_and_stack_dims")
    n_ok = 0
    for n in ast.walk(fi.node):
        if isinstance(n, ast.If) and isinstance(n.test, ast.Compare) and len(n.test.ops) == 1 and isinstance(n.test.ops[0], ast.In) \
                and unparse(n.test.comparators[0]).endswith(".coords"):
            tested = repo.const(fi.module, n.test.left)
            for b in n.body:
                for c in ast.walk(b):
                    if isinstance(c, ast.Call) and isinstance(c.func, ast.Attribute) and c.func.attr == "reset_coords" and c.args:
                        acted = repo.const(fi.module, c.args[0])
                        if isinstance(n.test.left, ast.Name) and isinstance(c.args[0], ast.Name) and n.test.left.id == c.args[0].id:
                            # loop form:  for coord in [LON, LAT]: if coord in dset.coords: dset = dset.reset_coords(coord)
                            lp = getattr(n, "_parent", None)
                            while lp is not None and not isinstance(lp, ast.For):
                                lp = getattr(lp, "_parent", None)
                            if lp is not None and isinstance(lp.target, ast.Name) and lp.target.id == n.test.left.id and isinstance(lp.iter, (ast.List, ast.Tuple)):
                                names_ = [repo.const(fi.module, e_) for e_ in lp.iter.elts]
                                n_ok += len(names_)
                                rep.ok("R-C11-9", f"{fi.file}:{n.lineno} _check_and_stack_dims", f"for {lp.target.id} in {names_}: if in coords: reset_coords",
                                       "guard and action name the same variable")
                                continue
                        if tested == acted:
                            n_ok += 1
                            rep.ok("R-C11-9", f"{fi.file}:{n.lineno} _check_and_stack_dims", f"if {tested!r} in coords: reset_coords({acted!r})", "guard and action name the same variable")
                        else:
                            rep.fail("R-C11-9", fi.file, n.lineno, fi.qualname, unparse(n)[:110],
                                     f"the guard tests '{tested}' but the action demotes '{acted}': '{acted}' stays a coordinate when it should "
                                     "become a data variable, and the writers then overwrite it with zeros (their 'no lon/lat' fallback)")
    if n_ok + len([f for f in rep.findings if f.rule == "R-C11-9"]) < 2:
        raise AnalysisError("_check_and_stack_dims: lon/lat demotion guards not found")
    t = unparse(fi.node).replace(" ", "")
    if "self.dset.copy(deep=True)" in t:
        rep.ok("R-C11-9", f"{fi.file} _check_and_stack_dims", "works on self.dset.copy(deep=True)", "the caller's dataset is not touched")


def funwave_pair(repo, rep):
    w, r = repo.func("wavespectra.output.funwave.funwave_spectrum"), repo.func("wavespectra.input.funwave.read_funwave")
    wt, rt = unparse(w.node).replace(" ", ""), unparse(r.node).replace(" ", "")
    # amp = sqrt(E df dd 8)/2  ;  E = amp^2 / (df dd 2):  (sqrt(8 x)/2)^2 / 2 = x
    def prod_sig(e):
        out = []
        for f in factors(e):
            c = repo.const(w.module, f)
            out.append(str(c) if isinstance(c, (int, float)) else unparse(f).split(".")[-1])
        return sorted(out)
    wa = ra = False
    for n in ast.walk(w.node):
        if isinstance(n, ast.BinOp) and isinstance(n.op, ast.Div) and repo.const(w.module, n.right) == 2 and isinstance(n.left, ast.Call) and \
                call_name(n.left) in ("np.sqrt", "numpy.sqrt") and n.left.args and {"8", "dd", "df"} <= set(prod_sig(n.left.args[0])) and len(factors(n.left.args[0])) == 4:
            wa = True
    for n in ast.walk(r.node):
        if isinstance(n, ast.BinOp) and isinstance(n.op, ast.Div) and isinstance(n.left, ast.BinOp) and isinstance(n.left.op, ast.Pow) and \
                repo.const(r.module, n.left.right) == 2 and prod_sig(n.right) == ["2", "dd", "df"]:
            ra = True
    if wa and ra:
        rep.ok("R-C11-6", f"{w.file} / {r.file}", "amp = sqrt(8 E df dd)/2 ; E = amp^2 / (2 df dd)", "compose to the identity (coefficient 8/4/2 = 1)")
    else:
        rep.fail("R-C11-6", w.file, w.node.lineno, w.qualname, "amplitude <-> density", "writer's amplitude formula and reader's inverse no longer compose to the identity")
    tw = unparse(repo.func("wavespectra.output.funwave.to_funwave").node).replace(" ", "")
    def _invol(node, mod):
        return any(isinstance(b_, ast.BinOp) and isinstance(b_.op, ast.Mod) and repo.const(mod, b_.right) == 360 and isinstance(b_.left, ast.BinOp)
                   and isinstance(b_.left.op, ast.Sub) and repo.const(mod, b_.left.left) == 270 for b_ in ast.walk(node))
    twf = repo.func("wavespectra.output.funwave.to_funwave")
    if _invol(twf.node, twf.module) and _invol(r.node, r.module):
        rep.ok("R-C11-6", f"{w.file} / {r.file}", "(270 - d) % 360 on both sides", "an involution: nautical-from <-> cartesian-to and back")
    else:
        rep.fail("R-C11-6", w.file, w.node.lineno, w.qualname, "direction mapping", "both sides must use the involution (270 - d) % 360")


def octopus_pair(repo, rep):
    w, r = repo.func("wavespectra.output.octopus.to_octopus"), repo.func("wavespectra.input.octopus.read_octopus")
    wt, rt = unparse(w.node).replace(" ", ""), unparse(r.node).replace(" ", "")
    rdiv = any(isinstance(n, ast.BinOp) and isinstance(n.op, ast.Div) and unparse(n.left).endswith(".efth") and
               sorted(unparse(f).split(".")[-1] for f in factors(n.right)) == ["dd", "df"] and all(".spec." in unparse(f) for f in factors(n.right))
               for n in ast.walk(r.node))
    if any(isinstance(c, ast.Call) and isinstance(c.func, ast.Attribute) and c.func.attr == "to_energy" for c in ast.walk(w.node)) and rdiv:
        rep.ok("R-C11-5", f"{w.file} / {r.file}", "writes efth*df*dd (to_energy) ; reads efth / (df*dd)", "same accessor bin widths on both sides")
    else:
        rep.fail("R-C11-5", w.file, w.node.lineno, w.qualname, "energy <-> density", "the reader must divide by the same df*dd the writer multiplied by")
    # reader: X = np.loadtxt(.., usecols=np.arange(N + 1), unpack=True); directions = X[0, :]; energy = X[1:, :]
    lay = False
    for a_ in ast.walk(r.node):
        if isinstance(a_, ast.Assign) and isinstance(a_.value, ast.Call) and call_name(a_.value).split(".")[-1] in ("loadtxt", "genfromtxt") and isinstance(a_.targets[0], ast.Name):
            X = a_.targets[0].id
            uc, up = kwarg(a_.value, "usecols"), kwarg(a_.value, "unpack")
            uc_ok = isinstance(uc, ast.Call) and call_name(uc).split(".")[-1] == "arange" and len(uc.args) == 1 and isinstance(uc.args[0], ast.BinOp) \
                and isinstance(uc.args[0].op, ast.Add) and 1 in (repo.const(r.module, uc.args[0].left), repo.const(r.module, uc.args[0].right))
            subs = {unparse(s_.slice).replace(" ", "") for s_ in ast.walk(r.node) if isinstance(s_, ast.Subscript) and unparse(s_.value) == X}
            lay = uc_ok and up is not None and repo.const(r.module, up) is True and {"(0,:)", "(1:,:)"} <= subs
    if ".transpose(attrs.TIMENAME,attrs.SITENAME,attrs.DIRNAME,attrs.FREQNAME)" in wt and lay:
        rep.ok("R-C11-5", f"{w.file} / {r.file}", "rows = directions, first column = direction, last column = sum", "reader takes columns 0..nfreqs, unpacked: directions then energy")
    else:
        rep.fail("R-C11-5", w.file, w.node.lineno, w.qualname, "table layout", "row / column layout of the energy table differs between writer and reader")


def octopus_record_times(repo, rep):
    """R-C11-5: every time-derived field written in the per-record lines of to_octopus belongs to THAT record (indexed by the record
    loop's index, or the loop's own element): a value hoisted out of the loop stamps every record with the first record's date."""
    w = repo.func("wavespectra.output.octopus.to_octopus")
    # names derived from the time axis
    def _is_datefmt(v):
        for x in ast.walk(v):
            if isinstance(x, ast.FormattedValue) and x.format_spec is not None and "%" in unparse(x.format_spec):
                return True
            if isinstance(x, ast.Call) and isinstance(x.func, ast.Attribute) and x.func.attr == "strftime":
                return True
        return False
    T = {"times"}
    for a_ in ast.walk(w.node):
        if isinstance(a_, ast.Assign) and isinstance(a_.targets[0], ast.Name) and _is_datefmt(a_.value):
            T.add(a_.targets[0].id)
    loops = [l for l in ast.walk(w.node) if isinstance(l, ast.For) and isinstance(l.iter, ast.Call) and call_name(l.iter) == "enumerate"
             and l.iter.args and isinstance(l.iter.args[0], ast.Name) and l.iter.args[0].id in T and isinstance(l.target, ast.Tuple)]
    if not loops:
        raise AnalysisError("to_octopus: record loop `for i, t in enumerate(times)` not found")
    lp = loops[0]
    idx, elem = (e.id for e in lp.target.elts)
    # per-record locals (assigned inside the loop) are fine; time-derived names assigned OUTSIDE the loop must be indexed by idx
    inner_assigned = {t_.id for a_ in ast.walk(lp) if isinstance(a_, ast.Assign) for t_ in ast.walk(a_.targets[0]) if isinstance(t_, ast.Name)}
    bad, nuse = [], 0
    for n in ast.walk(lp):
        if isinstance(n, ast.Name) and isinstance(n.ctx, ast.Load) and n.id in T and n.id not in inner_assigned and n.id not in (idx, elem):
            par = getattr(n, "_parent", None)
            nuse += 1
            if isinstance(par, ast.Subscript) and par.value is n and unparse(par.slice) == idx:
                continue
            if isinstance(par, ast.Call) and call_name(par) in ("enumerate", "len"):
                continue
            bad.append(n)
    if bad:
        rep.fail("R-C11-5", w.file, bad[0].lineno, w.qualname, f"'{bad[0].id}' used in the record loop without [{idx}]",
                 f"'{bad[0].id}' is derived from the time axis outside the record loop and is written into every record unchanged: records after "
                 "a month / day change carry the first record's date fields and are read back at the wrong time", anchor=f"octopus-record-time:{bad[0].id}")
    else:
        rep.ok("R-C11-5", f"{w.file}:{lp.lineno} to_octopus", f"{nuse} uses of time-derived values in the record loop", f"each indexed by the record index '{idx}'")


def netcdf_packing(repo, rep):
    fi = repo.func("wavespectra.output.netcdf.to_netcdf")
    t = unparse(fi.node).replace(" ", "")
    X = E = None
    for a_ in ast.walk(fi.node):
        if isinstance(a_, ast.Assign) and isinstance(a_.targets[0], ast.Name) and unparse(a_.value).replace(" ", "") == "self.copy(deep=True)":
            X = a_.targets[0].id
    for c_ in ast.walk(fi.node):
        if isinstance(c_, ast.Call) and isinstance(c_.func, ast.Attribute) and c_.func.attr == "to_netcdf" and unparse(c_.func.value) == X:
            e_ = kwarg(c_, "encoding")
            E = unparse(e_) if e_ is not None else None
    if X and E and f"{E}[attrs.SPECNAME].update(" in t and "'_FillValue':-32768" in t:
        rep.ok("R-C11-7", f"{fi.file} to_netcdf", "deep copy; packing only on efth; _FillValue -32768", "negative fill value is outside the packed range of non-negative energy")
    else:
        rep.fail("R-C11-7", fi.file, fi.node.lineno, fi.qualname, "packing", "packing must apply to a deep copy, to the spectrum variable only, with a fill value outside the data range")


def writer_purity(repo, rep):
    """R-C11-13 (shared with C17): writing is repeatable - no writer changes the dataset it serialises."""
    rep.rule("R-C11-13", "(shared with C17) no format writer has a write effect on the dataset it was called on or on its arguments: a second "
                         "write of the same dataset produces the same file (unit conversions are applied to a deep copy)")
    from ..effects import Engine
    from .c17 import python_part
    eng = Engine(repo)
    iters = eng.solve()
    ent = python_part(repo, rep, eng, iters, "R-C11-13", only=lambda fi: fi.qualname.startswith("wavespectra.output.") and fi.name.startswith("to_"))
    rep.floor("R-C11-13", "format writers", len(ent), 6)


def swan_axis_order(repo, rep):
    """R-C11-14: to_swan consumes efth positionally, so the complete axis order must be fixed first."""
    rep.rule("R-C11-14", "to_swan fixes the complete axis order (time, site, freq, dir) of the working dataset before it reads values positionally "
                         "(SwanSpecFile.write_spectra prints one row per first spectral axis)")
    fi = repo.func("wavespectra.output.swan.to_swan")
    A = repo.attrs
    want = [A.TIMENAME, A.SITENAME, A.FREQNAME, A.DIRNAME]
    tr = None
    for n in ast.walk(fi.node):
        if isinstance(n, ast.Assign) and isinstance(n.value, ast.Call) and isinstance(n.value.func, ast.Attribute) and n.value.func.attr == "transpose":
            vals = [repo.const(fi.module, a) for a in n.value.args]
            if vals == want and isinstance(n.targets[0], ast.Name) and unparse(n.value.func.value) == n.targets[0].id:
                tr = n
    pos_uses = [n for n in ast.walk(fi.node) if isinstance(n, ast.Attribute) and n.attr == "values" and
                (A.SPECNAME in unparse(n.value) or "SPECNAME" in unparse(n.value))]
    ctor = [n for n in ast.walk(fi.node) if isinstance(n, ast.Call) and call_name(n).split(".")[-1] == "SwanSpecFile"]
    if not pos_uses or not ctor:
        raise AnalysisError("to_swan: positional reads of efth / SwanSpecFile construction not found")
    first_use = min(n.lineno for n in pos_uses)
    if tr is None or tr.lineno > first_use:
        rep.fail("R-C11-14", fi.file, first_use, fi.qualname, "efth.values read without a preceding transpose(time, site, freq, dir)",
                 "the writer reads the spectra positionally: without fixing the complete axis order first, a dataset stored as (dir, freq) is "
                 "written with frequencies and directions exchanged and reads back transposed")
    else:
        rep.ok("R-C11-14", f"{fi.file}:{tr.lineno} to_swan", unparse(tr)[:100], f"dominates the {len(pos_uses)} positional read(s) of the spectra")


def stale_captures(repo, rep):
    """R-C11-15: coordinate values captured into a plain array, then the dataset is re-ordered / subset along that coordinate, then the
    captured array is used next to the re-ordered data: labels and data no longer correspond."""
    rep.rule("R-C11-15", "in the writers, coordinate values captured from the working dataset are not used after that dataset has been re-ordered "
                         "or subset along the same coordinate (labels written next to data of another order)")
    A = repo.attrs
    coords = {A.DIRNAME, A.FREQNAME, A.TIMENAME, A.SITENAME, A.LONNAME, A.LATNAME}
    ncap = 0
    for fi in repo.all_funcs():
        if not fi.qualname.startswith("wavespectra.output."):
            continue
        caps = []
        for n in ast.walk(fi.node):
            if isinstance(n, ast.Assign) and len(n.targets) == 1 and isinstance(n.targets[0], ast.Name):
                for x in ast.walk(n.value):
                    base = coord = None
                    if isinstance(x, ast.Attribute) and x.attr in coords and isinstance(x.value, ast.Name):
                        base, coord = x.value.id, x.attr
                    elif isinstance(x, ast.Subscript) and isinstance(x.value, ast.Name) and repo.const(fi.module, x.slice) in coords:
                        base, coord = x.value.id, repo.const(fi.module, x.slice)
                    if base is not None and base != n.targets[0].id:
                        txt = unparse(n.value)
                        sizeonly = txt.endswith(".size") or txt.startswith("len(")
                        caps.append((n, n.targets[0].id, base, coord, sizeonly))
                        break
        for cap, name, base, coord, sizeonly in caps:
            ncap += 1
            reorder = None
            for n in ast.walk(fi.node):
                if isinstance(n, ast.Assign) and any(isinstance(t, ast.Name) and t.id == base for t in n.targets) and n.lineno > cap.lineno:
                    for c in ast.walk(n.value):
                        if isinstance(c, ast.Call) and isinstance(c.func, ast.Attribute) and c.func.attr in ("sortby", "sel", "isel", "reindex", "roll", "drop_sel", "drop_isel"):
                            keys = set()
                            for a in c.args:
                                v = repo.const(fi.module, a)
                                if isinstance(v, str):
                                    keys.add(v)
                                elif isinstance(v, (list, tuple)):
                                    keys |= {k for k in v if isinstance(k, str)}
                                elif isinstance(v, dict):
                                    keys |= set(v)
                            keys |= {k.arg for k in c.keywords if k.arg}
                            if coord in keys and not (sizeonly and c.func.attr in ("sortby", "roll")):
                                if reorder is None or n.lineno < reorder.lineno:
                                    reorder = n
            if reorder is None:
                rep.ok("R-C11-15", f"{fi.file}:{cap.lineno} {fi.short}", unparse(cap)[:80], f"'{base}' is not re-ordered along '{coord}' afterwards")
                continue
            # the capture may be refreshed after the re-ordering; a use is stale only between the re-ordering and a refresh
            later = [u for u in ast.walk(fi.node) if isinstance(u, ast.Name) and u.id == name and isinstance(u.ctx, ast.Load) and u.lineno > reorder.lineno]
            refresh = [a for a in ast.walk(fi.node) if isinstance(a, ast.Assign) and any(isinstance(t, ast.Name) and t.id == name for t in a.targets)
                       and a.lineno > reorder.lineno]
            stale = [u for u in later if not any(a.lineno <= u.lineno for a in refresh)]
            if stale:
                rep.fail("R-C11-15", fi.file, stale[0].lineno, fi.qualname, f"{unparse(cap)[:60]} ... {unparse(reorder)[:60]} ... use of '{name}'",
                         f"'{name}' holds the '{coord}' values of '{base}' as they were BEFORE '{base}' was re-ordered along '{coord}' (line {reorder.lineno}); "
                         "written next to the re-ordered data, every label is attached to the wrong row")
            else:
                rep.ok("R-C11-15", f"{fi.file}:{cap.lineno} {fi.short}", unparse(cap)[:80], "not used after the re-ordering")
    rep.floor("R-C11-15", "coordinate captures in the writers", ncap, 8)


def _lon_rewraps(tree, const):
    out = []
    for b in ast.walk(tree):
        if isinstance(b, ast.BinOp) and isinstance(b.op, (ast.Mod, ast.Add, ast.Sub)) and const(b.right) == 360:
            names = {x.id.lower() for x in ast.walk(b.left) if isinstance(x, ast.Name)} | {x.attr.lower() for x in ast.walk(b.left) if isinstance(x, ast.Attribute)}
            if any(n in ("x", "lon", "lons", "longitude", "longitudes", "lonname") or n.startswith("lon") for n in names):
                out.append(b)
    return out


def coordinates_written_as_given(repo, rep):
    """R-C11-17: positions are written in the convention the dataset uses: no +-360 / % 360 on longitudes in any write path."""
    rep.rule("R-C11-17", "the write paths store longitudes as the dataset gives them (no % 360 / +-360 re-wrapping): the matching reader returns what the file "
                         "holds, so a re-wrapped longitude comes back in another convention than it was written from")
    if len(_lon_rewraps(ast.parse("a = self.x % 360\nb = lon + 360\nc = (270 - dir) % 360"), lambda e: e.value if isinstance(e, ast.Constant) else None)) != 2:
        raise AnalysisError("R-C11-17 self-test: longitude re-wrapping idioms not recognised")
    n = 0
    for fi in repo.all_funcs():
        if not (fi.qualname.startswith("wavespectra.output.") or (fi.qualname.startswith("wavespectra.core.swan.SwanSpecFile.") and fi.name.startswith("write"))):
            continue
        n += 1
        for b in _lon_rewraps(fi.node, lambda e, fi=fi: repo.const(fi.module, e)):
            rep.fail("R-C11-17", fi.file, b.lineno, fi.qualname, unparse(b)[:100],
                     "a longitude is re-wrapped on its way into the file: stations west of Greenwich written from a [-180, 180] dataset read back shifted by "
                     "360 degrees (and a mixed set loses its order)")
    rep.ok("R-C11-17", "writers", f"{n} write-path functions", "longitudes written as given")
    rep.floor("R-C11-17", "write-path functions", n, 8)


def swan_nodata_and_chunks(repo, rep):
    """R-C11-18: the value whose NaN-ness selects the NODATA keyword is a NaN-PROPAGATING reduction of the spectrum (max, not nanmax / a reduction
    with `initial=`): otherwise an all-missing spectrum is written as ZERO and reads back as zeros.
    R-C11-19: in to_swan's chunked loop the time stamp written with a block of spectra is the one at the SAME global position: the spectra come
    from dset.isel(time=slice(L, U)); the stamp must come from times[L:U] at the same running index (or times[L + i])."""
    rep.rule("R-C11-18", "SwanSpecFile.write_spectra decides NODATA on a NaN-propagating reduction of the spectrum")
    ws = repo.cls("wavespectra.core.swan.SwanSpecFile").methods["write_spectra"]
    tests = [c for c in ast.walk(ws.node) if isinstance(c, ast.Call) and call_name(c).split(".")[-1] == "isnan" and c.args]
    if not tests:
        raise AnalysisError("write_spectra: isnan test of the scale factor not found")
    from ..astutil import resolve as _res
    for t in tests:
        v = _res(ws.node, t.args[0], before=t.lineno) if isinstance(t.args[0], ast.Name) else t.args[0]
        skipping = [c for c in ast.walk(v) if isinstance(c, ast.Call) and (call_name(c).split(".")[-1] in ("nanmax", "nanmin", "nansum", "nanmean", "fmax", "fmin", "nan_to_num")
                    or any(k.arg in ("initial", "where") for k in c.keywords)
                    or (isinstance(c.func, ast.Attribute) and c.func.attr in ("max", "min") and any(k.arg == "skipna" and repo.const(ws.module, k.value) is True for k in c.keywords)))]
        if skipping:
            rep.fail("R-C11-18", ws.file, t.lineno, ws.qualname, unparse(v)[:90],
                     f"{unparse(skipping[0])[:50]} ignores NaN (or starts from a finite value): the factor of an all-missing spectrum is finite, the NODATA branch is dead "
                     "and the spectrum is written as ZERO - it reads back as zeros instead of missing", anchor="swan:nodata-factor")
        else:
            rep.ok("R-C11-18", f"{ws.file}:{t.lineno} write_spectra", unparse(v)[:70], "NaN in the spectrum reaches the NODATA test")
    rep.rule("R-C11-19", "to_swan writes each block of spectra with the time stamps of the same positions (spectra and stamps sliced by the same bounds and "
                         "walked by the same index)")
    fi = repo.func("wavespectra.output.swan.to_swan")
    calls = [c for c in ast.walk(fi.node) if isinstance(c, ast.Call) and isinstance(c.func, ast.Attribute) and c.func.attr == "write_spectra"]
    if not calls:
        raise AnalysisError("to_swan: write_spectra call not found")

    def txt(e):
        return unparse(e).replace(" ", "") if e is not None else "0"

    def origin(e, at, depth=0):
        """(sequence root text, slice lower text, running index text) of an element expression"""
        if depth > 8:
            return None
        if isinstance(e, ast.Name):
            # loop variable ?
            p = getattr(at, "_parent", None)
            while p is not None and p is not fi.node:
                if isinstance(p, ast.For):
                    it, tg = p.iter, p.target
                    if isinstance(it, ast.Call) and call_name(it) == "enumerate" and isinstance(tg, ast.Tuple) and len(tg.elts) == 2 \
                            and isinstance(tg.elts[1], ast.Name) and tg.elts[1].id == e.id and isinstance(tg.elts[0], ast.Name):
                        seq = origin_seq(it.args[0], p, depth + 1)
                        return None if seq is None else (seq[0], seq[1], tg.elts[0].id)
                    if isinstance(it, ast.Call) and call_name(it) == "zip" and isinstance(tg, ast.Tuple):
                        for k_, el in enumerate(tg.elts):
                            if isinstance(el, ast.Name) and el.id == e.id and k_ < len(it.args):
                                seq = origin_seq(it.args[k_], p, depth + 1)
                                return None if seq is None else (seq[0], seq[1], f"<zip@{p.lineno}>")
                    if isinstance(tg, ast.Name) and tg.id == e.id:
                        seq = origin_seq(it, p, depth + 1)
                        return None if seq is None else (seq[0], seq[1], f"<iter@{p.lineno}>")
                p = getattr(p, "_parent", None)
            v = _res(fi.node, e, before=at.lineno)
            if v is e or isinstance(v, ast.Name):
                return None
            return origin(v, at, depth + 1)
        if isinstance(e, ast.Subscript):
            seq = origin_seq(e.value, at, depth + 1)
            if seq is None:
                return None
            idx = e.slice
            if isinstance(idx, ast.Tuple):
                idx = idx.elts[0]
            if isinstance(idx, ast.BinOp) and isinstance(idx.op, ast.Add) and seq[1] == "0":
                # times[i0 + i]
                l_, r_ = txt(idx.left), txt(idx.right)
                return (seq[0], l_, r_)
            return (seq[0], seq[1], txt(idx))
        return None

    def origin_seq(e, at, depth=0):
        """(root text, lower bound text) of a sequence expression: times -> ('times','0'); times[a:b] -> ('times','a'); ds[..].values with ds = dset.isel(time=slice(a,b)) -> ('<spectra>','a')"""
        if depth > 8:
            return None
        while isinstance(e, ast.Attribute) and e.attr in ("values", "data"):
            e = e.value
        if isinstance(e, ast.Subscript) and isinstance(e.slice, ast.Slice):
            seq = origin_seq(e.value, at, depth + 1)
            if seq is None or seq[1] != "0":
                return None
            return (seq[0], txt(e.slice.lower))
        if isinstance(e, ast.Subscript):
            return origin_seq(e.value, at, depth + 1)          # ds['efth']
        if isinstance(e, ast.Call) and isinstance(e.func, ast.Attribute) and e.func.attr == "isel":
            for k in e.keywords:
                if k.arg == repo.attrs.TIMENAME and isinstance(k.value, ast.Call) and call_name(k.value) == "slice" and len(k.value.args) >= 2:
                    return ("<records>", txt(k.value.args[0]))
            return origin_seq(e.func.value, at, depth + 1)
        if isinstance(e, ast.Name):
            v = _res(fi.node, e, before=at.lineno)
            if v is e or (isinstance(v, ast.Name) and v.id == e.id):
                return ("<records>" if e.id in fi.params[:1] or e.id == "dset" else e.id, "0")
            if isinstance(v, (ast.ListComp, ast.Call)) and not (isinstance(v, ast.Call) and isinstance(v.func, ast.Attribute) and v.func.attr == "isel"):
                return (e.id, "0")          # a list built once from the whole dataset (the formatted time stamps)
            return origin_seq(v, at, depth + 1)
        return None
    for c in calls:
        if not c.args:
            continue
        tk = kwarg(c, "time") if kwarg(c, "time") is not None else (c.args[1] if len(c.args) > 1 else None)
        if tk is None:
            continue
        oa, ot = origin(c.args[0], c), origin(tk, c)
        if oa is None or ot is None:
            raise AnalysisError(f"to_swan: origin of the block / time stamp handed to write_spectra not understood ({unparse(c)[:60]})")
        if oa[1] == ot[1] and oa[2] == ot[2]:
            rep.ok("R-C11-19", f"{fi.file}:{c.lineno} to_swan", unparse(c)[:70], f"block and stamp both at position {oa[1]} + {oa[2]}")
        else:
            rep.fail("R-C11-19", fi.file, c.lineno, fi.qualname, unparse(c)[:90],
                     f"the spectra written are records {oa[1]} + {oa[2]} of the dataset but the time stamp is entry {ot[1]} + {ot[2]} of the time list: "
                     "with ntime smaller than the number of times every block after the first is stamped with the wrong times", anchor="to_swan:block-time-pairing")


def swan_header_precision(repo, rep):
    """R-C11-20: the header prints every frequency with at least 5 decimals and every direction with at least 4 (what the reader gets back is what
    was printed: fewer decimals than the grid needs moves the coordinate)."""
    import re
    rep.rule("R-C11-20", "SWAN header: frequencies are printed with >= 5 decimals, directions with >= 4 (fixed or exponent notation)")
    wh = repo.cls("wavespectra.core.swan.SwanSpecFile").methods["write_header"]
    need = {"self.freqs": 5, "self.dirs": 4}
    seen = set()
    for lp in ast.walk(wh.node):
        if not (isinstance(lp, ast.For) and isinstance(lp.target, ast.Name) and unparse(lp.iter) in need):
            continue
        v = lp.target.id
        specs = []
        for c in ast.walk(lp):
            if isinstance(c, ast.Call) and isinstance(c.func, ast.Attribute) and c.func.attr == "format" and isinstance(c.func.value, ast.Constant) \
                    and isinstance(c.func.value.value, str) and any(isinstance(a, ast.Name) and a.id == v for a in c.args):
                specs += re.findall(r"\{[^}]*?\.(\d+)([fFeEgG])\}", c.func.value.value)
            if isinstance(c, ast.FormattedValue) and isinstance(c.value, ast.Name) and c.value.id == v and c.format_spec is not None:
                sp = "".join(x.value for x in c.format_spec.values if isinstance(x, ast.Constant))
                specs += re.findall(r"\.(\d+)([fFeEgG])", sp)
            if isinstance(c, ast.BinOp) and isinstance(c.op, ast.Mod) and isinstance(c.left, ast.Constant) and isinstance(c.left.value, str) \
                    and any(isinstance(a, ast.Name) and a.id == v for a in ast.walk(c.right)):
                specs += re.findall(r"%[^%]*?\.(\d+)([fFeEgG])", c.left.value)
        if not specs:
            raise AnalysisError(f"write_header: format of the values of {unparse(lp.iter)} not found")
        seen.add(unparse(lp.iter))
        for d, kind in specs:
            if kind in "fFeE" and int(d) >= need[unparse(lp.iter)] or kind in "gG" and int(d) >= need[unparse(lp.iter)] + 1:
                rep.ok("R-C11-20", f"{wh.file}:{lp.lineno} write_header", f"{unparse(lp.iter)}: .{d}{kind}", "enough decimals")
            else:
                rep.fail("R-C11-20", wh.file, lp.lineno, wh.qualname, f"{unparse(lp.iter)} printed with .{d}{kind}",
                         f"{'frequencies' if 'freq' in unparse(lp.iter) else 'directions'} are printed with {d} decimals (needed: {need[unparse(lp.iter)]}): a grid such as "
                         "0.03453 Hz reads back as 0.0345 Hz", anchor=f"swan-header-precision:{unparse(lp.iter)}")
    if seen != set(need):
        raise AnalysisError(f"write_header: loops over {sorted(set(need) - seen)} not found")


def time_and_missing(repo, rep):
    """R-C11-21: no writer asks for a time variable narrower than 64 bits (float32 days resolve 84 s; the reader then returns other time stamps).
    R-C11-22: a writer whose format can express a missing value does not replace missing data by a number before writing (to_funwave prints nan, the
    reader gets nan back): filling with a constant turns 'missing' into 'zero energy'.  to_octopus is exempt by table: its format has an explicit missing
    value token and the fill value is that token."""
    rep.rule("R-C11-21", "time encodings requested by the writers keep 64-bit precision (no dtype float32 / int32 / int16 on the time variable)")
    n21 = 0
    for m in repo.modules.values():
        if not m.name.startswith("wavespectra.output"):
            continue
        for fi in m.all_funcs():
            for n in ast.walk(fi.node):
                tgt = None
                d = None
                if isinstance(n, ast.Call) and isinstance(n.func, ast.Attribute) and n.func.attr == "update" and "encoding" in unparse(n.func.value) and n.args:
                    tgt, d = unparse(n.func.value), n.args[0]
                elif isinstance(n, ast.Assign) and isinstance(n.targets[0], ast.Subscript) and "encoding" in unparse(n.targets[0].value):
                    tgt = unparse(n.targets[0])
                    key = repo.const(fi.module, n.targets[0].slice)
                    d = ast.Dict(keys=[ast.Constant(value=key)], values=[n.value]) if isinstance(key, str) else None
                elif isinstance(n, ast.Assign) and isinstance(n.targets[0], ast.Attribute) and n.targets[0].attr == "encoding":
                    tgt, d = unparse(n.targets[0]), n.value
                if tgt is None or repo.attrs.TIMENAME not in tgt:
                    continue
                n21 += 1
                dv = repo.const(fi.module, d) if d is not None else None
                if isinstance(d, ast.Name):
                    dflt = {a.arg: dd_ for a, dd_ in zip(fi.node.args.args[len(fi.node.args.args) - len(fi.node.args.defaults):], fi.node.args.defaults)}
                    dv = repo.const(fi.module, dflt[d.id]) if d.id in dflt else dv
                narrow = isinstance(dv, dict) and str(dv.get("dtype", "")).lower() in ("float32", "f4", "int32", "i4", "int16", "i2", "float16")
                if narrow:
                    rep.fail("R-C11-21", fi.file, n.lineno, fi.qualname, unparse(n)[:100],
                             f"the time variable is written as {dv.get('dtype')}: single precision resolves ~84 s at today's dates (days since 1990), the reader "
                             "returns time stamps that differ from the ones written", anchor=f"time-encoding-dtype:{fi.short}")
                else:
                    rep.ok("R-C11-21", f"{fi.file}:{n.lineno} {fi.short}", unparse(n)[:70], "no narrowing dtype on the time encoding")
    rep.floor("R-C11-21", "time encodings set by the writers", n21, 2)
    rep.rule("R-C11-22", "writers do not replace missing values by a number before writing (exempt: to_octopus, whose format has its own missing-value token)")
    EX = {"wavespectra.output.octopus.to_octopus": "format has an explicit missing-value token (missing_val)"}
    n22 = 0
    for m in repo.modules.values():
        if not m.name.startswith("wavespectra.output"):
            continue
        for fi in m.all_funcs():
            for c in ast.walk(fi.node):
                if isinstance(c, ast.Call) and (isinstance(c.func, ast.Attribute) and c.func.attr in ("fillna", "nan_to_num") or call_name(c).split(".")[-1] == "nan_to_num"):
                    n22 += 1
                    if fi.qualname in EX:
                        rep.ok("R-C11-22", f"{fi.file}:{c.lineno} {fi.short}", unparse(c)[:60], "exempt: " + EX[fi.qualname], nontrivial=False)
                    else:
                        rep.fail("R-C11-22", fi.file, c.lineno, fi.qualname, unparse(c)[:90],
                                 "missing spectra / bins are replaced by a number before they are written: the file can no longer say 'missing' and the reader returns "
                                 "zero energy where the dataset had none", anchor=f"writer-fills-missing:{fi.short}")
    rep.floor("R-C11-22", "fill sites in the writers (the exempt one)", n22, 1)


def run(repo, rep, tier):
    rep.rule("R-C11-25", "the Octopus row format has floating-point conversions only (an integer conversion truncates real-valued direction labels)")
    from .round7b import real_columns_not_truncated
    real_columns_not_truncated(repo, rep, "R-C11-25")
    rep.rule("R-C11-24", "(shared with C12) the readers' converters map the stored density linearly and unconditionally: no value mask (exact zeros would come back as NaN), "
                         "no conversion step guarded by metadata")
    from .round7b import converters_unconditional_linear
    converters_unconditional_linear(repo, rep, "R-C11-24")
    from .round7b import hygiene
    hygiene(repo, rep, "C11", ('wavespectra.output.', 'wavespectra.core.swan', 'wavespectra.specdataset', 'wavespectra.input.swan', 'wavespectra.input.netcdf', 'wavespectra.input.octopus', 'wavespectra.input.json'), falsy=True)
    rep.rule("R-C11-23", "(shared with C18) no writer reads freq / dir / dd / a statistic through the copies SpecDataset made of the efth accessor's attributes at "
                         "construction: the header / labels written belong to the data written, also after an in-place edit of the dataset")
    from .round7 import writer_snapshot_reads
    writer_snapshot_reads(repo, rep, "R-C11-23")
    time_and_missing(repo, rep)
    swan_header_precision(repo, rep)
    swan_nodata_and_chunks(repo, rep)
    rep.rule("R-C11-16", "(shared with C05) direction bin widths are taken circularly: the width enters the variance the regridding conserves and the "
                        "energy <-> density conversion of the writers / readers")
    from .c05 import circular_width
    circular_width(repo, rep, "R-C11-16")
    rep.rule("R-C11-12", "every parameter of the functions behind this property is read (writers): none is accepted and then ignored, and no control parameter (cutoff, limit, tolerance, window, count, switch) is replaced by another value before use (coercion and default filling aside)")
    from .shared import unused_parameters
    unused_parameters(repo, rep, "R-C11-12", ("wavespectra.output",), "writers")
    rep.rule("R-C11-1", "SWAN ASCII: keywords written are recognised; NODATA/ZERO/FACTOR cases; factor written then multiplied back; time format equal; unit line selects the identity branch")
    rep.rule("R-C11-2", "SWAN grid location order: slowest coordinate agrees between writer and reader")
    rep.rule("R-C11-3", "JSON: date format defaults and containers agree")
    rep.rule("R-C11-4", "WW3: identical MAPPING, inverse rename, energy factors multiply to one, 180-degree flip on both sides")
    rep.rule("R-C11-5", "Octopus: energy <-> density by the same bin widths; table layout agrees")
    rep.rule("R-C11-6", "Funwave: amplitude formula and its inverse compose to the identity; direction involution")
    rep.rule("R-C11-7", "netCDF packing: deep copy, spectrum only, fill value outside the data range")
    rep.rule("R-C11-8", "chunked writing covers every record including a trailing partial chunk")
    rep.rule("R-C11-9", "_check_and_stack_dims: each coordinate guard names the variable it demotes; works on a deep copy")
    rep.rule("R-C11-10", "SWAN direction sorting: labels and data gathered by the same permutation")
    swan_vocab(repo, rep)
    dir_permutation(repo, rep, "R-C11-10")
    location_order(repo, rep)
    json_formats(repo, rep)
    ww3_pair(repo, rep)
    octopus_pair(repo, rep)
    octopus_record_times(repo, rep)
    funwave_pair(repo, rep)
    netcdf_packing(repo, rep)
    chunk_loops(repo, rep)
    stack_guards(repo, rep)
    writer_purity(repo, rep)
    coordinates_written_as_given(repo, rep)
    swan_axis_order(repo, rep)
    stale_captures(repo, rep)
    rep.rule("R-C11-11", "a per-record buffer that is filled in place and emitted once per iteration is allocated afresh inside the iteration")
    from .shared import per_iteration_buffers
    nl, nb = per_iteration_buffers(repo, rep, "R-C11-11", ("wavespectra.core.swan", "wavespectra.input.", "wavespectra.output."))
    rep.floor("R-C11-11", "per-record buffers examined", nb, 1)
    rep.trust("Python ast; constant propagation of format strings and tables")
    rep.note("not decided: numeric resolution of each format, NaN/zero survival at run time, gzip, off-by-one values inside the chunk loops; "
             "round-trip EQUALITY quantifies over data values and number formatting - only the shared tables / conventions / structure are decided")
    return ("Static sibling cross-check of each writer/reader pair: keyword vocabularies, constant-propagated time formats, case splits, "
            "inverse factors, rename tables, direction conventions, table layouts, the axis order of flatten/reshape, the chunk loops' "
            "coverage condition and the guard/action agreement in the shared stacking helper.")
