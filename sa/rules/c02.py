"""C02 - peak parameters are taken at the true spectral peak."""
import ast

from ..cfg import CFG, ReachingDefs, ENTRY
from ..model import UNKNOWN, call_name, kwarg, unparse
from ..report import AnalysisError
from ..ufunc import sites

PEAK_KERNELS = {"tp", "tps", "dpm", "dpspr"}
NARROW = {"float32", "float16", "f4", "f2", "int", "int32", "int16", "int64", "half", "single"}


def _defs(cfg, rd, name, at_stmt):
    node = cfg.node(at_stmt)
    out = []
    for d in rd.at(node, name):
        if d == ENTRY:
            out.append(None)
        else:
            out.append(cfg.stmt[d])
    return out


def _strip_casts(e):
    """x.astype(...) / x.chunk(...) / (x) -> x ; returns (expr, list of astype dtype exprs crossed)."""
    casts = []
    while isinstance(e, ast.Call) and isinstance(e.func, ast.Attribute) and e.func.attr in ("astype", "chunk", "load", "compute", "persist"):
        if e.func.attr == "astype" and e.args:
            casts.append(e.args[0])
        e = e.func.value
    return e, casts


def peak_locator(repo, rep):
    """R-C02-1: every peak kernel gets its index from SpecArray._peak applied to the direction-integrated spectrum."""
    n = 0
    for s in sites(repo):
        ks = s.kernels()
        names = {k.name for k in ks if k.module.name.endswith("npstats")}
        if not names & PEAK_KERNELS:
            continue
        n += 1
        if not names <= PEAK_KERNELS:
            rep.fail("R-C02-1", s.fi.file, s.line, s.fi.qualname, unparse(s.kernel_expr), f"kernel set {sorted(names)} mixes peak and non-peak kernels")
            continue
        arg0, casts = _strip_casts(s.args[0])
        ok, why = _from_peak(repo, s, arg0, s.call, 0)
        if ok:
            rep.ok("R-C02-1", s.where, f"ipeak argument {unparse(s.args[0])}", why)
        else:
            rep.fail("R-C02-1", s.fi.file, s.line, s.fi.qualname, f"apply_ufunc({'/'.join(sorted(names))}, {unparse(s.args[0])}, ...)", why)
    # every peak statistic of xrstats goes through its npstats kernel (the kernel holds the `ipeak == 0 -> NaN` guard): a function that
    # still computes a peak index but no longer hands it to a peak kernel has bypassed the no-peak case
    delegating = {s.fi.qualname for s in sites(repo) if {k.name for k in s.kernels() if k.module.name.endswith("npstats")} & PEAK_KERNELS}
    xs = repo.module("wavespectra.core.xrstats")
    for fi_ in xs.funcs.values():
        uses_peak = any(isinstance(c, ast.Call) and isinstance(c.func, ast.Attribute) and c.func.attr == "_peak" for c in ast.walk(fi_.node))
        if uses_peak and fi_.qualname not in delegating:
            c0 = next(c for c in ast.walk(fi_.node) if isinstance(c, ast.Call) and isinstance(c.func, ast.Attribute) and c.func.attr == "_peak")
            rep.fail("R-C02-1", fi_.file, c0.lineno, fi_.qualname, unparse(c0)[:90],
                     "the peak index is used directly instead of being handed to a peak kernel of npstats: index 0 means 'no interior peak' and the kernels "
                     "turn it into NaN; used as a position it selects the first frequency bin", anchor=f"peak-kernel-bypassed:{fi_.name}")
            n += 1
    rep.floor("R-C02-1", "apply_ufunc sites with a peak kernel", n, 3)
    # derived statistics reach the same locator through tp / peak_wave_period
    for qual, must_call in (("wavespectra.specarray.SpecArray.fp", "tp"), ("wavespectra.specarray.SpecArray.gamma", "fp"),
                            ("wavespectra.core.xrstats.alpha", "peak_wave_period"), ("wavespectra.specarray.SpecArray.tp", "peak_wave_period"),
                            ("wavespectra.specarray.SpecArray.dpm", "mean_direction_at_peak_wave_period"),
                            ("wavespectra.specarray.SpecArray.dpspr", "peak_directional_spread"),
                            ("wavespectra.specarray.SpecArray.alpha", "alpha")):
        fi = repo.func(qual)
        calls = [call_name(c).split(".")[-1] for c in ast.walk(fi.node) if isinstance(c, ast.Call)]
        if must_call in calls:
            rep.ok("R-C02-1", f"{fi.file}:{fi.node.lineno} {fi.short}", f"peak obtained through {must_call}()", "same locator (call graph)")
        else:
            rep.fail("R-C02-1", fi.file, fi.node.lineno, fi.qualname, f"{fi.short} does not call {must_call}()",
                     "the statistic no longer takes its peak from the common peak locator")
    # SpecArray.tp / alpha hand the direction-integrated spectrum to the locator
    for qual in ("wavespectra.specarray.SpecArray.tp", "wavespectra.specarray.SpecArray.alpha"):
        fi = repo.func(qual)
        for c in ast.walk(fi.node):
            if isinstance(c, ast.Call) and call_name(c).split(".")[-1] in ("peak_wave_period", "alpha") and c.args:
                a = c.args[0]
                if isinstance(a, ast.Call) and isinstance(a.func, ast.Attribute) and a.func.attr == "oned":
                    rep.ok("R-C02-1", f"{fi.file}:{c.lineno} {fi.short}", unparse(c)[:80], "argument is the direction-integrated spectrum oned()")
                else:
                    rep.fail("R-C02-1", fi.file, c.lineno, fi.qualname, unparse(c)[:100],
                             "the peak must be located on the direction-integrated spectrum (oned())")


def _from_peak(repo, s, e, at_stmt, depth):
    if depth > 6:
        return False, "derivation too deep"
    e, casts = _strip_casts(e)
    if isinstance(e, ast.Call) and isinstance(e.func, ast.Attribute) and e.func.attr == "_peak":
        if not e.args:
            return False, "_peak() without argument"
        return _integrated(repo, s, e.args[0], e, 0)
    if isinstance(e, ast.Name):
        ds = _defs(s.cfg, s.rd, e.id, at_stmt)
        why = ""
        for st in ds:
            if st is None:
                return False, f"'{e.id}' is a parameter, not the result of _peak()"
            if not isinstance(st, ast.Assign):
                return False, f"'{e.id}' bound by {type(st).__name__}"
            ok, why = _from_peak(repo, s, st.value, st, depth + 1)
            if not ok:
                return False, why
        return True, why
    return False, f"peak index {unparse(e)[:60]} is not produced by SpecArray._peak (e.g. a plain argmax would pick boundary bins)"


def _integrated(repo, s, e, at_stmt, depth):
    """The argument of _peak must be the direction-integrated spectrum at full precision."""
    if depth > 6:
        return False, "derivation too deep"
    inner, casts = _strip_casts(e)
    for c in casts:
        v = repo.const(s.module, c)
        if (isinstance(v, str) and v in NARROW) or unparse(c) in ("np.float32", "np.float16", "int"):
            return False, (f"the spectrum is cast to {unparse(c)} before the peak search: neighbouring bins that differ "
                           "only beyond that precision become a flat top and the true peak is ignored")
    e = inner
    if isinstance(e, ast.Call) and isinstance(e.func, ast.Attribute) and e.func.attr == "oned":
        return True, "_peak(<...>.oned())"
    if isinstance(e, ast.Name):
        ds = _defs(s.cfg, s.rd, e.id, at_stmt)
        why = ""
        for st in ds:
            if st is None:
                # the parameter of peak_wave_period: callers pass oned() (checked separately)
                if s.fi.name == "peak_wave_period" and e.id == s.fi.params[0]:
                    why = "_peak(dset) with dset = the 1-D spectrum handed in by SpecArray.tp / alpha (oned())"
                    continue
                return False, f"'{e.id}' comes from the caller and is not known to be direction-integrated"
            if isinstance(st, ast.Assign):
                v = st.value
                # dset = dset[attrs.SPECNAME] (Dataset -> DataArray) keeps the data
                if isinstance(v, ast.Subscript) and isinstance(v.value, ast.Name) and v.value.id == e.id:
                    ok, why = _integrated(repo, s, v.value, st, depth + 1)
                else:
                    ok, why = _integrated(repo, s, v, st, depth + 1)
                if not ok:
                    return False, why
            else:
                return False, f"'{e.id}' bound by {type(st).__name__}"
        return True, why
    if isinstance(e, ast.BinOp):
        return False, f"the spectrum is rescaled ({unparse(e)[:60]}) before the peak search"
    return False, f"_peak argument {unparse(e)[:60]} is not the direction-integrated spectrum"


def _resolve_all(fi):
    """The function as ONE expression: a straight-line body of simple assignments followed by a return, with every local substituted."""
    from ..inline import _clone
    env = {}

    class S(ast.NodeTransformer):
        def visit_Name(self, n):
            if isinstance(n.ctx, ast.Load) and n.id in env:
                return _clone(env[n.id])
            return n
    for s in fi.node.body:
        if isinstance(s, ast.Expr) and isinstance(s.value, ast.Constant):
            continue
        if isinstance(s, ast.Pass):
            continue
        if isinstance(s, ast.Assign) and len(s.targets) == 1 and isinstance(s.targets[0], ast.Name):
            v = S().visit(_clone(s.value))
            for y in ast.walk(v):
                if hasattr(y, "lineno"):
                    y.lineno = s.lineno
            env[s.targets[0].id] = v
        elif isinstance(s, ast.Return) and s.value is not None:
            return S().visit(_clone(s.value)), s
        else:
            raise AnalysisError(f"{fi.short}: unexpected statement {type(s).__name__} (formulation changed)")
    raise AnalysisError(f"{fi.short}: no return")


def peak_definition(repo, rep):
    """R-C02-2: strict interior maxima with self-padding, mask conjunction, 0 when there is none.  Decided on the function read as one
    expression (every local substituted), so that naming / folding of intermediate masks does not matter."""
    fi = repo.func("wavespectra.specarray.SpecArray._peak")
    arr = fi.params[1]
    freq = repo.attrs.FREQNAME
    rv, ret = _resolve_all(fi)

    def is_freq(e):
        return e is not None and repo.const(fi.module, e) == freq
    r, _ = _strip_casts(rv)
    if not (isinstance(r, ast.Call) and isinstance(r.func, ast.Attribute) and r.func.attr == "argmax"):
        raise AnalysisError("_peak: return is not an argmax")
    if not (is_freq(kwarg(r, "dim")) or (r.args and is_freq(r.args[0]))):
        rep.fail("R-C02-2", fi.file, ret.lineno, fi.qualname, unparse(ret)[:120], "argmax must run along freq")
    w = r.func.value
    if not (isinstance(w, ast.Call) and isinstance(w.func, ast.Attribute) and w.func.attr == "where"):
        raise AnalysisError("_peak: argmax is not applied to a masked array")
    base = w.func.value
    other = w.args[1] if len(w.args) > 1 else kwarg(w, "other")
    maskarg = w.args[0] if w.args else kwarg(w, "cond")
    if maskarg is None:
        raise AnalysisError("_peak: where() without a mask")
    # --- the mask: conjunction of exactly two comparisons
    m = maskarg
    conj_ok = (isinstance(m, ast.Call) and call_name(m) in ("np.logical_and", "xr.ufuncs.logical_and", "numpy.logical_and") and len(m.args) == 2) or \
        (isinstance(m, ast.BinOp) and isinstance(m.op, ast.BitAnd))
    cmps = []
    if conj_ok:
        parts = m.args if isinstance(m, ast.Call) else [m.left, m.right]
        cmps = [p_ for p_ in parts if isinstance(p_, ast.Compare) and len(p_.ops) == 1]
    if not conj_ok or len(cmps) != 2:
        found = [c for c in ast.walk(m) if isinstance(c, ast.Compare)]
        if len(found) == 2 and not conj_ok:
            rep.fail("R-C02-2", fi.file, getattr(m, "lineno", ret.lineno), fi.qualname, unparse(m)[:120],
                     "a peak needs BOTH neighbour tests (conjunction); any other combination admits non-peaks")
            return
        raise AnalysisError(f"_peak: expected two difference masks, found {len(found)}")
    rep.ok("R-C02-2", f"{fi.file}:{getattr(m, 'lineno', ret.lineno)} _peak", unparse(m)[:100], "conjunction of both strict tests")
    sides = {}
    for i_, cmp_ in enumerate(cmps):
        name = f"mask{i_ + 1}"
        left, op, right = cmp_.left, cmp_.ops[0], cmp_.comparators[0]
        zero_right = isinstance(right, ast.Constant) and right.value == 0
        zero_left = isinstance(left, ast.Constant) and left.value == 0
        if not (zero_right or zero_left):
            raise AnalysisError(f"_peak: mask {unparse(cmp_)[:60]} is not a comparison with 0")
        d = left if zero_right else right
        if zero_left:
            op = {ast.Gt: ast.Lt, ast.Lt: ast.Gt, ast.GtE: ast.LtE, ast.LtE: ast.GtE}.get(type(op), type(op))()
        if not (isinstance(d, ast.Call) and isinstance(d.func, ast.Attribute) and d.func.attr == "diff"):
            raise AnalysisError(f"_peak: mask {unparse(cmp_)[:60]} is not built from .diff()")
        label = kwarg(d, "label")
        lab = repo.const(fi.module, label) if label is not None else "upper"
        nk = kwarg(d, "n")
        if nk is not None and repo.const(fi.module, nk) != 1:
            rep.fail("R-C02-2", fi.file, d.lineno, fi.qualname, unparse(d)[:100], "difference order must be 1 (adjacent bins)")
        dim_ok = (d.args and is_freq(d.args[0])) or is_freq(kwarg(d, "dim"))
        if not dim_ok:
            rep.fail("R-C02-2", fi.file, d.lineno, fi.qualname, unparse(d)[:100], "the difference must be taken along freq")
        pad = _padding(repo, fi, d.func.value, arr, freq)
        sides[name] = {"op": op, "label": lab, "pad": pad, "cmp": cmp_}
    fwd = [k for k, v in sides.items() if v["pad"][0] == "front"]
    bwd = [k for k, v in sides.items() if v["pad"][0] == "back"]
    for k, v in sides.items():
        side, own, detail = v["pad"]
        txt = unparse(v["cmp"])[:150]
        ln = getattr(v["cmp"], "lineno", ret.lineno)
        if not own:
            rep.fail("R-C02-2", fi.file, ln, fi.qualname, txt,
                     f"the {side} padding is {detail}, not the array's own end element: the end bin becomes a strict "
                     "'interior' maximum whenever the spectrum is still rising/falling there, and ipeak-1 / ipeak+1 leave the array")
            continue
        want_label = "upper" if side == "front" else "lower"
        if v["label"] != want_label:
            rep.fail("R-C02-2", fi.file, ln, fi.qualname, txt,
                     f"diff label '{v['label']}' with {side} padding shifts the mask by one bin (needs label='{want_label}')")
            continue
        want_op = ast.Gt if side == "front" else ast.Lt
        if not isinstance(v["op"], want_op):
            rep.fail("R-C02-2", fi.file, ln, fi.qualname, txt,
                     f"the {'rising' if side == 'front' else 'falling'}-side test must be strict "
                     f"({'> 0' if side == 'front' else '< 0'}): with a non-strict or reversed comparison flat tops and "
                     "boundary bins count as peaks")
            continue
        rep.ok("R-C02-2", f"{fi.file}:{ln} _peak", txt, f"{side} padding repeats own end element, label={want_label}, strict comparison")
    if len(fwd) != 1 or len(bwd) != 1:
        rep.fail("R-C02-2", fi.file, fi.node.lineno, fi.qualname, "fwd/bwd masks", "need exactly one rising-side and one falling-side mask")
        return
    if not (isinstance(base, ast.Name) and base.id == arr):
        rep.fail("R-C02-2", fi.file, ret.lineno, fi.qualname, unparse(ret)[:120], "the masked array must be the spectrum itself")
    elif other is None or repo.const(fi.module, other) != 0:
        rep.fail("R-C02-2", fi.file, ret.lineno, fi.qualname, unparse(ret)[:120],
                 "non-peak bins must be replaced by 0 so that 'no interior maximum' yields index 0 (the NaN sentinel)")
    else:
        rep.ok("R-C02-2", f"{fi.file}:{ret.lineno} _peak", unparse(ret)[:100], "largest masked value along freq; 0 when no interior strict maximum")


def _padding(repo, fi, e, arr, freq):
    """Classify the padded operand: ('front'|'back', own_end_element?, description)."""
    if isinstance(e, ast.Call) and call_name(e) in ("xr.concat", "xarray.concat"):
        seq = e.args[0] if e.args else None
        if not isinstance(seq, (ast.Tuple, ast.List)) or len(seq.elts) != 2:
            raise AnalysisError("_peak: concat form not understood")
        a, b = seq.elts

        def end_elem(x):
            # arr.isel(freq=0) / arr.isel(freq=-1) / arr[{freq: 0}]
            if isinstance(x, ast.Call) and isinstance(x.func, ast.Attribute) and x.func.attr == "isel" and \
                    isinstance(x.func.value, ast.Name) and x.func.value.id == arr:
                for k in x.keywords:
                    if k.arg == freq or k.arg is None:
                        v = repo.const(fi.module, k.value)
                        if isinstance(v, dict):
                            v = v.get(freq)
                        return v
            return None
        if isinstance(b, ast.Name) and b.id == arr:
            idx = end_elem(a)
            return ("front", idx == 0, f"element {idx}" if idx is not None else unparse(a)[:50])
        if isinstance(a, ast.Name) and a.id == arr:
            idx = end_elem(b)
            return ("back", idx == -1, f"element {idx}" if idx is not None else unparse(b)[:50])
        raise AnalysisError("_peak: concat does not involve the array itself")
    if isinstance(e, ast.Call) and isinstance(e.func, ast.Attribute) and e.func.attr == "pad":
        mode = kwarg(e, "mode")
        mv = repo.const(fi.module, mode) if mode is not None else "constant"
        widths = None
        for k in e.keywords:
            if k.arg == freq:
                widths = repo.const(fi.module, k.value)
        if e.args:
            d = repo.const(fi.module, e.args[0])
            if isinstance(d, dict):
                widths = d.get(freq)
        if not (isinstance(widths, (tuple, list)) and len(widths) == 2):
            raise AnalysisError("_peak: pad widths not understood")
        side = "front" if tuple(widths) == (1, 0) else ("back" if tuple(widths) == (0, 1) else None)
        if side is None:
            raise AnalysisError("_peak: pad widths must be (1,0) or (0,1)")
        return (side, mv == "edge", f"pad(mode={mv!r})")
    raise AnalysisError(f"_peak: padding expression not understood: {unparse(e)[:80]}")


def nan_guards(repo, rep):
    """R-C02-3: each peak kernel returns NaN (and nothing else) when ipeak is 0, before any indexing."""
    from .c20 import KERNELS_IPEAK
    for qual in KERNELS_IPEAK:
        fi = repo.func(qual)
        p0 = fi.params[0]
        top = [s for s in fi.node.body if isinstance(s, ast.If)]
        ok = False
        for s in top:
            t = unparse(s.test)
            br = None
            if t in (f"not {p0}", f"{p0} == 0", f"{p0} < 1", f"{p0} <= 0"):
                br = s.body
            elif t in (p0, f"{p0} != 0", f"{p0} > 0"):
                br = s.orelse
            nanret = False
            if br and isinstance(br[-1], ast.Return) and br[-1].value is not None and len(br) <= 2:
                from ..astutil import resolve
                rv = br[-1].value
                if isinstance(rv, ast.Name) and len(br) == 2 and isinstance(br[0], ast.Assign) and unparse(br[0].targets[0]) == rv.id:
                    rv = br[0].value
                nanret = (len(br) == 1 or rv is br[0].value) and unparse(rv) in ("np.nan", "numpy.nan", "float('nan')", "nan", "np.float32(np.nan)")
            if nanret:
                ok = True
                rep.ok("R-C02-3", f"{fi.file}:{s.lineno} {fi.short}", f"if {t}: return NaN", "no interior peak -> NaN, never another bin")
        if not ok:
            rep.fail("R-C02-3", fi.file, fi.node.lineno, fi.qualname, f"{fi.short}: guard on {p0}",
                     "when there is no interior maximum (ipeak == 0) the kernel must return NaN; it now returns a value "
                     "taken from another bin")
    # dp: index is an arg-max over dir; index 0 is a legitimate peak position -> no guard allowed
    fi = repo.func("wavespectra.core.npstats.dp")
    p0 = fi.params[0]
    for n in ast.walk(fi.node):
        if isinstance(n, ast.If) and any(isinstance(x, ast.Name) and x.id == p0 for x in ast.walk(n.test)):
            rep.fail("R-C02-5", fi.file, n.lineno, fi.qualname, f"if {unparse(n.test)}: ...",
                     "dp's index is the arg-max over directions, where 0 is a valid position: a 'no peak' guard turns "
                     "spectra peaking in the first stored direction into NaN")
    from ..astutil import returns as _returns
    good = True
    for r, v in _returns(fi.node):
        while isinstance(v, ast.Call) and len(v.args) == 1:
            v = v.args[0]
        if not (isinstance(v, ast.Subscript) and isinstance(v.value, ast.Name) and v.value.id == fi.params[1] and unparse(v.slice) == p0):
            good = False
            rep.fail("R-C02-5", fi.file, r.lineno, fi.qualname, unparse(r)[:100], "dp must return the direction coordinate at the arg-max index")
    if good:
        rep.ok("R-C02-5", f"{fi.file}:{fi.node.lineno} dp", "return dir[ipeak]", "a direction coordinate, unconditionally")


def peak_direction(repo, rep):
    """R-C02-5: dp = dir at argmax over dir of the frequency-SUMMED (unweighted) spectrum."""
    fi = repo.func("wavespectra.core.xrstats.peak_wave_direction")
    cfg = CFG(fi.node)
    rd = ReachingDefs(cfg)
    freq, dirn = repo.attrs.FREQNAME, repo.attrs.DIRNAME
    am = [n for n in ast.walk(fi.node) if isinstance(n, ast.Call) and isinstance(n.func, ast.Attribute) and n.func.attr == "argmax"]
    if len(am) != 1:
        raise AnalysisError("peak_wave_direction: expected exactly one argmax")
    a = am[0]
    dimv = kwarg(a, "dim") or (a.args[0] if a.args else None)
    if dimv is None or repo.const(fi.module, dimv) != dirn:
        rep.fail("R-C02-5", fi.file, a.lineno, fi.qualname, unparse(a)[:100], "the peak direction is the arg-max along dir")
        return
    # walk the data path back to the parameter: only [SPECNAME], .sum(freq), .chunk() are allowed
    summed = [False]

    def back(e, at, depth=0):
        if depth > 10:
            return False, "too deep"
        if isinstance(e, ast.Call) and isinstance(e.func, ast.Attribute):
            m = e.func.attr
            if m == "sum":
                d = kwarg(e, "dim") or (e.args[0] if e.args else None)
                if d is None or repo.const(fi.module, d) != freq:
                    return False, f"{unparse(e)[:60]}: the reduction before the arg-max must be the plain sum over freq"
                summed[0] = True
                return back(e.func.value, at, depth + 1)
            if m in ("chunk", "astype", "load", "compute", "fillna"):
                return back(e.func.value, at, depth + 1)
            return False, f"{unparse(e)[:70]} alters the spectrum before the arg-max over directions"
        if isinstance(e, ast.Subscript):
            return back(e.value, at, depth + 1)
        if isinstance(e, ast.BinOp):
            return False, (f"{unparse(e)[:70]}: the spectrum is weighted before the direction arg-max; the peak direction is "
                           "defined on the frequency-summed spectrum")
        if isinstance(e, ast.Name):
            for st in _defs(cfg, rd, e.id, at):
                if st is None:
                    if e.id != fi.params[0]:
                        return False, f"'{e.id}' is not the input spectrum"
                    continue
                if not isinstance(st, ast.Assign):
                    return False, f"'{e.id}' bound by {type(st).__name__}"
                ok, why = back(st.value, st, depth + 1)
                if not ok:
                    return False, why
            return True, ""
        return False, f"unrecognised {unparse(e)[:60]}"
    ok, why = back(a.func.value, a)
    if ok:
        rep.ok("R-C02-5", f"{fi.file}:{a.lineno} peak_wave_direction", unparse(a)[:80],
               "arg-max over dir of the input summed over freq (sum applied when freq is a dimension)")
    else:
        rep.fail("R-C02-5", fi.file, a.lineno, fi.qualname, unparse(a)[:100], why)


def gamma_peak_density(repo, rep):
    """R-C02-4: the density compared with the PM peak density must be taken at the located peak."""
    fi = repo.func("wavespectra.specarray.SpecArray.gamma")
    freq = repo.attrs.FREQNAME
    found = False
    for n in ast.walk(fi.node):
        if isinstance(n, ast.BinOp) and isinstance(n.op, ast.Div):
            from ..astutil import resolve
            num = resolve(fi.node, n.left, before=n.lineno + 1)
            if isinstance(num, ast.Call) and isinstance(num.func, ast.Attribute):
                m = num.func.attr
                txt = unparse(n)[:120]
                if m == "max":
                    found = True
                    rep.fail("R-C02-4", fi.file, n.lineno, fi.qualname, txt, anchor="gamma:global-max-of-E(f)", reason=
                             "gamma divides the GLOBAL maximum of E(f) by the PM density at fp; when the largest value sits on "
                             "the first/last frequency while fp comes from the interior peak these are different bins")
                elif m in ("isel", "sel", "interp"):
                    found = True
                    rep.ok("R-C02-4", f"{fi.file}:{n.lineno} gamma", txt, "density selected at the located peak")
    if not found:
        raise AnalysisError("gamma: ratio of peak density to PM peak density not found (formulation changed)")


def alpha_window_keeps_bin(repo, rep):
    """R-C02-10: alpha is evaluated 'at that same peak': its tail-fit window is (1.35 fp, 2 fp).  When that window holds exactly ONE frequency
    bin the replacement pair must contain that bin (with a neighbour); replacing it by bins elsewhere on the grid fits the tail of another
    part of the spectrum."""
    rep.rule("R-C02-10", "alpha: a tail window holding exactly one frequency is widened to a pair that still contains that frequency")
    fi = repo.func("wavespectra.core.npstats.alpha")
    pos = None
    for n in ast.walk(fi.node):
        if isinstance(n, ast.Assign) and isinstance(n.targets[0], ast.Name) and isinstance(n.value, ast.Subscript) and \
                isinstance(n.value.value, ast.Call) and ast.unparse(n.value.value.func) in ("np.where", "np.nonzero", "numpy.where"):
            pos = n.targets[0].id
    if pos is None:
        raise AnalysisError("npstats.alpha: tail-window index selection (np.where(...)[0]) not found")
    from ..astutil import path_conditions

    def size_truth(t, size):
        # True / False when the test is decided by the window size, None otherwise
        if isinstance(t, ast.Compare) and len(t.ops) == 1:
            l = ast.unparse(t.left).replace(" ", "")
            r = repo.const(fi.module, t.comparators[0])
            l2 = ast.unparse(t.comparators[0]).replace(" ", "")
            lv = repo.const(fi.module, t.left)
            if l in (f"{pos}.size", f"len({pos})") and isinstance(r, int):
                a, b = size, r
            elif l2 in (f"{pos}.size", f"len({pos})") and isinstance(lv, int):
                a, b = lv, size
            else:
                return None
            return {ast.Eq: a == b, ast.NotEq: a != b, ast.Lt: a < b, ast.LtE: a <= b, ast.Gt: a > b, ast.GtE: a >= b}.get(type(t.ops[0]))
        if isinstance(t, ast.UnaryOp) and isinstance(t.op, ast.Not):
            v = size_truth(t.operand, size)
            return None if v is None else not v
        if ast.unparse(t).replace(" ", "") in (f"{pos}.size", f"len({pos})"):
            return size != 0
        return None
    n = 0
    for st in ast.walk(fi.node):
        if isinstance(st, ast.Assign) and isinstance(st.targets[0], ast.Name) and st.targets[0].id == pos and isinstance(st.value, (ast.List, ast.Tuple)):
            pcs = path_conditions(fi.node, st)
            reach1 = all((size_truth(t, 1) in (None, truth)) for t, truth in pcs)
            if not reach1:
                continue
            n += 1
            names_local = {}
            for a in ast.walk(fi.node):
                if isinstance(a, ast.Assign) and isinstance(a.targets[0], ast.Name):
                    names_local.setdefault(a.targets[0].id, []).append(a.value)

            def from_pos(e, depth=0):
                if any(isinstance(x, ast.Subscript) and isinstance(x.value, ast.Name) and x.value.id == pos for x in ast.walk(e)):
                    return True
                if depth < 3:
                    for x in ast.walk(e):
                        if isinstance(x, ast.Name) and x.id != pos and any(from_pos(v, depth + 1) for v in names_local.get(x.id, [])):
                            return True
                return False
            if any(from_pos(el) for el in st.value.elts):
                rep.ok("R-C02-10", f"{fi.file}:{st.lineno} alpha", ast.unparse(st), "the single selected bin stays in the pair")
            else:
                rep.fail("R-C02-10", fi.file, st.lineno, fi.qualname, ast.unparse(st),
                         "this replacement is reached when the tail window holds exactly one frequency bin, but the pair it builds does not contain that "
                         "bin: alpha is then fitted on bins elsewhere on the grid (the last two), not at the peak's own tail")
    if n == 0:
        rep.fail("R-C02-10", fi.file, fi.node.lineno, fi.qualname, "tail window with exactly one frequency", "no replacement pair is built for a window holding one frequency")


def parabola_vertex(repo, rep):
    """R-C02-11: every value npstats.tps returns is 1 / (abscissa of the vertex of the parabola through the peak bin and its two neighbours),
    decided algebraically: the returned expression, with the locals on its path substituted, is brought to a rational-function normal
    form over the six sampled quantities and compared with the Lagrange form of the vertex - under the equality a dominating test states
    (e.g. an evenly-spaced shortcut: f3 = 2 f2 - f1)."""
    from ..ratfun import rat_of, Rat, NotRational, solve_linear_equality
    from ..astutil import path_conditions
    from ..cast import Poly
    rep.rule("R-C02-11", "npstats.tps returns the reciprocal of the vertex abscissa of the three-point parabola on every path (rational-function identity, "
                         "sub-case shortcuts checked under their own condition)")
    fi = repo.func("wavespectra.core.npstats.tps")
    ps = fi.params
    if len(ps) < 3:
        raise AnalysisError("npstats.tps signature changed")
    ip, sp, fr = ps[0], ps[1], ps[2]
    def q(a, off):
        return {-1: f"{a}[{ip}-1]", 0: f"{a}[{ip}]", 1: f"{a}[{ip}+1]"}[off]
    F = [Rat(Poly.var(q(fr, o))) for o in (-1, 0, 1)]
    E = [Rat(Poly.var(q(sp, o))) for o in (-1, 0, 1)]
    two = Rat(Poly.const(2))
    num = E[0] * (F[1] * F[1] - F[2] * F[2]) + E[1] * (F[2] * F[2] - F[0] * F[0]) + E[2] * (F[0] * F[0] - F[1] * F[1])
    den = two * (E[0] * (F[1] - F[2]) + E[1] * (F[2] - F[0]) + E[2] * (F[0] - F[1]))
    ref = den / num          # 1 / vertex
    nret = 0

    def env_at(ret):
        env = {}
        def visit(stmts):
            for st in stmts:
                if st is ret:
                    return True
                if isinstance(st, ast.Assign) and len(st.targets) == 1 and isinstance(st.targets[0], ast.Name):
                    env[st.targets[0].id] = st.value
                elif any(x is ret for x in ast.walk(st)):
                    for fld in ("body", "orelse", "finalbody"):
                        blk = getattr(st, fld, None)
                        if isinstance(blk, list) and any(x is ret for b in blk for x in ast.walk(b)):
                            return visit(blk)
                    return True
            return False
        visit(fi.node.body)
        return env
    for r in [n for n in ast.walk(fi.node) if isinstance(n, ast.Return)]:
        if r.value is None or unparse(r.value) in ("np.nan", "numpy.nan", "float('nan')", "nan"):
            continue
        env = env_at(r)
        rv_ = r.value
        hops_ = 0
        while isinstance(rv_, ast.Name) and rv_.id in env and hops_ < 5:
            rv_, hops_ = env[rv_.id], hops_ + 1
        if unparse(rv_) in ("np.nan", "numpy.nan", "float('nan')", "nan"):
            continue
        nret += 1
        try:
            got = rat_of(r.value, env)
            if not got.vars() <= ref.vars():
                raise AnalysisError(f"npstats.tps: quantities {sorted(got.vars() - ref.vars())} of the returned value are not the peak bin / its neighbours "
                                    "as the rule knows them (sampling idiom not recognised)")
            ref_, got_ = ref, got
            for test, truth in path_conditions(fi.node, r):
                if not truth:
                    continue
                pair = None
                if isinstance(test, ast.Call) and call_name(test).split(".")[-1] in ("isclose", "allclose") and len(test.args) >= 2:
                    pair = (test.args[0], test.args[1])
                elif isinstance(test, ast.Compare) and len(test.ops) == 1 and isinstance(test.ops[0], ast.Eq):
                    pair = (test.left, test.comparators[0])
                if pair is not None:
                    sol = solve_linear_equality(pair[0], pair[1], env)
                    if sol is not None:
                        ref_, got_ = ref_.subst(*sol), got_.subst(*sol)
            same = got_.equals(ref_)
        except NotRational as e:
            rep.fail("R-C02-11", fi.file, r.lineno, fi.qualname, unparse(r)[:100], f"the returned value is not a rational function of the three sampled points ({e}): "
                     "it cannot be the parabola vertex", anchor="tps:vertex")
            continue
        if same:
            rep.ok("R-C02-11", f"{fi.file}:{r.lineno} tps", unparse(r)[:80], "equals 1 / vertex of the parabola through (f1,e1), (f2,e2), (f3,e3) as a rational function")
        else:
            rep.fail("R-C02-11", fi.file, r.lineno, fi.qualname, unparse(r)[:100],
                     "this return value is not the reciprocal of the parabola vertex (-b/2a of the quadratic through the peak bin and its two neighbours): "
                     "the smoothed peak period / frequency is displaced", anchor="tps:vertex")
    rep.floor("R-C02-11", "value-returning paths of npstats.tps", nret, 1)


def run(repo, rep, tier):
    from .round7b import hygiene
    hygiene(repo, rep, "C02", ('wavespectra.specarray', 'wavespectra.core.xrstats', 'wavespectra.core.npstats'), falsy=True)
    rep.rule("R-C02-12", "(shared with C06) no statistic changes the length of a spectral axis depending on the data (dropna / where(drop=True)): the peak index "
                         "is positional on the full frequency axis")
    from .round7 import no_data_dependent_shape
    no_data_dependent_shape(repo, rep, "R-C02-12")
    parabola_vertex(repo, rep)
    alpha_window_keeps_bin(repo, rep)
    rep.rule("R-C02-9", "(shared with C10) no peak parameter is masked by comparing an energy-dependent quantity with an absolute constant: a clear peak of a "
                        "low-energy spectrum is still a peak")
    from ..spectyping import Typing as _Typing
    from .shared import scale_free_guards
    scale_free_guards(repo, rep, "R-C02-9", _Typing(repo, two_d=True), ("tp", "fp", "dp", "dpm", "dpspr", "alpha", "gamma"), type_them=True)
    rep.rule("R-C02-8", "(shared with C09) peak parameters requested through stats() with band limits are those of the split spectrum")
    from .c09 import stats_dispatch
    stats_dispatch(repo, rep, "R-C02-8")
    rep.rule("R-C02-6", "(shared with C18) no peak statistic is memoised on the xarray-cached accessor: after an in-place edit the reported "
                        "peak would be the peak of the spectrum as it was")
    from ..effects import Engine as _Eng
    from .c18 import accessor_state as _acc
    _e = _Eng(repo)
    _e.solve()
    _sa = repo.cls("wavespectra.specarray.SpecArray")
    for f_, ln_, fn_, cons_, why_ in _acc(repo, _e, _sa):
        rep.fail("R-C02-6", f_, ln_, fn_, cons_, why_ + ": tp / fp / gamma keep reporting the old peak")
    rep.ok("R-C02-6", f"{_sa.module.relpath} SpecArray", f"{len(_sa.methods)} methods", "no memo, no derived state on the accessor")
    rep.rule("R-C02-1", "tp/tps/dpm/dpspr kernels receive the index produced by SpecArray._peak applied to the "
                        "direction-integrated spectrum at full precision; fp, alpha, gamma reach the same locator")
    rep.rule("R-C02-2", "_peak marks strict interior maxima: both neighbour differences compared strictly with 0, paddings "
                        "repeat the array's own end elements with matching diff labels, masks conjoined, non-peaks zeroed, "
                        "arg-max along freq")
    rep.rule("R-C02-3", "each peak kernel returns NaN when ipeak == 0 (no interior maximum)")
    rep.rule("R-C02-4", "gamma's peak density is the spectrum at the located peak")
    rep.rule("R-C02-5", "dp is the direction coordinate at the arg-max over dir of the unweighted frequency-summed spectrum; "
                        "index 0 is valid")
    peak_locator(repo, rep)
    peak_definition(repo, rep)
    nan_guards(repo, rep)
    gamma_peak_density(repo, rep)
    peak_direction(repo, rep)
    from .c20 import kernel_guards
    rep.rule("R-C20-4", "(shared) subscripts by ipeak-dependent positions are dominated by the no-peak guard")
    kernel_guards(repo, rep)
    rep.trust("Python ast; xarray semantics of concat/diff(label)/where/argmax")
    rep.note("not decided: the parabola vertex lies strictly between the neighbours; ties between equal peaks; alpha's "
             "fitted value")
    return ("Static structural decision of the peak definition: data-flow (reaching definitions) from every peak kernel's "
            "index argument back to SpecArray._peak on the direction-integrated spectrum; a comparison-only analysis of "
            "_peak (strictness, self-padding, label alignment, conjunction, zero fill); NaN guards of the kernels; the "
            "data path of the peak direction; gamma's peak density source.")
