"""C14 - site selection finds the right stations on a sphere-aware longitude axis."""
import ast

from ..model import UNKNOWN, call_name, kwarg, unparse
from ..report import AnalysisError

SEL = "wavespectra.core.select"


def _assigns(fi, name):
    return [n for n in ast.walk(fi.node) if isinstance(n, ast.Assign) and len(n.targets) == 1 and
            isinstance(n.targets[0], ast.Name) and n.targets[0].id == name]


def _mentions(e, frag):
    return any((isinstance(n, ast.Name) and frag in n.id.lower()) or (isinstance(n, ast.Attribute) and frag in n.attr.lower()) for n in ast.walk(e))


def circular_lon(repo, rep):
    fi = repo.func(f"{SEL}.Coordinates.distance")
    subs = [n for n in ast.walk(fi.node) if isinstance(n, ast.BinOp) and isinstance(n.op, ast.Sub) and _mentions(n.left, "lon") and _mentions(n.right, "lon")]
    if not subs:
        raise AnalysisError("Coordinates.distance: longitude difference not found")
    for sub in subs:
        # the value must pass through min(d, 360 - d) before it is squared
        stmt = sub
        while not isinstance(stmt, ast.stmt):
            stmt = stmt._parent
        folded = False
        fold_node = None
        name = stmt.targets[0].id if isinstance(stmt, ast.Assign) and isinstance(stmt.targets[0], ast.Name) else None
        # same expression: np.minimum(abs(a-b), 360-abs(a-b))  or via the local name
        for n in ast.walk(fi.node):
            if isinstance(n, ast.Call) and call_name(n) in ("np.minimum", "numpy.minimum", "min") and len(n.args) == 2:
                a, b = n.args
                for x, y in ((a, b), (b, a)):
                    if isinstance(y, ast.BinOp) and isinstance(y.op, ast.Sub) and repo.const(fi.module, y.left) == 360 and unparse(y.right) == unparse(x):
                        if (name and unparse(x) == name) or any(sub is z_ for z_ in ast.walk(n)):
                            folded = True
                            fold_node = n
            if isinstance(n, ast.BinOp) and isinstance(n.op, ast.Sub) and isinstance(n.left, ast.BinOp) and isinstance(n.left.op, ast.Mod) \
                    and repo.const(fi.module, n.left.right) == 360 and repo.const(fi.module, n.right) == 180 and sub in list(ast.walk(n.left)):
                folded = True     # ((a - b + 180) % 360) - 180
        # is the folded name the one that is squared?
        squared_raw = False
        for n in ast.walk(fi.node):
            if isinstance(n, ast.BinOp) and isinstance(n.op, ast.Pow) and sub in list(ast.walk(n.left)):
                squared_raw = True
        conditional = None
        if fold_node is not None:
            a_ = fold_node
            while a_ is not fi.node and a_ is not None:
                if isinstance(a_, (ast.If, ast.While, ast.For, ast.Try, ast.IfExp)):
                    conditional = a_
                a_ = getattr(a_, "_parent", None)
        modded = all(any(isinstance(m, ast.BinOp) and isinstance(m.op, ast.Mod) and repo.const(fi.module, m.right) == 360 for m in ast.walk(side))
                     for side in (sub.left, sub.right)) or any(
            isinstance(m, ast.BinOp) and isinstance(m.op, ast.Mod) and repo.const(fi.module, m.right) == 360 and sub in list(ast.walk(m.left)) for m in ast.walk(fi.node))
        if folded and not squared_raw and conditional is not None:
            rep.fail("R-C14-1", fi.file, conditional.lineno, fi.qualname, unparse(conditional)[:140],
                     "the fold of the longitude difference into [0, 180] is applied on some paths only: every longitude convention has a seam "
                     "(0/360 or +-180), so on the other paths stations either side of it come out ~360 degrees apart")
        elif folded and not squared_raw and not modded and fold_node is not None and call_name(fold_node) != "":
            rep.fail("R-C14-1", fi.file, sub.lineno, fi.qualname, unparse(stmt)[:140],
                     "the two longitudes are differenced without both being reduced modulo 360 first: between a [0,360] and a [-180,180] value the "
                     "difference can exceed 360 and min(d, 360 - d) is then negative / the long way round")
        elif folded and not squared_raw:
            rep.ok("R-C14-1", f"{fi.file}:{sub.lineno} Coordinates.distance", unparse(sub), "folded into [0, 180] (short way round) before being squared")
        else:
            rep.fail("R-C14-1", fi.file, sub.lineno, fi.qualname, unparse(stmt)[:140],
                     "longitudes are differenced the long way round: 359.5E and 0.5E come out 359 degrees apart, so nearest / idw "
                     "selection misses stations either side of the Greenwich meridian")


def conventions(repo, rep):
    c = f"{SEL}.Coordinates"
    swap = repo.func(f"{c}._swap_longitude_convention")
    from ..astutil import rel as _rel
    cmps = [n for n in ast.walk(swap.node) if _rel(n, lambda e: repo.const(swap.module, e) == 180) is not None]
    if not cmps:
        raise AnalysisError("_swap_longitude_convention: comparison with 180 not found")
    # also comparisons hoisted into a local mask
    for n in cmps:
        if _rel(n, lambda e: repo.const(swap.module, e) == 180)[1] == "<":      # 180 < longitude
            rep.ok("R-C14-6", f"{swap.file}:{n.lineno} _swap_longitude_convention", unparse(n), "only longitudes strictly beyond 180 move to the negative half")
        else:
            rep.fail("R-C14-6", swap.file, n.lineno, swap.qualname, unparse(n),
                     "a longitude of exactly 180 is valid in both conventions and must stay 180: with '>=' a query box edge on the "
                     "date line flips to -180 and the box selects the wrong stations")
    # the [-180,180] -> [0,360] direction
    mods = [n for n in ast.walk(swap.node) if isinstance(n, ast.BinOp) and isinstance(n.op, ast.Mod) and repo.const(swap.module, n.right) == 360]
    if not mods:
        rep.fail("R-C14-6", swap.file, swap.node.lineno, swap.qualname, "180 -> 360 branch", "negative longitudes must be mapped with % 360")
    for name, want in (("_is_180", [("min", "Lt", 0), ("max", "LtE", 180)]), ("_is_360", [("min", "GtE", 0), ("max", "LtE", 360)])):
        fi = repo.func(f"{c}.{name}")
        got = []
        for n in ast.walk(fi.node):
            r_ = _rel(n, lambda e: isinstance(e, ast.Call) and isinstance(e.func, ast.Attribute) and e.func.attr in ("min", "max"))
            if r_ is not None:
                got.append((r_[0].func.attr, {">=": "GtE", "<=": "LtE", ">": "Gt", "<": "Lt", "==": "Eq", "!=": "NotEq"}[r_[1]], repo.const(fi.module, r_[2])))
        if sorted(got) == sorted(want):
            rep.ok("R-C14-6", f"{fi.file}:{fi.node.lineno} {name}", " and ".join(f"{a}() {b} {c_}" for a, b, c_ in got), "convention detector as documented")
        else:
            rep.fail("R-C14-6", fi.file, fi.node.lineno, fi.qualname, str(got), f"convention detector changed (expected {want})")


def _truth(t):
    """Value of a convention test when the dataset is in 0-360 and the query is NOT in the same convention."""
    if isinstance(t, ast.UnaryOp) and isinstance(t.op, ast.Not):
        v = _truth(t.operand)
        return None if v is None else (not v)
    if isinstance(t, ast.BoolOp):
        vs = [_truth(v) for v in t.values]
        if None in vs:
            return None
        return all(vs) if isinstance(t.op, ast.And) else any(vs)
    if isinstance(t, ast.Call) and call_name(t).split(".")[-1] == "_is_360":
        return True
    if isinstance(t, ast.Call) and call_name(t).split(".")[-1] == "_is_180":
        return False
    if isinstance(t, ast.Attribute) and t.attr == "consistent":
        return False
    if isinstance(t, ast.Compare) and len(t.ops) == 1 and isinstance(t.left, ast.Attribute) and t.left.attr == "consistent" \
            and isinstance(t.comparators[0], ast.Constant) and isinstance(t.comparators[0].value, bool):
        same = isinstance(t.ops[0], (ast.Is, ast.Eq))
        return (False == t.comparators[0].value) if same else (False != t.comparators[0].value)
    return None


def bbox_bounds(repo, rep):
    fi = repo.func(f"{SEL}.sel_bbox")
    lo, hi, tol = set(), set(), None
    axis_of = {}
    from ..astutil import simple_assigns
    for n in simple_assigns(fi.node):
        if isinstance(n, ast.Assign) and isinstance(n.targets[0], ast.Name) and isinstance(n.value, ast.BinOp):
            v = n.value
            if isinstance(v.left, ast.Call) and v.left.args:
                axis_of[n.targets[0].id] = "lon" if "lon" in unparse(v.left.args[0]) else "lat"
            if isinstance(v.left, ast.Call) and call_name(v.left) in ("min", "np.min") and isinstance(v.op, ast.Sub):
                lo.add(n.targets[0].id)
                rep.ok("R-C14-2", f"{fi.file}:{n.lineno} sel_bbox", unparse(n), "lower bound = smallest query value minus the tolerance")
            elif isinstance(v.left, ast.Call) and call_name(v.left) in ("max", "np.max") and isinstance(v.op, ast.Add):
                hi.add(n.targets[0].id)
                rep.ok("R-C14-2", f"{fi.file}:{n.lineno} sel_bbox", unparse(n), "upper bound = largest query value plus the tolerance")
            elif isinstance(v.left, ast.Call) and call_name(v.left) in ("min", "max", "np.min", "np.max"):
                rep.fail("R-C14-2", fi.file, n.lineno, fi.qualname, unparse(n), "the tolerance must WIDEN the box: min(...) - tolerance, max(...) + tolerance",
                         anchor=f"sel_bbox:tolerance-sign:{n.targets[0].id}")
                (lo if call_name(v.left).endswith("min") else hi).add(n.targets[0].id)      # still this side's bound: the rest of the rule can go on
    for n in simple_assigns(fi.node):
        # bounds taken from the (convention-adjusted) query without the tolerance
        if isinstance(n, ast.Assign) and isinstance(n.targets[0], ast.Name) and isinstance(n.value, ast.Call) and n.value.args \
                and call_name(n.value) in ("min", "max", "np.min", "np.max") and "coords" in unparse(n.value.args[0]) and n.targets[0].id not in lo | hi:
            (lo if call_name(n.value).endswith("min") else hi).add(n.targets[0].id)
            axis_of[n.targets[0].id] = "lon" if "lon" in unparse(n.value.args[0]) else "lat"
            rep.fail("R-C14-2", fi.file, n.lineno, fi.qualname, unparse(n),
                     "the bound compared with the station coordinates is not widened by the tolerance: the tolerance has to be applied to the "
                     "min / max of the query as Coordinates holds it (after its longitude-convention handling); widening the raw query "
                     "beforehand changes the convention Coordinates detects for boxes near 0/360 or +-180")
    if len(lo) != 2 or len(hi) != 2:
        raise AnalysisError("sel_bbox: min/max +- tolerance bounds not found")
    n_cmp = 0
    for n in ast.walk(fi.node):
        from ..astutil import rel as _rel
        r_ = _rel(n, lambda e: isinstance(e, ast.Name) and e.id in lo | hi)
        if r_ is not None:
            # relation of the COORDINATE with respect to the bound
            b = r_[0].id
            n_cmp += 1
            op = {"<": ast.Gt, "<=": ast.GtE, ">": ast.Lt, ">=": ast.LtE}.get(r_[1], ast.Eq)
            coord = "lon" if "lon" in unparse(r_[2]) else "lat"
            wrapped = False
            for i_ in ast.walk(fi.node):
                if isinstance(i_, ast.If) and "_is_360" in unparse(i_.test):
                    # which branch runs for a 0-360 dataset queried in the other convention (_is_360 True, consistent False)?
                    pol = _truth(i_.test)
                    if pol is None:
                        raise AnalysisError("sel_bbox: convention test not understood")
                    branch = i_.body if pol else i_.orelse
                    if any(n is x for o in branch for x in ast.walk(o)):
                        wrapped = True
            opn = {ast.GtE: ">=", ast.Gt: ">", ast.LtE: "<=", ast.Lt: "<"}.get(op, op.__name__)
            anchor = f"sel_bbox:{'wrapped' if wrapped else 'plain'}:{coord}{opn}{'upper' if b in hi else 'lower'}"
            if (axis_of.get(b) == "lon") != (coord == "lon"):
                rep.fail("R-C14-2", fi.file, n.lineno, fi.qualname, unparse(n), f"a {coord} coordinate is compared with a bound of the other axis")
            elif (b in lo and op in (ast.GtE, ast.Gt)) or (b in hi and op in (ast.LtE, ast.Lt)):
                rep.ok("R-C14-2", f"{fi.file}:{n.lineno} sel_bbox", unparse(n), "lower bound used as lower bound" if b in lo else "upper bound used as upper bound")
            else:
                rep.fail("R-C14-2", fi.file, n.lineno, fi.qualname, unparse(n),
                         f"'{b}' is the {'upper' if b in hi else 'lower'} edge of the (tolerance-widened) box but is used as a "
                         f"{'lower' if b in hi else 'upper'} bound: this selects the complement of the box along that axis and the "
                         "tolerance shrinks instead of widening it", anchor=anchor)
    rep.floor("R-C14-2", "box comparisons in sel_bbox", n_cmp, 8)


def epilogues(repo, rep):
    for name in ("sel_nearest", "sel_idw", "sel_bbox"):
        fi = repo.func(f"{SEL}.{name}")
        ctor = [n for n in ast.walk(fi.node) if isinstance(n, ast.Call) and call_name(n) == "Coordinates"]
        if len(ctor) != 1:
            raise AnalysisError(f"{name}: Coordinates(...) construction not found")
        from ..astutil import bound_args
        b_ = bound_args(repo, fi, ctor[0]) or {}
        kws = {k_: unparse(v_) for k_, v_ in b_.items()}
        pos = [kws.get("dset")] if "dset" in kws else [unparse(a) for a in ctor[0].args]
        want = {"lons": "lons", "lats": "lats", "dset_lons": "dset_lons", "dset_lats": "dset_lats"}
        if pos[:1] == [fi.params[0]] and all(kws.get(k) == v for k, v in want.items()):
            rep.ok("R-C14-3", f"{fi.file}:{ctor[0].lineno} {name}", unparse(ctor[0])[:100], "same five arguments in every selector")
        else:
            rep.fail("R-C14-3", fi.file, ctor[0].lineno, fi.qualname, unparse(ctor[0])[:120], "selectors must build Coordinates from (dset, lons, lats, dset_lons, dset_lats)")
        conv = [n for n in ast.walk(fi.node) if isinstance(n, ast.If) and (unparse(n.test).replace(" ", "").endswith(".consistentisFalse") or (unparse(n.test).startswith("not ") and unparse(n.test).endswith(".consistent")))]
        okc = False
        for c in conv:
            for s in c.body:
                if isinstance(s, ast.Assign) and "lon" in unparse(s.targets[0]) and "_swap_longitude_convention" in unparse(s.value):
                    okc = True
        if okc:
            rep.ok("R-C14-3", f"{fi.file}:{conv[0].lineno} {name}", "if coords.consistent is False: lon <- swap(lon)", "longitudes reported in the query's convention")
        else:
            rep.fail("R-C14-3", fi.file, fi.node.lineno, fi.qualname, "output longitude convention",
                     "when dataset and query use different conventions the output longitudes must be swapped back to the query's")
        ren = [n for n in ast.walk(fi.node) if isinstance(n, ast.Call) and call_name(n) in ("np.arange", "numpy.arange") and "len(" in unparse(n)]
        if ren:
            rep.ok("R-C14-3", f"{fi.file}:{ren[-1].lineno} {name}", unparse(ren[-1]), "sites renumbered 0..n-1")
        else:
            rep.fail("R-C14-3", fi.file, fi.node.lineno, fi.qualname, "site renumbering", "selected sites must be renumbered from arange(n)")
    # dispatcher
    fi = repo.func("wavespectra.specdataset.SpecDataset.sel")
    funcs = None
    for n in ast.walk(fi.node):
        if isinstance(n, ast.Assign) and isinstance(n.value, ast.Dict):
            d = {}
            for k, v in zip(n.value.keys, n.value.values):
                d[repo.const(fi.module, k)] = unparse(v)
            if "idw" in d:
                funcs = (n, d)
    want = {"idw": "sel_idw", "bbox": "sel_bbox", "nearest": "sel_nearest", None: "sel_nearest"}
    if funcs is None or funcs[1] != want:
        rep.fail("R-C14-3", fi.file, fi.node.lineno, fi.qualname, str(funcs[1] if funcs else None), f"method names must map to {want}")
    else:
        rep.ok("R-C14-3", f"{fi.file}:{funcs[0].lineno} SpecDataset.sel", str(funcs[1]), "every documented method dispatched")
    t = unparse(fi.node)
    if "except KeyError" in t and "raise ValueError" in t:
        rep.ok("R-C14-3", f"{fi.file} SpecDataset.sel", "unknown method -> ValueError", "rejected, not mis-handled")
    else:
        rep.fail("R-C14-3", fi.file, fi.node.lineno, fi.qualname, "unknown method", "an unsupported method must raise ValueError")
    exact_ok = False
    for i_ in ast.walk(fi.node):
        if isinstance(i_, ast.If) and unparse(i_.test).replace(" ", "") in ("methodisNone", "notmethod"):
            for b_ in ast.walk(i_):
                # kwargs.update({"exact": True}) / kwargs.update(exact=True) / kwargs["exact"] = True
                if isinstance(b_, ast.Call) and isinstance(b_.func, ast.Attribute) and b_.func.attr == "update":
                    for a_ in b_.args:
                        d_ = repo.const(fi.module, a_)
                        if isinstance(d_, dict) and d_.get("exact") is True:
                            exact_ok = True
                    if any(k_.arg == "exact" and repo.const(fi.module, k_.value) is True for k_ in b_.keywords):
                        exact_ok = True
                if isinstance(b_, ast.Assign) and isinstance(b_.targets[0], ast.Subscript) and repo.const(fi.module, b_.targets[0].slice) == "exact" \
                        and repo.const(fi.module, b_.value) is True:
                    exact_ok = True
    if exact_ok:
        rep.ok("R-C14-3", f"{fi.file} SpecDataset.sel", "method=None -> exact=True", "only exact matches")
    else:
        rep.fail("R-C14-3", fi.file, fi.node.lineno, fi.qualname, "method=None", "method=None must require exact matches")


def idw(repo, rep):
    fi = repo.func(f"{SEL}.sel_idw")
    t = unparse(fi.node)
    # a vectorised combination: a reduction over the site dimension must propagate missing values (xarray's sum / mean skip NaN by default, so a
    # neighbour with missing spectra silently drops out of the weighted mean and the remaining weights no longer add up to one)
    for c_ in ast.walk(fi.node):
        if isinstance(c_, ast.Call) and isinstance(c_.func, ast.Attribute) and c_.func.attr in ("sum", "mean", "nansum", "nanmean") \
                and (any(repo.const(fi.module, a_) == repo.attrs.SITENAME for a_ in c_.args)
                     or any(k_.arg == "dim" and repo.const(fi.module, k_.value) == repo.attrs.SITENAME for k_ in c_.keywords)):
            sk = kwarg(c_, "skipna")
            if c_.func.attr.startswith("nan") or sk is None or repo.const(fi.module, sk) is not False:
                rep.fail("R-C14-4", fi.file, c_.lineno, fi.qualname, unparse(c_)[:100],
                         "the neighbours are combined by a reduction over 'site' that skips NaN: a station with missing spectra contributes nothing instead of "
                         "making the combination missing, and the weights of the others are not renormalised (a zero-distance match on it returns zeros)",
                         anchor="sel_idw:nan-skipping-reduction")
    # factor 1/dist and the zero-distance short cut
    inner = [n for n in ast.walk(fi.node) if isinstance(n, ast.For) and isinstance(n.iter, ast.Call) and call_name(n.iter) == "zip"
             and isinstance(n.target, ast.Tuple) and len(n.target.elts) == 2 and any(isinstance(x, ast.Break) for x in ast.walk(n))]
    inner = [n for n in inner if not any(m is not n and m in inner for m in ast.walk(n))]
    if not inner:
        raise AnalysisError("sel_idw: neighbour collection loop not found")
    loop = inner[0]
    ind, dist = (e.id for e in loop.target.elts)

    def appended(stmts, pred):
        for s_ in stmts:
            if isinstance(s_, ast.Expr) and isinstance(s_.value, ast.Call) and isinstance(s_.value.func, ast.Attribute) and s_.value.func.attr == "append" \
                    and len(s_.value.args) == 1 and pred(s_.value.args[0]):
                return unparse(s_.value.func.value)
        return None
    I = appended(loop.body, lambda e: unparse(e) == ind)
    F = appended(loop.body, lambda e: isinstance(e, ast.BinOp) and isinstance(e.op, ast.Div) and repo.const(fi.module, e.left) in (1, 1.0) and unparse(e.right) == dist)
    zero = [n for n in loop.body if isinstance(n, ast.If) and unparse(n.test).replace(" ", "") in (f"{dist}==0", f"{dist}==0.0", f"0=={dist}")]
    okz = False
    if zero and F:
        b = zero[0].body
        okz = appended(b, lambda e: repo.const(fi.module, e) in (1, 1.0)) == F and isinstance(b[-1], ast.Break)
    if okz:
        rep.ok("R-C14-4", f"{fi.file}:{zero[0].lineno} sel_idw", "if dist == 0: factors.append(1.0); break", "a station at zero distance is returned alone with weight 1")
    else:
        rep.fail("R-C14-4", fi.file, loop.lineno, fi.qualname, "zero-distance case", "a query point exactly on a station must short-circuit to that station with factor 1 (otherwise 1/0)")
    if F:
        rep.ok("R-C14-4", f"{fi.file}:{loop.lineno} sel_idw", f"{F}.append(1.0 / {dist})", "weights proportional to 1/distance")
    else:
        rep.fail("R-C14-4", fi.file, loop.lineno, fi.qualname, "neighbour factors", "each neighbour's factor must be 1/distance")
    if not I:
        raise AnalysisError("sel_idw: neighbour index list not found")
    # the masking condition: the If that follows the collection loop and tests len(I)
    masks = [n for n in ast.walk(fi.node) if isinstance(n, ast.If) and n.lineno > loop.lineno and n.orelse
             and getattr(n, "_parent", None) is getattr(loop, "_parent", None)
             and any(isinstance(x, (ast.For, ast.AugAssign)) for o in n.orelse for x in ast.walk(o))]
    if len(masks) != 1:
        if any(f_.anchor == "sel_idw:nan-skipping-reduction" for f_ in rep.findings):
            return
        raise AnalysisError("sel_idw: masking branch not found")
    cond = masks[0].test
    ct = unparse(cond).replace(" ", "")
    has_empty = f"len({I})==0" in ct or f"not{I}" in ct
    has_single = (f"len({I})==1" in ct) and (f"{dist}>0" in ct or f"0<{dist}" in ct or f"{dist}!=0" in ct)
    if has_empty and has_single and isinstance(cond, ast.BoolOp) and isinstance(cond.op, ast.Or):
        rep.ok("R-C14-4", f"{fi.file}:{masks[0].lineno} sel_idw", unparse(cond), "missing iff no neighbour, or a single neighbour that is not the query point itself")
    else:
        rep.fail("R-C14-4", fi.file, masks[0].lineno, fi.qualname, "if " + unparse(cond),
                 "the result is missing when fewer than two stations are in range EXCEPT when the single station is at zero distance "
                 "(then it is returned exactly); this condition loses that case or masks too little", anchor="sel_idw:mask-condition")
    # normalisation: S = float(1.0 / sum(F)); W *= S guarded by len(I) > 0 (I has been popped once by then)
    S = None
    for a_ in ast.walk(masks[0]):
        if isinstance(a_, ast.Assign) and isinstance(a_.targets[0], ast.Name):
            v = a_.value
            while isinstance(v, ast.Call) and call_name(v) == "float" and v.args:
                v = v.args[0]
            if isinstance(v, ast.BinOp) and isinstance(v.op, ast.Div) and repo.const(fi.module, v.left) in (1, 1.0) and unparse(v.right).replace(" ", "") == f"sum({F})":
                S = a_.targets[0].id
    def is_norm(e):
        # the normalising factor: the local holding it, or 1 / sum(F) written in place
        if S and unparse(e) == S:
            return True
        v = e
        while isinstance(v, ast.Call) and call_name(v) == "float" and v.args:
            v = v.args[0]
        return isinstance(v, ast.BinOp) and isinstance(v.op, ast.Div) and repo.const(fi.module, v.left) in (1, 1.0) and unparse(v.right).replace(" ", "") == f"sum({F})"
    scal = [(x, b_) for x in ast.walk(masks[0]) if isinstance(x, ast.If) for b_ in x.body
            if isinstance(b_, ast.AugAssign) and isinstance(b_.op, ast.Mult) and is_norm(b_.value)]
    unguarded = [b_ for o in masks[0].orelse for b_ in ([o] if isinstance(o, ast.AugAssign) else [])
                 if isinstance(b_.op, ast.Mult) and is_norm(b_.value)]
    if scal or unguarded:
        g = unparse(scal[0][0].test).replace(" ", "") if scal else "True"
        # the guard as a threshold on the ORIGINAL number of neighbours: `c < len(I)` after k pops of I means  original > c + k
        pops = 0
        if scal:
            gpos = (scal[0][0].lineno, scal[0][0].col_offset)
            pops = sum(1 for c_ in ast.walk(masks[0]) if isinstance(c_, ast.Call) and isinstance(c_.func, ast.Attribute) and c_.func.attr == "pop"
                       and unparse(c_.func.value) == I and (c_.lineno, c_.col_offset) < gpos)
        thr = None
        t_ = scal[0][0].test if scal else None
        if t_ is None:
            thr = 0
        elif unparse(t_) == I:
            thr = pops
        elif isinstance(t_, ast.Compare) and len(t_.ops) == 1:
            l_, r_ = t_.left, t_.comparators[0]
            cl, cr = repo.const(fi.module, l_), repo.const(fi.module, r_)
            is_len = lambda e: isinstance(e, ast.Call) and call_name(e) == "len" and e.args and unparse(e.args[0]) == I
            if is_len(r_) and isinstance(cl, int) and isinstance(t_.ops[0], (ast.Lt, ast.LtE)):
                thr = cl + pops - (1 if isinstance(t_.ops[0], ast.LtE) else 0)
            elif is_len(l_) and isinstance(cr, int) and isinstance(t_.ops[0], (ast.Gt, ast.GtE)):
                thr = cr + pops - (1 if isinstance(t_.ops[0], ast.GtE) else 0)
            elif is_len(l_) and isinstance(cr, int) and isinstance(t_.ops[0], ast.NotEq) and cr == 0:
                thr = pops
        if thr in (0, 1):
            rep.ok("R-C14-4", f"{fi.file}:{masks[0].lineno} sel_idw", "weighted *= 1/sum(factors) when more than one term", "convex combination")
        else:
            rep.fail("R-C14-4", fi.file, fi.node.lineno, fi.qualname, f"normalisation guard '{g}'", "the weighted sum must be normalised by 1/sum(factors) whenever more than one station contributes",
                     anchor="sel_idw:normalisation-guard")
    else:
        rep.fail("R-C14-4", fi.file, fi.node.lineno, fi.qualname, "normalisation", "weights must be normalised by the sum of the factors")


def tolerance(repo, rep):
    fi = repo.func(f"{SEL}.sel_nearest")
    loop = [n for n in fi.node.body if isinstance(n, ast.For)][0]
    tests = [n for n in loop.body if isinstance(n, ast.If)]
    cid = cdist = None
    inline_nearest = False
    for s in loop.body:
        if isinstance(s, ast.Assign) and isinstance(s.targets[0], ast.Tuple) and len(s.targets[0].elts) == 2 and isinstance(s.value, ast.Call) \
                and isinstance(s.value.func, ast.Attribute) and s.value.func.attr == "nearest":
            cid, cdist = (unparse(e) for e in s.targets[0].elts)
    if cid is None:
        # the helper written out in the loop:  d = coords.distance(lon, lat); i = d.argmin(); di = d[i]
        for s in loop.body:
            if isinstance(s, ast.Assign) and isinstance(s.targets[0], ast.Name) and isinstance(s.value, ast.Call) and isinstance(s.value.func, ast.Attribute) \
                    and s.value.func.attr == "argmin" and not s.value.args:
                dn = unparse(s.value.func.value)
                dsrc = [a for a in loop.body if isinstance(a, ast.Assign) and unparse(a.targets[0]) == dn and isinstance(a.value, ast.Call)
                        and isinstance(a.value.func, ast.Attribute) and a.value.func.attr == "distance"]
                recv = s.value.func.value
                if isinstance(recv, ast.Call) and isinstance(recv.func, ast.Attribute) and recv.func.attr == "distance":
                    dsrc = [s]                 # coords.distance(..).argmin() without a temporary
                if dsrc:
                    cid = s.targets[0].id
                    for a in loop.body:
                        if isinstance(a, ast.Assign) and isinstance(a.targets[0], ast.Name) and unparse(a.value).replace(" ", "") == f"{dn}[{cid}]".replace(" ", ""):
                            cdist = a.targets[0].id
                            inline_nearest = True
    if cid is None or cdist is None:
        raise AnalysisError("sel_nearest: (id, distance) = coords.nearest(...) not found")
    # (position of) the statement of the loop body that holds the append / the tolerance test, at any nesting depth (E0 stores
    # `if c: continue; REST` as `if not c: REST`, so the append may sit inside a branch)
    def top_index(pred):
        return [i for i, s in enumerate(loop.body) if any(pred(x) for x in ast.walk(s))]
    is_app = lambda x: isinstance(x, ast.Expr) and isinstance(x.value, ast.Call) and isinstance(x.value.func, ast.Attribute) \
        and x.value.func.attr == "append" and [unparse(a_) for a_ in x.value.args] == [cid]
    is_tol = lambda x: isinstance(x, ast.If) and unparse(x.test).replace(" ", "") in (f"{cdist}>tolerance", f"tolerance<{cdist}")   # E0 stores the second form
    app, tol = top_index(is_app), top_index(is_tol)
    tol_nodes = [x for s in loop.body for x in ast.walk(s) if is_tol(x)]
    app_nodes = [x for s in loop.body for x in ast.walk(s) if is_app(x)]
    if not tol or not app or tol_nodes[0].lineno > app_nodes[0].lineno:
        rep.fail("R-C14-5", fi.file, loop.lineno, fi.qualname, "tolerance test", "a nearest station farther than the tolerance must raise (or be skipped) BEFORE it is selected")
    else:
        s = tol_nodes[0]
        inner = unparse(s)
        if "raise" in inner and "continue" in inner:
            rep.ok("R-C14-5", f"{fi.file}:{s.lineno} sel_nearest", "if closest_dist > tolerance: raise | continue", "before the station id is appended")
        else:
            rep.fail("R-C14-5", fi.file, s.lineno, fi.qualname, inner[:100], "beyond tolerance the selection must fail (missing='raise') or skip the point (missing='ignore')")
    fi = repo.func(f"{SEL}.Coordinates.nearer")
    # neighbours = argsort(dist)[ dist[argsort(dist)] <= tolerance ][:max_sites]   (the sorted distances through a temporary or in place)
    from ..astutil import resolve as _res
    okn = False
    for rr_ in ast.walk(fi.node):
        if not isinstance(rr_, ast.Return) or rr_.value is None:
            continue
        v_ = rr_.value
        if isinstance(v_, ast.Tuple) and v_.elts:
            v_ = v_.elts[0]
        for _ in range(3):
            if isinstance(v_, ast.Name):
                v_ = _res(fi.node, v_, before=rr_.lineno + 1) or v_
        # v_ = X[mask][:max_sites]
        if not (isinstance(v_, ast.Subscript) and isinstance(v_.slice, ast.Slice) and v_.slice.lower is None and unparse(v_.slice.upper) == "max_sites"):
            continue
        inner = v_.value
        if not isinstance(inner, ast.Subscript):
            continue
        order, mask = inner.value, inner.slice
        order_r = _res(fi.node, order, before=rr_.lineno + 1) if isinstance(order, ast.Name) else order
        if not (isinstance(order_r, ast.Call) and call_name(order_r).split(".")[-1] == "argsort" and len(order_r.args) == 1):
            continue
        dname = unparse(order_r.args[0])
        from ..astutil import rel as _rel2
        r_ = _rel2(mask, lambda e: unparse(e) == "tolerance") if isinstance(mask, ast.Compare) else None
        if r_ is None or r_[1] != ">=":          # tolerance >= sorted distance
            continue
        sd = r_[2]
        sd_r = _res(fi.node, sd, before=rr_.lineno + 1) if isinstance(sd, ast.Name) else sd
        if isinstance(sd_r, ast.Subscript) and unparse(sd_r.value) == dname and unparse(sd_r.slice) in (unparse(order), unparse(order_r)):
            okn = True
    if okn:
        rep.ok("R-C14-5", f"{fi.file}:{fi.node.lineno} nearer", "argsort by distance, <= tolerance, [:max_sites]", "closest first, within tolerance, at most max_sites")
    else:
        rep.fail("R-C14-5", fi.file, fi.node.lineno, fi.qualname, "neighbour filter", "neighbours = stations sorted by distance, within tolerance (<=), truncated to max_sites")
    fi = repo.func(f"{SEL}.Coordinates.nearest") if not inline_nearest else repo.func(f"{SEL}.sel_nearest")
    t = unparse(fi.node).replace(" ", "")
    if any(isinstance(c_, ast.Call) and isinstance(c_.func, ast.Attribute) and c_.func.attr == "argmin" and not c_.args for c_ in ast.walk(fi.node)) \
            and not any(isinstance(c_, ast.Call) and isinstance(c_.func, ast.Attribute) and c_.func.attr == "argmax" for c_ in ast.walk(fi.node)):
        rep.ok("R-C14-5", f"{fi.file}:{fi.node.lineno} nearest", "dist.argmin()", "station at minimum distance")
    else:
        rep.fail("R-C14-5", fi.file, fi.node.lineno, fi.qualname, "nearest", "nearest must pick the arg-min of the distance")


def query_order(repo, rep):
    """R-C14-9: nearest selection answers the query points one by one, in the order they were asked."""
    rep.rule("R-C14-9", "sel_nearest: the station index list handed to isel is filled by append inside the loop over the query points and never "
                        "re-ordered or de-duplicated afterwards (np.unique / sorted / set return ascending dataset order, not query order)")
    fi = repo.func(f"{SEL}.sel_nearest")
    S = repo.attrs.SITENAME
    lst = None
    for c in ast.walk(fi.node):
        if isinstance(c, ast.Call) and isinstance(c.func, ast.Attribute) and c.func.attr == "isel":
            for k in c.keywords:
                if k.arg == S and isinstance(k.value, ast.Name):
                    lst = k.value.id
            for a in c.args:
                if isinstance(a, ast.Dict):
                    for kk, vv in zip(a.keys, a.values):
                        if repo.const(fi.module, kk) == S and isinstance(vv, ast.Name):
                            lst = vv.id
    if lst is None:
        raise AnalysisError("sel_nearest: isel(site=<list>) not found")
    loops = [l for l in ast.walk(fi.node) if isinstance(l, ast.For) and any(
        isinstance(c, ast.Call) and isinstance(c.func, ast.Attribute) and c.func.attr == "append" and unparse(c.func.value) == lst for c in ast.walk(l))]
    if len(loops) != 1 or "lons" not in unparse(loops[0].iter):
        raise AnalysisError("sel_nearest: the loop over the query points filling the index list was not found")
    bad = None
    for n in ast.walk(fi.node):
        if isinstance(n, (ast.Assign, ast.AugAssign)):
            tg = n.targets if isinstance(n, ast.Assign) else [n.target]
            if any(isinstance(t, ast.Name) and t.id == lst for t in tg):
                v = n.value
                if not (isinstance(n, ast.Assign) and isinstance(v, ast.List) and not v.elts):
                    bad = n
        if isinstance(n, ast.Call) and isinstance(n.func, ast.Attribute) and n.func.attr in ("sort", "reverse", "insert") and unparse(n.func.value) == lst:
            bad = n
    if bad is not None:
        rep.fail("R-C14-9", fi.file, bad.lineno, fi.qualname, unparse(bad)[:110],
                 f"'{lst}' is rebuilt after the loop: the selected stations are no longer returned in the order of the query points (np.unique / "
                 "sorted give ascending dataset index), so result i is not the station nearest to query point i")
    else:
        rep.ok("R-C14-9", f"{fi.file}:{loops[0].lineno} sel_nearest", f"{lst}.append(..) in the loop over the query points", "query order preserved")


def run(repo, rep, tier):
    rep.rule("R-C14-10", "the longitude-convention branch of the selectors is chosen from the DATASET's longitudes (`_is_360(dset_lons)`), not from the query")
    from .round7b import is360_on_dataset
    is360_on_dataset(repo, rep, "R-C14-10")
    from .round7b import hygiene
    hygiene(repo, rep, "C14", ('wavespectra.core.select', 'wavespectra.specdataset'), falsy=True)
    rep.rule("R-C14-8", "every parameter of the functions behind this property is read (site selection): none is accepted and then ignored, and no control parameter (cutoff, limit, tolerance, window, count, switch) is replaced by another value before use (coercion and default filling aside)")
    from .shared import unused_parameters
    unused_parameters(repo, rep, "R-C14-8", ("wavespectra.core.select", "wavespectra.specdataset.SpecDataset.sel"), "site selection")
    rep.rule("R-C14-1", "a difference of two longitudes is folded into [0, 180] before it enters the distance")
    rep.rule("R-C14-2", "box bounds keep their orientation: min - tol used as lower bound, max + tol as upper bound, per axis")
    rep.rule("R-C14-3", "the three selectors share construction, convention swap-back and site renumbering; the dispatcher maps "
                        "every documented method and rejects others with ValueError")
    rep.rule("R-C14-4", "inverse-distance weights: 1/dist, zero-distance short cut, masking condition with its exception, normalisation")
    rep.rule("R-C14-5", "tolerance applied before selection (nearest) / as '<=' filter then max_sites (nearer)")
    rep.rule("R-C14-6", "longitude conventions: strict '> 180' swap, % 360 back, detectors as documented")
    rep.rule("R-C14-7", "(shared with C18/C17) the Dataset accessor caches no station coordinates and selection never edits its inputs")
    circular_lon(repo, rep)
    conventions(repo, rep)
    bbox_bounds(repo, rep)
    epilogues(repo, rep)
    idw(repo, rep)
    tolerance(repo, rep)
    query_order(repo, rep)
    # shared: accessor state + input mutation on the selection paths
    from ..effects import Engine
    eng = Engine(repo)
    eng.solve()
    sd = repo.cls("wavespectra.specdataset.SpecDataset")
    for mname, fi in sd.methods.items():
        for fw in eng.summ[fi.qualname].field_writes:
            tag, f, ln, cons, dep, isparam = (tuple(fw) + (True, False))[:6]
            if "setattr" in tag or "_wrapper" in cons:
                continue        # F-C18-b is C18's finding
            if dep and not isparam and (tag.startswith("__init__:") and mname == "__init__" or not tag.startswith("__init__:")):
                rep.fail("R-C14-7", f, ln, fi.qualname, cons, "state derived from the dataset is cached on the accessor: a later sel() after the "
                         "coordinates were edited uses the old station positions")
    for q in ("sel_nearest", "sel_idw", "sel_bbox"):
        fi = repo.func(f"{SEL}.{q}")
        effs = [(k, e) for k, e in eng.summ[fi.qualname].effects.items() if k[0].startswith("p:")]
        if effs:
            (r, rp), e = effs[0]
            rep.fail("R-C14-7", e.file, e.line, fi.qualname, e.construct, f"{e.what}: writes {rp} of caller-owned {r}", list(e.via))
        else:
            rep.ok("R-C14-7", f"{fi.file}:{fi.node.lineno} {q}", "no write effect on dset / lons / lats", "interprocedural effect summary")
    rep.trust("Python ast; alias/effect model (shared rule)")
    rep.note("not decided: minimality of the selected station for given data, numerical weights, which stations fall in a box")
    return ("Static structural rules over select.py: the longitude difference passes through a circular fold before the "
            "distance; provenance of box bounds (which edge each comparison uses); sibling agreement of the three selectors' "
            "prologue/epilogue and of the dispatcher table; case analysis of the inverse-distance branches; placement and "
            "sense of the tolerance tests; strictness of the convention swap.")
