"""C17 - no operation modifies the data it is given.  R-C17-1 (Python effects), R-C17-2 (C input buffer)."""
import os

from ..cast import CFile, ex, show, strip
from ..effects import Engine
from ..report import AnalysisError

LEVEL = "other"

# public functions whose *contract* is to modify an argument; callers are then responsible (and are checked)
EXEMPT = {
    "wavespectra.core.attributes.set_spec_attributes": "contract: standardises attrs of the object passed in; "
        "rule instead requires every caller to pass an object it owns (checked through the call sites)",
    "wavespectra.core.utils.flatten_list": "second parameter is the documented output accumulator",
    "wavespectra.core.attributes.AttrDict.__setitem__": "dict protocol method of a helper class",
    "wavespectra.core.attributes.AttrDict.__init__": "constructor fills itself",
}
EXEMPT_PARAMS = {
    ("wavespectra.core.utils.flatten_list", "p:list_to_append_into"),
}

SPECPART_C = "wavespectra/partition/specpart/specpart.c"
WRAP_C = "wavespectra/partition/specpart/specpart_wrap.c"


def is_entry(fi):
    if fi.name.startswith("_") and not fi.name.startswith("__"):
        return False
    if fi.name.startswith("__") and fi.name not in ("__init__", "__call__"):
        return False
    if fi.cls is not None and fi.cls.name.startswith("_"):
        return False
    return True


def run(repo, rep, tier):
    rep.rule("R-C17-1", "no public function / accessor method / plugin writer has a write effect (container, variable "
                        "metadata, buffer, coordinate variable or coordinate buffer) on any of its parameters or on the "
                        "object it was called on, on any path, through any chain of internal calls")
    rep.rule("R-C17-2", "the native routine never stores through its input-buffer parameter and the wrapper only reads "
                        "PyArray_DATA of the input")
    eng = Engine(repo)
    iters = eng.solve()
    entries = python_part(repo, rep, eng, iters, "R-C17-1")
    native_part(repo, rep)
    rep.trust("xarray 2026.7 / numpy 2.5 aliasing semantics as tabulated in sa/xrmodel.py (DESIGN section 3.2)")
    rep.trust("Python ast; clang 14 JSON AST")
    rep.assume("fancy (list/array) isel copies every variable it returns; variables not carrying the indexed dimension "
               "are treated as copied too (they are the same Variable objects in xarray)")
    rep.assume("library calls not in the mutator table (sa/xrmodel.py) do not modify their arguments")
    rep.note("dask-backed inputs are covered a fortiori: lazy arrays are immutable")
    return ("Static interprocedural effect analysis over the whole package: every function is abstractly interpreted "
            "over an alias domain that tracks, per value, which caller-owned container / variable object / buffer / "
            "coordinate object each of its places may be identical with (API model of xarray/numpy measured once); "
            "write sinks (item, attribute, .values, augmented assignment, in-place methods, out=, inplace=True) record "
            "effects, summaries are propagated through resolved calls (accessor hops, plugins, constructors, apply_ufunc "
            "kernels) to a fixed point; obligation per public entry point = no effect on its own parameters/receiver. "
            "Plus a clang-AST rule that the C routine never stores through its input buffer.")


def python_part(repo, rep, eng, iters, RULE, only=None):
    entries = [fi for fi in repo.all_funcs() if is_entry(fi) and (only is None or only(fi))]
    nparams = 0
    nviol = 0
    for fi in entries:
        s = eng.summ[fi.qualname]
        own = set()
        for p in fi.params:
            own.add(f"p:{p}")
        if fi.node.args.vararg:
            own.add(f"p:*{fi.node.args.vararg.arg}")
        if fi.node.args.kwarg:
            own.add(f"p:**{fi.node.args.kwarg.arg}")
        own.add("self")
        nparams += len(own) - 1
        bad = {}
        for (r, rp), eff in sorted(s.effects.items()):
            if r not in own:
                continue
            if fi.qualname in EXEMPT or (fi.qualname, r) in EXEMPT_PARAMS:
                continue
            if fi.cls is not None and fi.name == "__init__":
                continue
            # `self` of ordinary (non-accessor) classes is the object's own state
            bad.setdefault((eff.file, eff.line, eff.construct), []).append((r, rp, eff))
        for (f, ln, cons), lst in bad.items():
            r, rp, eff = lst[0]
            roots = sorted({x[0] for x in lst})
            places = sorted({x[1] for x in lst})
            nviol += 1
            rep.fail(RULE, eff.file, eff.line, fi.qualname,
                     f"{cons}  [writes {','.join(places)} of {','.join(roots)}]",
                     f"{eff.what}; the written place may be shared with caller-owned {', '.join(roots)} of "
                     f"{fi.short}", path=list(eff.via))
        if not bad:
            rep.ok(RULE, f"{fi.file}:{fi.node.lineno} {fi.short}",
                   f"{len(own) - 1} parameter(s) + receiver: no write effect reaches them",
                   f"{len(s.effects)} effect(s) in summary, all on fresh or own objects", nontrivial=bool(s.effects) or len(own) > 1)
    if only is not None:
        return entries
    rep.analysed.update({
        "modules": len(repo.modules), "functions": len(eng.funcs), "entry_points": len(entries),
        "parameters": nparams, "sinks_examined": eng.sinks, "fixpoint_iterations": iters,
        "resolved_calls": eng.resolved, "unresolved_calls": eng.unresolved,
    })
    rep.floor(RULE, "entry points", len(entries), 150)
    rep.floor(RULE, "write sinks examined", eng.sinks, 150)
    for q, why in EXEMPT.items():
        rep.note(f"exempt by table: {q}: {why}")

    return entries


def native_part(repo, rep):
    # ---- R-C17-2 ------------------------------------------------------------------------------
    core = CFile(os.path.join(repo.root, SPECPART_C))
    params = core.params("partition")
    if not params:
        raise AnalysisError("partition() has no parameters")
    inbuf = params[0]
    nst = 0
    for n in core.walk(core.body("partition")):
        k = n.get("kind")
        if k in ("BinaryOperator", "CompoundAssignOperator") and n.get("opcode", "").endswith("="):
            if n["opcode"] in ("==", "!=", "<=", ">="):
                continue
            lhs = ex(n["inner"][0])
            nst += 1
            if _rooted_in(lhs, inbuf):
                rep.fail("R-C17-2", SPECPART_C, core.line(n), "partition", core.text(n)[:120],
                         f"store through the input buffer parameter '{inbuf}': np.ascontiguousarray makes no copy of a "
                         "C-contiguous float32 array, so this writes the caller's spectrum")
        if k == "UnaryOperator" and n.get("opcode") in ("++", "--"):
            if _rooted_in(ex(n["inner"][0]), inbuf):
                rep.fail("R-C17-2", SPECPART_C, core.line(n), "partition", core.text(n)[:120],
                         f"in-place update through the input buffer parameter '{inbuf}'")
        if k == "CallExpr":
            t = ex(n)
            for a in t[2]:
                if a == ("var", inbuf) and show(t[1]) not in ("fmin", "fmax"):
                    rep.fail("R-C17-2", SPECPART_C, core.line(n), "partition", core.text(n)[:120],
                             f"input buffer '{inbuf}' escapes to {show(t[1])}()")
    rep.ok("R-C17-2", SPECPART_C, f"{nst} stores in partition()", f"none goes through parameter '{inbuf}'")
    wrap = CFile(os.path.join(repo.root, WRAP_C), filt="specpart", need_python=True)
    # the pointer obtained from PyArray_DATA(specin) is only passed as first argument of partition()
    inptr = None
    # the input array = the local whose address is handed to PyArg_ParseTuple
    inarr = None
    for n in wrap.walk(wrap.func("specpart")):
        if n.get("kind") == "CallExpr":
            t = ex(n)
            if show(t[1]).startswith("PyArg_Parse"):
                for a in t[2]:
                    if a[0] == "un" and a[1] == "&" and a[2][0] == "var" and "Type" not in a[2][1] and inarr is None:
                        inarr = a[2][1]
    if inarr is None:
        raise AnalysisError("wrapper: PyArg_ParseTuple(.., &<array>, ..) not found (idiom changed)")
    for n in wrap.walk(wrap.func("specpart")):
        if n.get("kind") == "BinaryOperator" and n.get("opcode") == "=":
            rhs = ex(n["inner"][1])
            if rhs[0] == "call" and show(rhs[1]) == "PyArray_DATA" and rhs[2] and rhs[2][0] == ("var", inarr):
                inptr = ex(n["inner"][0])
    if inptr is None:
        # no named pointer: PyArray_DATA(specin) is used where it is needed.  Every occurrence must be an argument of partition() (first
        # position) - never the target of a store, never handed to anything else
        uses = 0
        for n in wrap.walk(wrap.func("specpart")):
            if n.get("kind") == "CallExpr" and show(ex(n)[1]) == "PyArray_DATA" and ex(n)[2] and ex(n)[2][0] == ("var", inarr):
                uses += 1
                p_ = n.get("_p")
                while p_ is not None and p_.get("kind") in ("ImplicitCastExpr", "CStyleCastExpr", "ParenExpr"):
                    p_ = p_.get("_p")
                okuse = p_ is not None and p_.get("kind") == "CallExpr" and show(ex(p_)[1]) == "partition" and \
                    any(x is n for x in wrap.walk(p_["inner"][1]))
                if not okuse:
                    rep.fail("R-C17-2", WRAP_C, wrap.line(n), "specpart", wrap.text(p_ if p_ is not None else n)[:120],
                             "the input array's data pointer is used outside the first argument of partition()")
        if not uses:
            raise AnalysisError("wrapper: PyArray_DATA(specin) not found (idiom changed)")
        rep.ok("R-C17-2", WRAP_C, f"PyArray_DATA({inarr}) x{uses}", "only passed as the input buffer of partition()")
        return
    if inptr[0] != "var":
        raise AnalysisError("wrapper: assignment of PyArray_DATA(specin) not found (idiom changed)")
    for n in wrap.walk(wrap.func("specpart")):
        if n.get("kind") in ("BinaryOperator", "CompoundAssignOperator") and n.get("opcode", "").endswith("=") \
                and n["opcode"] not in ("==", "!=", "<=", ">="):
            lhs = ex(n["inner"][0])
            if lhs != inptr and _rooted_in(lhs, inptr[1]):
                rep.fail("R-C17-2", WRAP_C, wrap.line(n), "specpart", wrap.text(n)[:120],
                         "the wrapper writes into the input array's data")
    rep.ok("R-C17-2", WRAP_C, f"input pointer '{inptr[1]}'", "only read / passed to partition()")


def _rooted_in(t, name):
    if t[0] == "var":
        return t[1] == name
    if t[0] == "idx":
        return _rooted_in(t[1], name)
    if t[0] == "un" and t[1] in ("*",):
        return _mentions(t[2], name)
    if t[0] == "bin":
        return False
    return False


def _mentions(t, name):
    if t[0] == "var":
        return t[1] == name
    return any(_mentions(x, name) for x in t[1:] if isinstance(x, tuple) and x and isinstance(x[0], str))
