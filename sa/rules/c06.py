"""C06 - each spectrum in a dataset is processed independently of the others."""
import ast

from ..model import UNKNOWN, call_name, kwarg, unparse
from ..report import AnalysisError
from ..ufunc import sites

REDUCTIONS = {"sum", "mean", "max", "min", "argmax", "argmin", "std", "var", "cumsum", "cumprod", "prod", "all", "any",
              "median", "idxmax", "idxmin", "integrate", "quantile", "count", "rank"}
ORDERING = {"sortby", "rolling", "interp", "diff", "shift", "roll", "cumulative", "coarsen", "differentiate"}
DATA_PARAMS = {"dset", "darr", "ds", "spec", "spectra", "other", "efth", "wspd", "wdir", "dpt", "depth", "dep", "hs", "tp",
               "dm", "dspr", "gamma", "alpha", "fp", "gw", "dpm", "dpspr", "fm", "cond", "spectrum", "water_depth"}
COORD_PARAMS = {"freq", "dir", "dirs", "freqs"}
EXEMPT_FUNCS = {
    "wavespectra.specarray.SpecArray.hmax": "excluded by the property: the wave count is a function of the whole time axis",
    "wavespectra.specarray.SpecArray.plot": "plotting, not a statistic/transform",
    "wavespectra.specarray.SpecArray.rmse": "binwise error between two spectra sets; reduces the named spectral dims only",
}


def in_scope(fi):
    if fi.qualname in EXEMPT_FUNCS:
        return False
    if fi.cls is not None and fi.cls.name in ("SpecArray", "Partition"):
        return True
    if fi.module.name == "wavespectra.core.xrstats":
        return True
    return fi.qualname in ("wavespectra.core.utils.regrid_spec", "wavespectra.core.utils.smooth_spec",
                           "wavespectra.core.utils.scaled", "wavespectra.core.utils.waveage", "wavespectra.core.utils.celerity",
                           "wavespectra.core.utils.wavelen", "wavespectra.core.utils.wavenuma")


class Prov:
    """data / coord / None provenance of names inside one function."""

    def __init__(self, repo, fi):
        self.repo, self.fi = repo, fi
        self.env = {}
        a = fi.node.args
        for p in a.posonlyargs + a.args + a.kwonlyargs:
            if p.arg in DATA_PARAMS:
                self.env[p.arg] = "data"
            elif p.arg in COORD_PARAMS:
                self.env[p.arg] = "coord"
        F, D = repo.attrs.FREQNAME, repo.attrs.DIRNAME
        self.spectral = {F, D}
        self.coordnames = {F, D, repo.attrs.TIMENAME, repo.attrs.SITENAME, repo.attrs.LATNAME, repo.attrs.LONNAME}
        # one forward pass over assignments in source order (enough for straight-line statistic code)
        for n in ast.walk(fi.node):
            pass
        self._scan(fi.node.body)

    def _scan(self, stmts):
        for s in stmts:
            if isinstance(s, ast.Assign):
                p = self.of(s.value)
                for t in s.targets:
                    for nm in self._names(t):
                        if p is not None or nm not in self.env:
                            self.env[nm] = p
            elif isinstance(s, ast.AugAssign) and isinstance(s.target, ast.Name):
                p = self.of(s.value)
                if p == "data":
                    self.env[s.target.id] = "data"
            elif isinstance(s, (ast.If, ast.For, ast.While, ast.With, ast.Try)):
                for f in ("body", "orelse", "finalbody"):
                    self._scan(getattr(s, f, []) or [])
                for h in getattr(s, "handlers", []) or []:
                    self._scan(h.body)

    def _names(self, t):
        if isinstance(t, ast.Name):
            yield t.id
        elif isinstance(t, (ast.Tuple, ast.List)):
            for e in t.elts:
                yield from self._names(e)

    def is_coord_access(self, e):
        if isinstance(e, ast.Attribute) and e.attr in self.coordnames:
            return True
        if isinstance(e, ast.Subscript):
            v = self.repo.const(self.fi.module, e.slice)
            if isinstance(v, str) and v in self.coordnames:
                return True
        return False

    def of(self, e):
        if e is None:
            return None
        if isinstance(e, ast.Constant):
            return None
        if isinstance(e, ast.Name):
            return self.env.get(e.id)
        if self.is_coord_access(e):
            return "coord"
        if isinstance(e, ast.Attribute):
            if isinstance(e.value, ast.Name) and e.value.id == "self":
                if e.attr in ("_obj", "dset"):
                    return "data"
                if e.attr in ("df", "dd", "freq", "dir"):
                    return "coord"
                return None
            if e.attr in ("values", "data", "spec", "T", "real"):
                return self.of(e.value)
            if e.attr in ("size", "shape", "ndim", "dims", "sizes", "name", "attrs", "dtype"):
                return None
            if e.attr in ("df", "dd"):
                return "coord"
            return self.of(e.value)
        if isinstance(e, ast.Subscript):
            return self.of(e.value)
        if isinstance(e, ast.BinOp):
            a, b = self.of(e.left), self.of(e.right)
            return "data" if "data" in (a, b) else (a or b)
        if isinstance(e, ast.UnaryOp):
            return self.of(e.operand)
        if isinstance(e, (ast.GeneratorExp, ast.ListComp, ast.SetComp)) and len(e.generators) == 1 and isinstance(e.generators[0].target, ast.Name):
            # any(f(v) for v in (wspd, wdir, dpt)): the loop variable has the provenance of the elements it ranges over
            g = e.generators[0]
            tv = g.target.id
            saved = self.env.get(tv)
            itp = self.of(g.iter)
            if itp is not None:
                self.env[tv] = itp
            try:
                return self.of(e.elt)
            finally:
                if saved is None:
                    self.env.pop(tv, None)
                else:
                    self.env[tv] = saved
        if isinstance(e, ast.Compare) and all(isinstance(o, (ast.Is, ast.IsNot)) for o in e.ops):
            return None          # identity tests (x is None) look at the object, not at its values
        if isinstance(e, ast.Compare):
            ps = [self.of(e.left)] + [self.of(c) for c in e.comparators]
            return "data" if "data" in ps else next((p for p in ps if p), None)
        if isinstance(e, ast.BoolOp):
            ps = [self.of(v) for v in e.values]
            return "data" if "data" in ps else next((p for p in ps if p), None)
        if isinstance(e, ast.IfExp):
            ps = [self.of(e.body), self.of(e.orelse)]
            return "data" if "data" in ps else next((p for p in ps if p), None)
        if isinstance(e, (ast.Tuple, ast.List)):
            ps = [self.of(x) for x in e.elts]
            return "data" if "data" in ps else next((p for p in ps if p), None)
        if isinstance(e, ast.Call):
            nm = call_name(e)
            if isinstance(e.func, ast.Attribute):
                recv = self.of(e.func.value)
                m = e.func.attr
                # accessor statistics of data are data
                if recv is not None:
                    return recv
                if isinstance(e.func.value, ast.Name) and e.func.value.id == "self":
                    # self.hs(), self.oned(), self.momf() ... statistics of the wrapped data
                    if m in ("_peak",):
                        return "data"
                    if m.startswith("_") or m in ("celerity", "wavelen"):
                        return None
                    return "data"
            ps = [self.of(a) for a in e.args] + [self.of(k.value) for k in e.keywords]
            if nm in ("any", "all") and e.args and isinstance(e.args[0], (ast.GeneratorExp, ast.ListComp)):
                return self.of(e.args[0])
            if nm in ("len", "range", "isinstance", "str", "list", "sorted", "set", "getattr", "any", "all") :
                return None
            if "data" in ps:
                return "data"
            return next((p for p in ps if p), None)
        return None


def reductions(repo, rep):
    nred = ncollapse = 0
    for fi in repo.all_funcs():
        if not in_scope(fi):
            continue
        pv = Prov(repo, fi)
        mod = fi.module
        for n in ast.walk(fi.node):
            if isinstance(n, ast.Call) and isinstance(n.func, ast.Attribute) and (n.func.attr in REDUCTIONS or n.func.attr in ORDERING):
                m = n.func.attr
                recv = n.func.value
                if unparse(recv).split(".")[0] in ("np", "numpy", "math", "xr", "itertools"):
                    continue
                if isinstance(recv, ast.Call) and isinstance(recv.func, ast.Attribute) and recv.func.attr in ("rolling", "coarsen", "cumulative"):
                    continue      # window reduction; the rolling() call itself is checked for its dimensions
                p = pv.of(recv)
                if p != "data":
                    continue
                nred += 1
                dim = kwarg(n, "dim")
                if dim is None and n.args and m not in ("interp",):
                    dim = n.args[0]
                dims = None
                if m in ("interp", "rolling", "roll", "shift", "coarsen"):
                    ks = [k.arg for k in n.keywords if k.arg not in (None, "center", "min_periods", "assume_sorted", "kwargs", "method", "roll_coords", "fill_value", "dim")]
                    dims = set(ks)
                    d2 = kwarg(n, "dim")
                    if d2 is not None:
                        v = repo.const(mod, d2)
                        if isinstance(v, dict):
                            dims |= set(v)
                        elif isinstance(d2, ast.Name):
                            # local dict literal
                            for a in ast.walk(fi.node):
                                if isinstance(a, ast.Assign) and isinstance(a.targets[0], ast.Name) and a.targets[0].id == d2.id:
                                    v2 = repo.const(mod, a.value)
                                    if isinstance(v2, dict):
                                        dims |= set(v2)
                    for k in n.keywords:
                        if k.arg is None:
                            v = repo.const(mod, k.value)
                            if isinstance(v, dict):
                                dims |= set(v)
                elif dim is not None:
                    v = repo.const(mod, dim)
                    if isinstance(v, str):
                        dims = {v}
                    elif isinstance(v, (list, tuple, frozenset)):
                        dims = set(v)
                    elif unparse(dim) == "self._spec_dims":
                        dims = set(pv.spectral)
                where = f"{fi.file}:{n.lineno} {fi.short}"
                if dims is None or not dims:
                    if m in ORDERING and dim is None and not dims:
                        continue
                    ncollapse += 1
                    rep.fail("R-C06-1", fi.file, n.lineno, fi.qualname, unparse(n)[:120],
                             f".{m}() on per-spectrum data without a named spectral dimension reduces over time/site/grid "
                             "dimensions too: every position's result then depends on all the other spectra")
                elif not dims <= pv.spectral:
                    rep.fail("R-C06-1", fi.file, n.lineno, fi.qualname, unparse(n)[:120],
                             f".{m}() over non-spectral dimension(s) {sorted(dims - pv.spectral)} mixes different spectra")
                else:
                    rep.ok("R-C06-1", where, unparse(n)[:90], f"over {sorted(dims)} only")
            # xr.dot / np reductions applied to data
            if isinstance(n, ast.Call) and call_name(n) in ("xr.dot", "xarray.dot"):
                if any(pv.of(a) == "data" for a in n.args):
                    nred += 1
                    d = kwarg(n, "dim") or kwarg(n, "dims")
                    v = repo.const(mod, d) if d is not None else None
                    ds = {v} if isinstance(v, str) else (set(v) if isinstance(v, (list, tuple)) else None)
                    if ds is None or not ds <= pv.spectral:
                        rep.fail("R-C06-1", fi.file, n.lineno, fi.qualname, unparse(n)[:120],
                                 "xr.dot without an explicit spectral dim contracts over every dimension the operands share "
                                 "(time/site included when e.g. depth varies per position)")
                    else:
                        rep.ok("R-C06-1", f"{fi.file}:{n.lineno} {fi.short}", unparse(n)[:90], f"contracts {sorted(ds)} only")
            if isinstance(n, ast.Call) and call_name(n).startswith("np.") and call_name(n)[3:] in REDUCTIONS | {"nansum", "nanmax", "nanmin", "nanmean", "trapz", "isfinite", "isnan"}:
                pass
        # batch-collapsing scalar conversions and branch conditions on data
        for n in ast.walk(fi.node):
            if isinstance(n, ast.Call) and isinstance(n.func, ast.Name) and n.func.id in ("float", "int", "bool") and n.args:
                if pv.of(n.args[0]) == "data":
                    rep.fail("R-C06-2", fi.file, n.lineno, fi.qualname, unparse(n)[:100],
                             f"{n.func.id}() of per-spectrum data collapses the dataset to one number (fails or mixes positions "
                             "for more than one spectrum)")
            if isinstance(n, ast.Call) and isinstance(n.func, ast.Attribute) and n.func.attr == "item" and pv.of(n.func.value) == "data":
                rep.fail("R-C06-2", fi.file, n.lineno, fi.qualname, unparse(n)[:100], ".item() of per-spectrum data")
            if isinstance(n, (ast.If, ast.While, ast.IfExp)):
                if pv.of(n.test) == "data" and not _is_none_test(n.test):
                    rep.fail("R-C06-2", fi.file, n.lineno, fi.qualname, "if " + unparse(n.test)[:100],
                             "a Python branch on per-spectrum data takes one decision for the whole dataset: one spectrum "
                             "(e.g. a degenerate one) changes what is done to all the others")
                else:
                    rep.ok("R-C06-2", f"{fi.file}:{n.lineno} {fi.short}", "if " + unparse(n.test)[:70], "condition on arguments / coordinates only", nontrivial=False)
    rep.floor("R-C06-1", "reductions / ordering operations on per-spectrum data", nred, 30)
    return nred


def _is_none_test(t):
    """`x is None`, `x is not None`, isinstance(...), `name in obj.dims`, hasattr are object-level, not value-level."""
    for n in ast.walk(t):
        if isinstance(n, ast.Compare):
            if not all(isinstance(o, (ast.Is, ast.IsNot, ast.In, ast.NotIn)) for o in n.ops):
                # comparisons whose operands are plain parameters/constants are fine; data comparisons are not
                return False
        if isinstance(n, ast.Call) and call_name(n) not in ("isinstance", "hasattr", "callable", "len", "any", "all"):
            return False
    return True


def ufuncs(repo, rep):
    F, D = repo.attrs.FREQNAME, repo.attrs.DIRNAME
    n = 0
    for s in sites(repo):
        n += 1
        allowed = {F, D}
        if s.fi.module.name.endswith("tracking"):
            allowed = {repo.attrs.PARTNAME, repo.attrs.TIMENAME}
        if s.vectorize is not True:
            rep.fail("R-C06-3", s.fi.file, s.line, s.fi.qualname, f"apply_ufunc(..., vectorize={s.vectorize})",
                     "without vectorize=True the numpy kernel sees all spectra at once")
        icd = s.input_core_dims
        bad = [d for dims in (icd if isinstance(icd, list) else []) for d in dims if d not in allowed]
        if bad:
            rep.fail("R-C06-3", s.fi.file, s.line, s.fi.qualname, f"input_core_dims={icd}",
                     f"non-spectral core dimension(s) {sorted(set(bad))}: the kernel receives several spectra in one call")
        elif s.vectorize is True:
            rep.ok("R-C06-3", s.where, f"core dims {icd}", f"vectorised over everything but {sorted(allowed)}")
        if s.exclude_dims is not None:
            v = repo.const(s.module, s.exclude_dims)
            if v is not UNKNOWN and not set(v) <= allowed:
                rep.fail("R-C06-3", s.fi.file, s.line, s.fi.qualname, unparse(s.exclude_dims), "exclude_dims names a batch dimension")
    rep.floor("R-C06-3", "apply_ufunc sites", n, 12)


def accessor_agreement(repo, rep):
    sd = repo.cls("wavespectra.specdataset.SpecDataset")
    sa = repo.cls("wavespectra.specarray.SpecArray")
    pub_sa = {m for m in sa.methods if not m.startswith("_")}
    shadow = [m for m in sd.methods if not m.startswith("_") and m in pub_sa]
    for m in shadow:
        fi = sd.methods[m]
        rep.fail("R-C06-5", fi.file, fi.node.lineno, fi.qualname, f"def {m}", "SpecDataset defines its own version of a SpecArray method: "
                 "the Dataset accessor may disagree with the accessor of its efth variable")
    for name, fi in repo.plugins().items():
        if name in pub_sa:
            rep.fail("R-C06-5", fi.file, fi.node.lineno, fi.qualname, f"def {name}", "output plugin shadows a SpecArray method")
    # the re-export loop lives in _wrapper (or, inlined, in __init__): found by what it does, not by its name
    spec = repo.attrs.SPECNAME
    ok = False
    w = None
    for cand in sd.methods.values():
        if any(isinstance(n, ast.Call) and call_name(n) == "setattr" for n in ast.walk(cand.node)):
            w = w or cand
            for n in ast.walk(cand.node):
                if isinstance(n, ast.Call) and call_name(n) == "getattr" and n.args:
                    a0 = n.args[0]
                    if isinstance(a0, ast.Attribute) and a0.attr == "spec" and isinstance(a0.value, ast.Subscript) and \
                            unparse(a0.value.value) == "self.dset" and repo.const(cand.module, a0.value.slice) == spec:
                        ok = True
                        w = cand
    if w is None:
        raise AnalysisError("SpecDataset: the loop re-exporting the array accessor's methods (setattr) was not found")
    if ok:
        rep.ok("R-C06-5", f"{w.file}:{w.node.lineno} SpecDataset.{w.name}", "methods re-exported from self.dset[efth].spec",
               f"{len(pub_sa)} SpecArray members, none shadowed by SpecDataset or a plugin")
    else:
        rep.fail("R-C06-5", w.file, w.node.lineno, w.qualname, "_wrapper", "the re-exported methods are not those of self.dset[efth].spec")


def run(repo, rep, tier):
    from .round7b import hygiene
    hygiene(repo, rep, "C06", ('wavespectra.specarray', 'wavespectra.core.xrstats', 'wavespectra.core.fitting'), falsy=True)
    rep.rule("R-C06-14", "(shared with C02) no statistic drops coordinates depending on the data of ALL spectra (dropna / where(drop=True)): which bins exist "
                         "for one spectrum would depend on the others")
    from .round7 import no_data_dependent_shape
    no_data_dependent_shape(repo, rep, "R-C06-14")
    rep.rule("R-C06-12", "(shared with C07) the wrapper holds the GIL around partition(): with the GIL released, spectra of different chunks are processed "
                         "concurrently in the same static work arrays and each one's partitions depend on the others")
    from .c07 import gil_held as _gil
    _gil(repo, rep, "R-C06-12")
    rep.rule("R-C06-13", "(shared) every apply_ufunc aligns its operands by label (default join) and hands them to the kernel in the slots of the parameters they "
                         "are named after: a positional pairing gives a spectrum the wind / depth / threshold of another position")
    from .shared import ufunc_forwarding as _fwd
    rep.floor("R-C06-13", "apply_ufunc sites", _fwd(repo, rep, "R-C06-13"), 12)
    rep.rule("R-C06-11", "(shared with C02) every peak kernel gets its index from the one locator applied to the direction-integrated spectrum, whatever "
                         "the number of non-spectral dimensions: a shortcut for single spectra makes a spectrum's peak depend on whether it is "
                         "processed alone or inside a dataset")
    from .c02 import peak_locator as _pl
    from .c07 import _Relabel
    _pl(repo, _Relabel(rep, "R-C06-11"))
    rep.rule("R-C06-10", "(shared with C07) the label map of one spectrum is a fresh array, not shared with the map of the next spectrum: no function-static or file-scope object in specpart_wrap.c other than the method / module tables")
    from . import cnative as _cn
    _cn.wrapper_state(_cn.wrap(repo), rep, "R-C06-10")
    rep.rule("R-C06-1", "every reduction / cumulative / rolling / interp / sort on per-spectrum data names its dimension(s) and they "
                        "are spectral (freq, dir)")
    rep.rule("R-C06-2", "no float()/int()/.item() of per-spectrum data and no Python branch whose condition is per-spectrum data")
    rep.rule("R-C06-3", "every apply_ufunc is vectorised with spectral core dims only (tracking: part, time)")
    rep.rule("R-C06-5", "the Dataset accessor re-exports the array accessor of its efth variable and shadows nothing")
    rep.rule("R-C06-6", "(shared) the C work buffers carry nothing from one spectrum to the next, and each call reads exactly its "
                        "own C-contiguous spectrum")
    reductions(repo, rep)
    ufuncs(repo, rep)
    accessor_agreement(repo, rep)
    from . import cnative
    from .shared import contiguity
    cnative.statics(repo, rep, "R-C06-6")
    rep.rule("R-C06-9", "(shared with C05) no positional axis / Ellipsis index / positional broadcast on the bare data of a labelled array in "
                        "label-level code: with leading time / site dimensions the last stored axis is not the spectral one the code assumes")
    from .c05 import raw_positional
    raw_positional(repo, rep, "R-C06-9")
    rep.rule("R-C06-8", "coordinates are only re-labelled along spectral dimensions (or restored wholesale from the very object the data "
                        "came from): re-labelling a batch dimension with another object's labels pairs spectra by storage position")
    nac = 0
    SPECT = {repo.attrs.FREQNAME, repo.attrs.DIRNAME}
    for fi8 in repo.all_funcs():
        if not (fi8.module.name in ("wavespectra.specarray", "wavespectra.core.utils", "wavespectra.core.xrstats", "wavespectra.partition.partition")):
            continue
        for c8 in ast.walk(fi8.node):
            if not (isinstance(c8, ast.Call) and isinstance(c8.func, ast.Attribute) and c8.func.attr == "assign_coords"):
                continue
            nac += 1
            ok8, why8 = False, ""
            keys = []
            if c8.keywords and not c8.args:
                keys = [k.arg for k in c8.keywords]
                ok8 = all(k in SPECT for k in keys if k) and None not in keys
            elif len(c8.args) == 1 and isinstance(c8.args[0], ast.Dict):
                keys = [repo.const(fi8.module, k) for k in c8.args[0].keys]
                ok8 = all(isinstance(k, str) and k in SPECT for k in keys)
            elif len(c8.args) == 1 and isinstance(c8.args[0], ast.Attribute) and c8.args[0].attr == "coords":
                # wholesale restore: allowed from the function's own input object (labels and data have the same origin)
                ok8 = isinstance(c8.args[0].value, ast.Name) and c8.args[0].value.id in fi8.params[:1]
            if ok8:
                rep.ok("R-C06-8", f"{fi8.file}:{c8.lineno} {fi8.short}", unparse(c8)[:80], "spectral dimension(s) only" if keys else "input's own coordinates restored")
            else:
                rep.fail("R-C06-8", fi8.file, c8.lineno, fi8.qualname, unparse(c8)[:110],
                         "this re-labels dimensions that are not provably spectral (freq / dir) with labels taken from elsewhere: along time / site / ... "
                         "label alignment turns into positional pairing, so each spectrum is combined with whatever sits at the same index",
                         anchor=f"assign_coords:{fi8.short}")
    rep.floor("R-C06-8", "assign_coords sites", nac, 5)
    rep.rule("R-C06-7", "(shared with C18) the accessor keeps no value derived from the data: a memo on the xarray-cached accessor "
                        "makes a spectrum's result depend on what the object held before an in-place edit, i.e. on other data than the spectrum itself")
    from ..effects import Engine
    from .c18 import accessor_state
    eng7 = Engine(repo)
    eng7.solve()
    for cq in ("wavespectra.specarray.SpecArray",):
        cls7 = repo.cls(cq)
        for f, ln, fn, cons, why in accessor_state(repo, eng7, cls7):
            rep.fail("R-C06-7", f, ln, fn, cons, why + ": batched results no longer equal the result of the spectrum extracted on its own once the object was edited in place")
        rep.ok("R-C06-7", f"{cls7.module.relpath} {cls7.name}", f"{len(cls7.methods)} methods", "no derived state stored on the accessor")
    from .c18 import partition_state
    for f_, ln_, fn_, cons_, why_, anch_ in partition_state(repo):
        rep.fail("R-C06-7", f_, ln_, fn_, cons_, why_ + ": the Dataset accessor then disagrees with the array accessor after an in-place edit", anchor=anch_)
    contiguity(repo, rep, "R-C06-6")
    rep.rule("R-C06-15", "(shared with C07 / C18) the per-spectrum kernels of apply_ufunc and what they call write no module-level object: a memo or a 'last "
                         "solution' kept there makes the result of one spectrum depend on the spectra processed before it")
    from .round7 import kernel_shared_state
    kernel_shared_state(repo, rep, "R-C06-15", eng7)
    for q, why in EXEMPT_FUNCS.items():
        rep.note(f"out of scope: {q}: {why}")
    rep.trust("Python ast; xarray semantics: a reduction without dim reduces every dimension")
    rep.assume("parameters named " + ", ".join(sorted(DATA_PARAMS)) + " may carry batch dimensions (per-spectrum data)")
    rep.note("not decided: bit-exact equality batched vs single (floating-point association in reductions)")
    return ("Static provenance typing (per-spectrum data / shared coordinate / argument) of every xarray-level statistic and "
            "transform: each reduction or ordering operation on data must name spectral dimensions only, no scalar conversion "
            "or Python branch may depend on data; every apply_ufunc is vectorised over non-spectral dims; Dataset accessor "
            "agreement; and the native routine's buffers are re-initialised per call (shared C rules).")
