"""More cross-cutting rules of round 7 (kept apart so that adding them does not disturb a corpus run in progress)."""
import ast

from ..model import unparse
from ..report import AnalysisError

# methods of xarray / pandas / numpy objects that return a NEW object and leave the receiver unchanged
PURE = {"fillna", "where", "sortby", "transpose", "chunk", "rename", "assign_coords", "astype", "sel", "isel", "drop_vars", "drop", "dropna", "expand_dims",
        "squeeze", "reset_coords", "set_coords", "assign", "assign_attrs", "interp", "interp_like", "reindex", "stack", "unstack", "clip", "round", "copy",
        "swap_dims", "sort_values", "reset_index", "set_index", "replace", "reshape", "swapaxes", "roll", "pad", "mean", "sum", "cumsum", "drop_duplicates",
        "drop_isel", "drop_sel", "rechunk", "persist", "compute", "combine_first", "interpolate_na", "ffill", "bfill", "shift", "diff", "sortby"}


def _discards(tree):
    out = []
    for s in ast.walk(tree):
        if isinstance(s, ast.Expr) and isinstance(s.value, ast.Call) and isinstance(s.value.func, ast.Attribute) and s.value.func.attr in PURE:
            if any(k.arg == "inplace" and isinstance(k.value, ast.Constant) and k.value.value is True for k in s.value.keywords):
                continue
            if isinstance(s.value.func.value, ast.Name) and s.value.func.value.id in ("np", "numpy", "plt", "logger", "logging", "warnings", "os", "shutil"):
                continue
            out.append(s)
    return out


def discarded_pure_results(repo, rep, rule, prefixes, floor=1):
    """`x.fillna(0.0)` as a statement does nothing: these methods return a new object.  A step of the documented processing (zero filling,
    sorting, re-chunking, re-labelling, selection) that is written as a bare expression statement is silently not applied."""
    probe = ast.parse("def f(d):\n    d.fillna(0.0)\n    d.drop(columns=c, inplace=True)\n    e = d.sortby('dir')\n    return e")
    if len(_discards(probe)) != 1:
        raise AnalysisError(f"{rule}: detector does not fire exactly on its positive example")
    n = 0
    for fi in repo.all_funcs():
        if not fi.module.name.startswith(tuple(prefixes)):
            continue
        n += 1
        for s in _discards(fi.node):
            rep.fail(rule, fi.file, s.lineno, fi.qualname, unparse(s)[:100],
                     f"the result of .{s.value.func.attr}() is discarded: the method returns a new object and leaves its receiver as it was, so this step "
                     "of the processing is not applied to what the function goes on to use / return", anchor=f"discarded:{fi.short}:{s.value.func.attr}")
    rep.ok(rule, "scope " + ", ".join(prefixes)[:80], f"{n} functions", "no result of a non-mutating method is discarded")
    rep.floor(rule, "functions scanned for discarded results", n, floor)


def hygiene(repo, rep, prop, prefixes, falsy=True):
    """The two package-wide slips that two independent agents each produced in round 7, checked in the modules behind property `prop`."""
    from .round7 import falsy_zero_defaulting
    rep.rule(f"R-{prop}-h1", "no result of a non-mutating xarray / pandas / numpy method is discarded (a processing step written as a bare statement is not applied)")
    discarded_pure_results(repo, rep, f"R-{prop}-h1", prefixes)
    if falsy:
        rep.rule(f"R-{prop}-h2", "no numeric parameter is defaulted with `p or <non-zero constant>` (a caller's 0 would be replaced)")
        falsy_zero_defaulting(repo, rep, f"R-{prop}-h2", prefixes)


# ---------------------------------------------------------------------------------------------------------------------
def _truthy_guard_sites(fn_node):
    """`if p and q and p <= q: raise` - parameters tested by truthiness in a validation guard that also compares them."""
    a = fn_node.args
    params = {x.arg for x in a.posonlyargs + a.args + a.kwonlyargs} - {"self", "cls"}
    out = []
    for s in ast.walk(fn_node):
        if not (isinstance(s, ast.If) and s.body and all(isinstance(x, ast.Raise) for x in s.body)):
            continue
        t = s.test
        if not (isinstance(t, ast.BoolOp) and isinstance(t.op, ast.And)):
            continue
        bare = [v.id for v in t.values if isinstance(v, ast.Name) and v.id in params]
        cmpn = {x.id for v in t.values if isinstance(v, ast.Compare) and not any(isinstance(o, (ast.Is, ast.IsNot)) for o in v.ops)
                for x in ast.walk(v) if isinstance(x, ast.Name)}
        hit = [b for b in bare if b in cmpn]
        if hit:
            out.append((s, hit))
    return out


def truthiness_guards(repo, rep, rule, prefixes):
    probe = ast.parse("def f(a=None, b=None):\n    if a and b and b <= a:\n        raise ValueError('x')\n    if a is not None and b is not None and b <= a:\n        raise ValueError('y')").body[0]
    if len(_truthy_guard_sites(probe)) != 1:
        raise AnalysisError(f"{rule}: detector does not fire exactly on its positive example")
    n = ng = 0
    for fi in repo.all_funcs():
        if not fi.module.name.startswith(tuple(prefixes)):
            continue
        n += 1
        for s, hit in _truthy_guard_sites(fi.node):
            rep.fail(rule, fi.file, s.lineno, fi.qualname, f"if {unparse(s.test)[:90]}: raise",
                     f"the validation tests {hit} by truthiness: a limit of 0 (north, 0 Hz) is falsy, so the comparison is skipped and an empty or reversed band is "
                     "processed silently instead of being rejected; test `is not None`", anchor=f"truthy-guard:{fi.short}")
        ng += sum(1 for s in ast.walk(fi.node) if isinstance(s, ast.If) and s.body and all(isinstance(x, ast.Raise) for x in s.body))
    rep.ok(rule, "scope", f"{n} functions, {ng} raising guards", "no numeric parameter is tested by truthiness in a guard that compares it")
    rep.floor(rule, "raising guards examined", ng, 5)


# ---------------------------------------------------------------------------------------------------------------------
def _isclose_sites(tree):
    out = []
    for c in ast.walk(tree):
        if isinstance(c, ast.Call) and ast.unparse(c.func).split(".")[-1] in ("isclose", "allclose") and len(c.args) >= 2:
            kw = {k.arg: k.value for k in c.keywords}
            atol = kw.get("atol", kw.get("abs_tol"))
            is_math = ast.unparse(c.func).startswith("math.")
            zero_atol = atol is not None and isinstance(atol, ast.Constant) and atol.value == 0
            if is_math and atol is None:
                # math.isclose has abs_tol = 0 by default: purely relative -> scale free (but never true against 0)
                continue
            if not zero_atol:
                out.append(c)
    return out


def hidden_tolerance(repo, rep, rule, prefixes):
    probe = ast.parse("a = np.isclose(q, 0.0)\nb = np.isclose(q, r, atol=0)\nc = math.isclose(q, r)")
    if len(_isclose_sites(probe)) != 1:
        raise AnalysisError(f"{rule}: detector does not fire exactly on its positive example")
    n = 0
    for fi in repo.all_funcs():
        if not fi.module.name.startswith(tuple(prefixes)):
            continue
        n += 1
        for c in _isclose_sites(fi.node):
            rep.fail(rule, fi.file, c.lineno, fi.qualname, unparse(c)[:100],
                     "np.isclose / allclose carry a default ABSOLUTE tolerance of 1e-8: on a quantity that scales with the spectrum (a density, a slope, a curvature) "
                     "the test changes its answer when the spectrum is multiplied by a constant, so periods / shape parameters are not scale invariant",
                     anchor=f"hidden-atol:{fi.short}")
    rep.ok(rule, "statistics", f"{n} functions", "no isclose / allclose with a non-zero absolute tolerance")
    rep.floor(rule, "functions scanned for hidden tolerances", n, 60)


# ---------------------------------------------------------------------------------------------------------------------
def float_keyed_collections(repo, rep, rule, prefixes):
    """Partitions are never collected in a dict / set keyed by a computed statistic: two partitions with bit-identical Hs (twin systems) collide and
    one of them - with all its energy - disappears."""
    def sites(tree):
        out = []
        for d in ast.walk(tree):
            if isinstance(d, ast.DictComp) and isinstance(d.key, ast.Call):
                out.append(d)
            if isinstance(d, ast.Assign) and len(d.targets) == 1 and isinstance(d.targets[0], ast.Subscript) and isinstance(d.targets[0].slice, ast.Call) \
                    and ast.unparse(d.targets[0].slice.func).split(".")[-1] in ("hs", "float", "sum", "max"):
                out.append(d)
        return out
    if len(sites(ast.parse("h = {hs(p): p for p in parts}\ng = {k: hs(p) for k, p in x}"))) != 1:
        raise AnalysisError(f"{rule}: detector does not fire exactly on its positive example")
    n = 0
    for fi in repo.all_funcs():
        if not fi.module.name.startswith(tuple(prefixes)):
            continue
        n += 1
        for d in sites(fi.node):
            rep.fail(rule, fi.file, d.lineno, fi.qualname, unparse(d)[:100],
                     "a collection keyed by a computed value: items whose keys coincide (two partitions of exactly equal Hs) overwrite each other, so a basin "
                     "the watershed found is dropped and its bins belong to no partition", anchor=f"value-keyed:{fi.short}")
    rep.ok(rule, "partition code", f"{n} functions", "no dict keyed by a computed statistic")
    rep.floor(rule, "functions scanned", n, 15)


# ---------------------------------------------------------------------------------------------------------------------
CONVERTERS = ("wavespectra.input.ww3.from_ww3", "wavespectra.input.ncswan.from_ncswan", "wavespectra.input.wwm.from_wwm",
              "wavespectra.input.era5.from_era5", "wavespectra.input.ndbc.from_ndbc")
_META = ("attrs", "encoding", "values", "data", "dtype")
_MASKS = ("where", "clip", "fillna", "mask", "dropna")


def converters_unconditional_linear(repo, rep, rule):
    """Model-native converters: (a) the conversion of the density and the re-labelling of the spectral coordinates (going-to -> coming-from turn,
    rad -> deg, sigma -> f) may depend on WHICH variables are present and on the function's arguments, never on metadata or data values (a file
    or an in-memory dataset without that attribute would silently keep its native convention); (b) the density is mapped linearly: no where /
    clip / fillna on it (a mask with a strict bound turns exact zeros into NaN)."""
    nconv = 0
    for q in CONVERTERS:
        fi = repo.try_func(q)
        if fi is None:
            raise AnalysisError(f"{rule}: {q} vanished")
        spec_names = ("SPECNAME", "DIRNAME", "FREQNAME")

        def is_conv(s):
            if isinstance(s, ast.Assign):
                txt = unparse(s)
                tgt = unparse(s.targets[0])
                if any(f"attrs.{n}" in tgt for n in ("SPECNAME",)) and "[" in tgt:
                    return "density"
                if isinstance(s.value, ast.Call) and unparse(s.value.func).endswith("assign_coords") and any(f"attrs.{n}" in txt for n in ("DIRNAME", "FREQNAME")):
                    return "coordinate"
            return None

        def walk(stmts, tests):
            nonlocal nconv
            for s in stmts:
                kind = is_conv(s)
                if kind:
                    nconv += 1
                    bad = [t for t in tests if any(isinstance(x, ast.Attribute) and x.attr in _META for x in ast.walk(t))
                           or any(isinstance(x, ast.Call) and isinstance(x.func, ast.Attribute) and x.func.attr in ("get", "max", "min", "any", "all", "item") for x in ast.walk(t))]
                    if bad:
                        rep.fail(rule, fi.file, s.lineno, fi.qualname, f"if {unparse(bad[0])[:70]}: {unparse(s)[:60]}",
                                 f"the {kind} conversion is applied only when a test on metadata / data values holds: a native dataset for which it does not (no such "
                                 "attribute, another spelling) silently keeps its native convention - e.g. going-to directions reported as coming-from",
                                 anchor=f"conditional-conversion:{fi.name}:{kind}")
                    else:
                        rep.ok(rule, f"{fi.file}:{s.lineno} {fi.name}", unparse(s)[:70], "unconditional, or guarded by the presence of variables / arguments only")
                    if kind == "density":
                        m = [unparse(c.func).split(".")[-1] for c in ast.walk(s.value) if isinstance(c, ast.Call) and unparse(c.func).split(".")[-1] in _MASKS]
                        # follow one level of local names
                        for nme in [x.id for x in ast.walk(s.value) if isinstance(x, ast.Name)]:
                            for d in ast.walk(fi.node):
                                if isinstance(d, ast.Assign) and len(d.targets) == 1 and isinstance(d.targets[0], ast.Name) and d.targets[0].id == nme:
                                    m += [unparse(c.func).split(".")[-1] for c in ast.walk(d.value) if isinstance(c, ast.Call) and unparse(c.func).split(".")[-1] in _MASKS]
                        if m:
                            rep.fail(rule, fi.file, s.lineno, fi.qualname, unparse(s)[:100],
                                     f"the native density passes through {m[0]}(): the conversion has to be linear (a constant factor); a value mask drops valid "
                                     "densities (a strict lower bound turns every exact zero into NaN)", anchor=f"masked-conversion:{fi.name}")
                if isinstance(s, ast.If):
                    walk(s.body, tests + [s.test])
                    walk(s.orelse, tests + [s.test])
                elif isinstance(s, (ast.For, ast.While, ast.With, ast.Try)):
                    walk(s.body, tests)
        walk(fi.node.body, [])
    rep.floor(rule, "density / coordinate conversion statements in the converters", nconv, 5)


# ---------------------------------------------------------------------------------------------------------------------
def is360_on_dataset(repo, rep, rule):
    """sel_*: the branch that handles 'query given in the other longitude convention than the dataset' is selected by the DATASET's convention:
    `_is_360` decides it on `dset_lons` (the converted query has no negative values for a box east of Greenwich whatever the dataset uses)."""
    n = 0
    for q in ("wavespectra.core.select.sel_bbox", "wavespectra.core.select.sel_nearest", "wavespectra.core.select.sel_idw"):
        fi = repo.func(q)
        local = {}
        for a in ast.walk(fi.node):
            if isinstance(a, ast.Assign) and len(a.targets) == 1 and isinstance(a.targets[0], ast.Name):
                local.setdefault(a.targets[0].id, []).append(a.value)
        for c in ast.walk(fi.node):
            if isinstance(c, ast.Call) and isinstance(c.func, ast.Attribute) and c.func.attr == "_is_360" and c.args:
                n += 1
                a0 = c.args[0]
                if isinstance(a0, ast.Name) and len(local.get(a0.id, [])) == 1:
                    a0 = local[a0.id][0]
                if isinstance(a0, ast.Attribute) and a0.attr == "dset_lons" or isinstance(a0, ast.Name) and a0.id == "dset_lons":
                    rep.ok(rule, f"{fi.file}:{c.lineno} {fi.short}", unparse(c), "convention detected on the dataset's longitudes")
                else:
                    rep.fail(rule, fi.file, c.lineno, fi.qualname, unparse(c)[:90],
                             f"the longitude convention is detected on '{unparse(a0)[:40]}', not on the dataset's longitudes: a query box without negative longitudes "
                             "looks like '0-360' whatever the dataset uses, so the wrapped branch runs on a -180..180 dataset and returns the complement",
                             anchor=f"is360-arg:{fi.short}")
    rep.floor(rule, "_is_360 decisions in the selectors", n, 1)


# ---------------------------------------------------------------------------------------------------------------------
_NARROW = ("float32", "float16", "int", "int8", "int16", "int32", "int64", "uint8", "uint16", "uint32", "single", "half", "f4", "i4", "i8")


def narrowing_cast_on_data(repo, rep, rule, qual):
    """A narrowing cast inside a transform is applied to a coordinate at most (label bookkeeping), never to the spectra: casting float64 densities to
    single precision makes a window of one no longer the identity and flushes small densities to zero."""
    fi = repo.func(qual)
    n = 0
    for c in ast.walk(fi.node):
        if isinstance(c, ast.Call) and isinstance(c.func, ast.Attribute) and c.func.attr == "astype" and c.args:
            t = unparse(c.args[0]).strip("'\"").split(".")[-1]
            if t not in _NARROW:
                continue
            n += 1
            r = c.func.value
            is_coord = isinstance(r, ast.Subscript) and any(k in unparse(r.slice) for k in ("DIRNAME", "FREQNAME", "'dir'", "'freq'")) \
                or isinstance(r, ast.Attribute) and r.attr in ("dir", "freq")
            if is_coord:
                rep.ok(rule, f"{fi.file}:{c.lineno} {fi.short}", unparse(c)[:80], "cast of a coordinate, not of the spectra")
            else:
                rep.fail(rule, fi.file, c.lineno, fi.qualname, unparse(c)[:100],
                         f"the data is cast to {t}: double-precision spectra lose precision (a window of one is not the identity any more, densities below the "
                         "narrower type's range become 0, i.e. fall below the window minimum)", anchor=f"narrowing-cast:{fi.short}")
    return n


# ---------------------------------------------------------------------------------------------------------------------
def extent_width(repo, rep, rule, prefixes=("wavespectra.core.npstats", "wavespectra.specarray", "wavespectra.core.xrstats", "wavespectra.core.utils", "wavespectra.partition.")):
    """A direction bin width is never (max(dir) - min(dir)) / (n - 1): for a sector that straddles north the extent is ~360 whatever the spacing."""
    def sites(tree):
        out = []
        for b in ast.walk(tree):
            if isinstance(b, ast.BinOp) and isinstance(b.op, ast.Div) and isinstance(b.left, ast.BinOp) and isinstance(b.left.op, ast.Sub):
                l, r = unparse(b.left.left), unparse(b.left.right)
                if ("max" in l and "min" in r or "ptp" in l) and "dir" in l.lower() and "dir" in r.lower():
                    out.append(b)
        return out
    if len(sites(ast.parse("dd = (np.max(dir) - np.min(dir)) / (len(dir) - 1)\nx = abs(self.dir.max() - self.dir.min() + dd - 360) < 1"))) != 1:
        raise AnalysisError(f"{rule}: detector does not fire exactly on its positive example")
    n = 0
    for fi in repo.all_funcs():
        if not fi.module.name.startswith(tuple(prefixes)):
            continue
        n += 1
        for b in sites(fi.node):
            rep.fail(rule, fi.file, b.lineno, fi.qualname, unparse(b)[:100],
                     "bin width taken from the extent max(dir) - min(dir): for a direction sector that straddles north (340, 350, 0, 10, 20) the extent is 350 and the "
                     "width comes out as 87.5 instead of 10; use the circular difference of neighbouring bins", anchor=f"extent-width:{fi.short}")
    rep.ok(rule, "statistics", f"{n} functions", "no width derived from the extent of the direction axis")
    rep.floor(rule, "functions scanned", n, 60)


# ---------------------------------------------------------------------------------------------------------------------
def reader_positions_unchanged(repo, rep, rule, prefixes=("wavespectra.input.", "wavespectra.core.swan")):
    """Readers return the positions the file holds: no reduction modulo 360 (or shift by 360 / 180) of a longitude read from a file."""
    def sites(tree):
        out = []
        for st in ast.walk(tree):
            if not isinstance(st, (ast.Assign, ast.AugAssign, ast.Return, ast.Expr)):
                continue
            txt = unparse(st).lower()
            if "lon" not in txt:
                continue
            for b in ast.walk(st):
                if isinstance(b, ast.BinOp) and isinstance(b.op, ast.Mod) and isinstance(b.right, ast.Constant) and b.right.value in (360, 360.0) \
                        and "lon" in unparse(st.targets[0] if isinstance(st, ast.Assign) else st).lower() and "dir" not in unparse(b).lower():
                    out.append((st, b))
        return out
    if len(sites(ast.parse("lon = float(parts[1]) % 360\ndirs = (d + 180) % 360\nlat = float(parts[0])"))) != 1:
        raise AnalysisError(f"{rule}: detector does not fire exactly on its positive example")
    n = 0
    for fi in repo.all_funcs():
        if not fi.module.name.startswith(tuple(prefixes)):
            continue
        n += 1
        for st, b in sites(fi.node):
            rep.fail(rule, fi.file, st.lineno, fi.qualname, unparse(st)[:100],
                     "a longitude read from the file is reduced modulo 360: a station at -71.12 comes back at 288.88 - the position returned is not the one in the file",
                     anchor=f"reader-lon-mod:{fi.short}")
    rep.ok(rule, "readers", f"{n} functions", "no longitude is folded into another convention while reading")
    rep.floor(rule, "reader functions scanned", n, 60)


# ---------------------------------------------------------------------------------------------------------------------
def real_columns_not_truncated(repo, rep, rule, qual="wavespectra.output.octopus.to_octopus"):
    """The row format handed to np.savetxt for the spectral blocks holds real-valued columns only (direction label, densities, direction sum):
    an integer conversion (`{:d}` -> `%d`) truncates 14.999999999999998 to 14 instead of rounding it to 15 - labels and the bin width the reader
    derives from them come back wrong."""
    import re
    fi = repo.func(qual)
    sv = [c for c in ast.walk(fi.node) if isinstance(c, ast.Call) and unparse(c.func).split(".")[-1] == "savetxt"]
    fmt_names = set()
    for c in sv:
        f = next((k.value for k in c.keywords if k.arg == "fmt"), c.args[2] if len(c.args) > 2 else None)
        if isinstance(f, ast.Name):
            fmt_names.add(f.id)
    if not fmt_names:
        raise AnalysisError(f"{rule}: {fi.short}: no np.savetxt(fmt=<name>) found")
    # every name the format is built from (transitively)
    changed = True
    defs = [a for a in ast.walk(fi.node) if isinstance(a, ast.Assign) and len(a.targets) == 1 and isinstance(a.targets[0], ast.Name)]
    while changed:
        changed = False
        for a in defs:
            if a.targets[0].id in fmt_names:
                for x in ast.walk(a.value):
                    if isinstance(x, ast.Name) and x.id not in fmt_names and any(d.targets[0].id == x.id for d in defs):
                        fmt_names.add(x.id); changed = True
    n = 0
    for a in defs:
        if a.targets[0].id not in fmt_names:
            continue
        for k in ast.walk(a.value):
            if isinstance(k, ast.Constant) and isinstance(k.value, str) and ("{" in k.value or "%" in k.value):
                n += 1
                if re.search(r"\{:[^}]*[dixX]\}|%[0-9]*[dixX]", k.value):
                    rep.fail(rule, fi.file, a.lineno, fi.qualname, unparse(a)[:100],
                             "a column of the spectral block is written with an integer conversion: real values are truncated towards zero, not rounded "
                             "(14.999999999999998 -> 14), so the directions read back - and the bin width derived from them - differ from what was written",
                             anchor=f"int-format:{fi.short}")
                else:
                    rep.ok(rule, f"{fi.file}:{a.lineno} {fi.short}", k.value[:40], "floating-point conversion (rounds)")
    rep.floor(rule, "format literals of the savetxt row format", n, 2)
