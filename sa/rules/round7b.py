"""More cross-cutting rules of round 7 (kept apart so that adding them does not disturb a corpus run in progress)."""
import ast

from ..model import unparse
from ..report import AnalysisError

# methods of xarray / pandas / numpy objects that return a NEW object and leave the receiver unchanged
PURE = {"fillna", "where", "sortby", "transpose", "chunk", "rename", "assign_coords", "astype", "sel", "isel", "drop_vars", "drop", "dropna", "expand_dims",
        "squeeze", "reset_coords", "set_coords", "assign", "assign_attrs", "interp", "interp_like", "reindex", "stack", "unstack", "clip", "round", "copy",
        "swap_dims", "sort_values", "reset_index", "set_index", "replace", "reshape", "swapaxes", "roll", "pad", "mean", "sum", "cumsum", "drop_duplicates",
        "drop_isel", "drop_sel", "rechunk", "persist", "compute", "combine_first", "interpolate_na", "ffill", "bfill", "shift", "diff", "sortby"}


def _discards(tree):
    out = []
    for s in ast.walk(tree):
        if isinstance(s, ast.Expr) and isinstance(s.value, ast.Call) and isinstance(s.value.func, ast.Attribute) and s.value.func.attr in PURE:
            if any(k.arg == "inplace" and isinstance(k.value, ast.Constant) and k.value.value is True for k in s.value.keywords):
                continue
            if isinstance(s.value.func.value, ast.Name) and s.value.func.value.id in ("np", "numpy", "plt", "logger", "logging", "warnings", "os", "shutil"):
                continue
            out.append(s)
    return out


def discarded_pure_results(repo, rep, rule, prefixes, floor=1):
    """`x.fillna(0.0)` as a statement does nothing: these methods return a new object.  A step of the documented processing (zero filling,
    sorting, re-chunking, re-labelling, selection) that is written as a bare expression statement is silently not applied."""
    probe = ast.parse("def f(d):\n    d.fillna(0.0)\n    d.drop(columns=c, inplace=True)\n    e = d.sortby('dir')\n    return e")
    if len(_discards(probe)) != 1:
        raise AnalysisError(f"{rule}: detector does not fire exactly on its positive example")
    n = 0
    for fi in repo.all_funcs():
        if not fi.module.name.startswith(tuple(prefixes)):
            continue
        n += 1
        for s in _discards(fi.node):
            rep.fail(rule, fi.file, s.lineno, fi.qualname, unparse(s)[:100],
                     f"the result of .{s.value.func.attr}() is discarded: the method returns a new object and leaves its receiver as it was, so this step "
                     "of the processing is not applied to what the function goes on to use / return", anchor=f"discarded:{fi.short}:{s.value.func.attr}")
    rep.ok(rule, "scope " + ", ".join(prefixes)[:80], f"{n} functions", "no result of a non-mutating method is discarded")
    rep.floor(rule, "functions scanned for discarded results", n, floor)


def hygiene(repo, rep, prop, prefixes, falsy=True):
    """The two package-wide slips that two independent agents each produced in round 7, checked in the modules behind property `prop`."""
    from .round7 import falsy_zero_defaulting
    rep.rule(f"R-{prop}-h1", "no result of a non-mutating xarray / pandas / numpy method is discarded (a processing step written as a bare statement is not applied)")
    discarded_pure_results(repo, rep, f"R-{prop}-h1", prefixes)
    if falsy:
        rep.rule(f"R-{prop}-h2", "no numeric parameter is defaulted with `p or <non-zero constant>` (a caller's 0 would be replaced)")
        falsy_zero_defaulting(repo, rep, f"R-{prop}-h2", prefixes)


# ---------------------------------------------------------------------------------------------------------------------
def _truthy_guard_sites(fn_node):
    """`if p and q and p <= q: raise` - parameters tested by truthiness in a validation guard that also compares them."""
    a = fn_node.args
    params = {x.arg for x in a.posonlyargs + a.args + a.kwonlyargs} - {"self", "cls"}
    out = []
    for s in ast.walk(fn_node):
        if not (isinstance(s, ast.If) and s.body and all(isinstance(x, ast.Raise) for x in s.body)):
            continue
        t = s.test
        if not (isinstance(t, ast.BoolOp) and isinstance(t.op, ast.And)):
            continue
        bare = [v.id for v in t.values if isinstance(v, ast.Name) and v.id in params]
        cmpn = {x.id for v in t.values if isinstance(v, ast.Compare) and not any(isinstance(o, (ast.Is, ast.IsNot)) for o in v.ops)
                for x in ast.walk(v) if isinstance(x, ast.Name)}
        hit = [b for b in bare if b in cmpn]
        if hit:
            out.append((s, hit))
    return out


def truthiness_guards(repo, rep, rule, prefixes):
    probe = ast.parse("def f(a=None, b=None):\n    if a and b and b <= a:\n        raise ValueError('x')\n    if a is not None and b is not None and b <= a:\n        raise ValueError('y')").body[0]
    if len(_truthy_guard_sites(probe)) != 1:
        raise AnalysisError(f"{rule}: detector does not fire exactly on its positive example")
    n = ng = 0
    for fi in repo.all_funcs():
        if not fi.module.name.startswith(tuple(prefixes)):
            continue
        n += 1
        for s, hit in _truthy_guard_sites(fi.node):
            rep.fail(rule, fi.file, s.lineno, fi.qualname, f"if {unparse(s.test)[:90]}: raise",
                     f"the validation tests {hit} by truthiness: a limit of 0 (north, 0 Hz) is falsy, so the comparison is skipped and an empty or reversed band is "
                     "processed silently instead of being rejected; test `is not None`", anchor=f"truthy-guard:{fi.short}")
        ng += sum(1 for s in ast.walk(fi.node) if isinstance(s, ast.If) and s.body and all(isinstance(x, ast.Raise) for x in s.body))
    rep.ok(rule, "scope", f"{n} functions, {ng} raising guards", "no numeric parameter is tested by truthiness in a guard that compares it")
    rep.floor(rule, "raising guards examined", ng, 5)


# ---------------------------------------------------------------------------------------------------------------------
def _isclose_sites(tree):
    out = []
    for c in ast.walk(tree):
        if isinstance(c, ast.Call) and ast.unparse(c.func).split(".")[-1] in ("isclose", "allclose") and len(c.args) >= 2:
            kw = {k.arg: k.value for k in c.keywords}
            atol = kw.get("atol", kw.get("abs_tol"))
            is_math = ast.unparse(c.func).startswith("math.")
            zero_atol = atol is not None and isinstance(atol, ast.Constant) and atol.value == 0
            if is_math and atol is None:
                # math.isclose has abs_tol = 0 by default: purely relative -> scale free (but never true against 0)
                continue
            if not zero_atol:
                out.append(c)
    return out


def hidden_tolerance(repo, rep, rule, prefixes):
    probe = ast.parse("a = np.isclose(q, 0.0)\nb = np.isclose(q, r, atol=0)\nc = math.isclose(q, r)")
    if len(_isclose_sites(probe)) != 1:
        raise AnalysisError(f"{rule}: detector does not fire exactly on its positive example")
    n = 0
    for fi in repo.all_funcs():
        if not fi.module.name.startswith(tuple(prefixes)):
            continue
        n += 1
        for c in _isclose_sites(fi.node):
            rep.fail(rule, fi.file, c.lineno, fi.qualname, unparse(c)[:100],
                     "np.isclose / allclose carry a default ABSOLUTE tolerance of 1e-8: on a quantity that scales with the spectrum (a density, a slope, a curvature) "
                     "the test changes its answer when the spectrum is multiplied by a constant, so periods / shape parameters are not scale invariant",
                     anchor=f"hidden-atol:{fi.short}")
    rep.ok(rule, "statistics", f"{n} functions", "no isclose / allclose with a non-zero absolute tolerance")
    rep.floor(rule, "functions scanned for hidden tolerances", n, 60)


# ---------------------------------------------------------------------------------------------------------------------
def float_keyed_collections(repo, rep, rule, prefixes):
    """Partitions are never collected in a dict / set keyed by a computed statistic: two partitions with bit-identical Hs (twin systems) collide and
    one of them - with all its energy - disappears."""
    def sites(tree):
        out = []
        for d in ast.walk(tree):
            if isinstance(d, ast.DictComp) and isinstance(d.key, ast.Call):
                out.append(d)
            if isinstance(d, ast.Assign) and len(d.targets) == 1 and isinstance(d.targets[0], ast.Subscript) and isinstance(d.targets[0].slice, ast.Call) \
                    and ast.unparse(d.targets[0].slice.func).split(".")[-1] in ("hs", "float", "sum", "max"):
                out.append(d)
        return out
    if len(sites(ast.parse("h = {hs(p): p for p in parts}\ng = {k: hs(p) for k, p in x}"))) != 1:
        raise AnalysisError(f"{rule}: detector does not fire exactly on its positive example")
    n = 0
    for fi in repo.all_funcs():
        if not fi.module.name.startswith(tuple(prefixes)):
            continue
        n += 1
        for d in sites(fi.node):
            rep.fail(rule, fi.file, d.lineno, fi.qualname, unparse(d)[:100],
                     "a collection keyed by a computed value: items whose keys coincide (two partitions of exactly equal Hs) overwrite each other, so a basin "
                     "the watershed found is dropped and its bins belong to no partition", anchor=f"value-keyed:{fi.short}")
    rep.ok(rule, "partition code", f"{n} functions", "no dict keyed by a computed statistic")
    rep.floor(rule, "functions scanned", n, 15)
