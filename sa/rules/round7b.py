"""More cross-cutting rules of round 7 (kept apart so that adding them does not disturb a corpus run in progress)."""
import ast

from ..model import unparse
from ..report import AnalysisError

# methods of xarray / pandas / numpy objects that return a NEW object and leave the receiver unchanged
PURE = {"fillna", "where", "sortby", "transpose", "chunk", "rename", "assign_coords", "astype", "sel", "isel", "drop_vars", "drop", "dropna", "expand_dims",
        "squeeze", "reset_coords", "set_coords", "assign", "assign_attrs", "interp", "interp_like", "reindex", "stack", "unstack", "clip", "round", "copy",
        "swap_dims", "sort_values", "reset_index", "set_index", "replace", "reshape", "swapaxes", "roll", "pad", "mean", "sum", "cumsum", "drop_duplicates",
        "drop_isel", "drop_sel", "rechunk", "persist", "compute", "combine_first", "interpolate_na", "ffill", "bfill", "shift", "diff", "sortby"}


def _discards(tree):
    out = []
    for s in ast.walk(tree):
        if isinstance(s, ast.Expr) and isinstance(s.value, ast.Call) and isinstance(s.value.func, ast.Attribute) and s.value.func.attr in PURE:
            if any(k.arg == "inplace" and isinstance(k.value, ast.Constant) and k.value.value is True for k in s.value.keywords):
                continue
            if isinstance(s.value.func.value, ast.Name) and s.value.func.value.id in ("np", "numpy", "plt", "logger", "logging", "warnings", "os", "shutil"):
                continue
            out.append(s)
    return out


def discarded_pure_results(repo, rep, rule, prefixes, floor=1):
    """`x.fillna(0.0)` as a statement does nothing: these methods return a new object.  A step of the documented processing (zero filling,
    sorting, re-chunking, re-labelling, selection) that is written as a bare expression statement is silently not applied."""
    probe = ast.parse("def f(d):\n    d.fillna(0.0)\n    d.drop(columns=c, inplace=True)\n    e = d.sortby('dir')\n    return e")
    if len(_discards(probe)) != 1:
        raise AnalysisError(f"{rule}: detector does not fire exactly on its positive example")
    n = 0
    for fi in repo.all_funcs():
        if not fi.module.name.startswith(tuple(prefixes)):
            continue
        n += 1
        for s in _discards(fi.node):
            rep.fail(rule, fi.file, s.lineno, fi.qualname, unparse(s)[:100],
                     f"the result of .{s.value.func.attr}() is discarded: the method returns a new object and leaves its receiver as it was, so this step "
                     "of the processing is not applied to what the function goes on to use / return", anchor=f"discarded:{fi.short}:{s.value.func.attr}")
    rep.ok(rule, "scope " + ", ".join(prefixes)[:80], f"{n} functions", "no result of a non-mutating method is discarded")
    rep.floor(rule, "functions scanned for discarded results", n, floor)


def hygiene(repo, rep, prop, prefixes, falsy=True):
    """The two package-wide slips that two independent agents each produced in round 7, checked in the modules behind property `prop`."""
    from .round7 import falsy_zero_defaulting
    rep.rule(f"R-{prop}-h1", "no result of a non-mutating xarray / pandas / numpy method is discarded (a processing step written as a bare statement is not applied)")
    discarded_pure_results(repo, rep, f"R-{prop}-h1", prefixes)
    if falsy:
        rep.rule(f"R-{prop}-h2", "no numeric parameter is defaulted with `p or <non-zero constant>` (a caller's 0 would be replaced)")
        falsy_zero_defaulting(repo, rep, f"R-{prop}-h2", prefixes)
