"""C12 - model-native datasets are converted with the right units and direction sense."""
import ast
from fractions import Fraction as Fr

from ..model import UNKNOWN, FuncInfo, call_name, kwarg, unparse
from ..report import AnalysisError
from ..units import Q, UEval, lit

EFTH = {"m": 2, "s": 1, "deg": -1}
NAUT_FROM = {"conv": "naut", "sense": "from"}

# Native conventions (independent of the code under check; each row cites the format's own documentation / the
# reader's docstring).  Names are those AFTER the converter's rename, where it renames first.
NATIVE = {
    "wavespectra.input.ww3.from_ww3": {
        # WW3 point-output netCDF: efth(m2 s rad-1), direction = nautical going-TO degrees
        "efth": Q({"m": 2, "s": 1}, Fr(1)), "freq": Q({"s": -1}), "dir": Q({"deg": 1}, ang={"conv": "naut", "sense": "to", "mod": True}),
    },
    "wavespectra.input.ncswan.from_ncswan": {
        # SWAN netCDF spectra: density(m2 s rad-1), direction in radians (nautical coming-from), xwnd/ywnd m s-1
        "efth": Q({"m": 2, "s": 1}, Fr(1)), "freq": Q({"s": -1}),
        "dir": Q({}, ang={"conv": "naut", "sense": "from", "mod": False, "rad": True}),
        "xwnd": Q({"m": 1, "s": -1}), "ywnd": Q({"m": 1, "s": -1}),
    },
    "wavespectra.input.wwm.from_wwm": {
        # WWM-II station output: AC = action density N(sigma, theta) (m2 s2 rad-1), SPSIG rad s-1, SPDIR rad over one circle
        "efth": Q({"m": 2, "s": 2}, Fr(1)), "SPSIG": Q({"s": -1}), "SPDIR": Q({}, ang={"conv": "naut", "sense": "from", "mod": True, "rad": True}),
        "Uwind": Q({"m": 1, "s": -1}), "Vwind": Q({"m": 1, "s": -1}),
    },
}


class NativeTable:
    """Minimal typing context: dataset variables by name, package functions evaluated interprocedurally."""

    def __init__(self, repo, rows):
        self.repo, self.rows = repo, rows
        self.coordnames = set(rows)
        self.spectral = set()
        self.problems = []
        self.stack = []

    def coord(self, name):
        q = self.rows.get(name)
        return q.copy() if isinstance(q, Q) else None

    def named_constant(self, mod, name, value):
        if abs(value - 0.017453292519943295) < 1e-15:
            return Q({"deg": -1})
        if abs(value - 57.29577951308232) < 1e-12:
            return Q({"deg": 1})
        return None

    def dimensioned_literal(self, fi, value):
        return None

    def self_property(self, ev, attr, node):
        return NotImplemented

    def self_call(self, *a):
        return NotImplemented

    def call_function(self, ev, fi, call, args):
        if fi.cls is not None or len(self.stack) > 4 or fi.name in ("set_spec_attributes",):
            return None
        consts = {}
        a = fi.node.args
        pos = a.posonlyargs + a.args
        for p, d in zip([p.arg for p in pos[len(pos) - len(a.defaults):]], a.defaults):
            v = self.repo.const(fi.module, d)
            if v is not UNKNOWN and not isinstance(v, (dict, list)):
                consts[p] = v
        seeds = {}
        for i, x in enumerate(args):
            if i < len(fi.params):
                c = ev.const(call.args[i])
                if c is not UNKNOWN and not isinstance(c, (dict, list)):
                    consts[fi.params[i]] = c
                else:
                    seeds[fi.params[i]] = x
                    consts.pop(fi.params[i], None)
        for k in call.keywords:
            if k.arg in fi.params:
                c = ev.const(k.value)
                if c is not UNKNOWN and not isinstance(c, (dict, list)):
                    consts[k.arg] = c
                else:
                    seeds[k.arg] = ev.ev(k.value)
                    consts.pop(k.arg, None)
        self.stack.append(fi.qualname)
        sub = UEval(self.repo, fi, seeds, consts, self, depth=ev.depth + 1)
        sub.run()
        self.stack.pop()
        for p in sub.problems:
            ev.problems.append(p)
        res = None
        for node, v in sub.returns:
            res = v if res is None else res
        return res


def _check_q(rep, rule, fi, what, q, want_u, want_ang=None, line=None):
    where = f"{fi.file}:{line or fi.node.lineno} {fi.short}"
    if not isinstance(q, Q):
        raise AnalysisError(f"{fi.short}: type of {what} could not be inferred")
    wu = {"m": Fr(0), "s": Fr(0), "deg": Fr(0)}
    wu.update({k: Fr(v) for k, v in want_u.items()})
    if q.u != wu:
        rep.fail(rule, fi.file, line or fi.node.lineno, fi.qualname, f"{what}: {q.ustr()}",
                 f"converted {what} has units {q.ustr()}, wavespectra's convention is {Q(wu).ustr()} (a degree/radian or action/energy "
                 "factor is missing, inverted or applied twice)")
        return
    if want_ang is not None:
        a = q.ang or {}
        probs = []
        if a.get("conv") != want_ang["conv"] or a.get("sense") != want_ang["sense"]:
            probs.append(f"direction sense is {a.get('conv')}/{a.get('sense')}, must be nautical coming-from (going-to directions must be turned by 180)")
        if not a.get("mod"):
            probs.append("not reduced to [0, 360)")
        if a.get("rad"):
            probs.append("still in radians")
        if probs:
            rep.fail(rule, fi.file, line or fi.node.lineno, fi.qualname, f"{what}: {q.ustr()} {a}", "; ".join(probs))
            return
    rep.ok(rule, where, f"{what}: {q.ustr()}" + (f" {q.ang}" if q.ang else ""), "wavespectra convention")


def converters(repo, rep):
    n = 0
    for qual, rows in NATIVE.items():
        fi = repo.func(qual)
        tab = NativeTable(repo, rows)
        ev = UEval(repo, fi, {fi.params[0]: Q(note="dataset")}, {}, tab)
        ev.run()
        for p in ev.problems:
            if p.kind in ("units", "log", "clip"):
                rep.fail("R-C12-1", fi.file, p.node.lineno, fi.qualname, unparse(p.node)[:110], p.msg)
        spec = repo.attrs.SPECNAME
        _check_q(rep, "R-C12-1", fi, "spectral density", ev.stored.get(spec), EFTH)
        n += 1
        if ev.stored.get(spec) is not None and ev.stored[spec].h != Fr(1):
            rep.fail("R-C12-1", fi.file, fi.node.lineno, fi.qualname, "density degree", "the converted density must be linear in the native density")
        d = ev.stored.get(repo.attrs.DIRNAME)
        _check_q(rep, "R-C12-1", fi, "direction coordinate", d, {"deg": 1}, NAUT_FROM)
        n += 1
        if "SPSIG" in rows:
            _check_q(rep, "R-C12-1", fi, "frequency coordinate", ev.stored.get(repo.attrs.FREQNAME), {"s": -1})
            n += 1
        if any(k in rows for k in ("xwnd", "Uwind")):
            _check_q(rep, "R-C12-1", fi, "wind speed", ev.stored.get(repo.attrs.WSPDNAME), {"m": 1, "s": -1})
            _check_q(rep, "R-C12-1", fi, "wind direction", ev.stored.get(repo.attrs.WDIRNAME), {"deg": 1}, NAUT_FROM)
            n += 2
            # coming_from=True at the call site
            calls = [c for c in ast.walk(fi.node) if isinstance(c, ast.Call) and call_name(c) == "uv_to_spddir"]
            for c in calls:
                from ..astutil import bound_args
                cf = (bound_args(repo, fi, c) or {}).get("coming_from")
                if cf is None or repo.const(fi.module, cf) is not True:
                    rep.fail("R-C12-1", fi.file, c.lineno, fi.qualname, unparse(c)[:100], "winds must come back as coming-from directions (coming_from=True)")
    # ERA5: log10 densities
    fi = repo.func("wavespectra.input.era5.from_era5")
    tab = NativeTable(repo, {})
    ev = UEval(repo, fi, {fi.params[0]: Q({"m": 2, "s": 1}, Fr(1), log=True)}, {}, tab)
    ev.run()
    for p in ev.problems:
        if p.kind in ("units", "log"):
            rep.fail("R-C12-1", fi.file, p.node.lineno, fi.qualname, unparse(p.node)[:110], p.msg)
    res = ev.env.get(fi.params[0])
    _check_q(rep, "R-C12-1", fi, "spectral density", res, EFTH)
    n += 1
    if isinstance(res, Q) and res.log:
        rep.fail("R-C12-1", fi.file, fi.node.lineno, fi.qualname, "density", "the density is still logarithmic")
    # NaN -> 0 after the exponentiation
    fills = [c for c in ast.walk(fi.node) if isinstance(c, ast.Call) and isinstance(c.func, ast.Attribute) and c.func.attr == "fillna"]
    if fills and repo.const(fi.module, fills[0].args[0]) == 0:
        rep.ok("R-C12-1", f"{fi.file}:{fills[0].lineno} from_era5", unparse(fills[0]), "missing values become zero energy (after 10**)")
    else:
        rep.fail("R-C12-1", fi.file, fi.node.lineno, fi.qualname, "missing values", "missing ERA5 densities must become zero energy")
    # NDBC
    fi = repo.try_func("wavespectra.input.ndbc._construct_spectra")
    if fi is None:
        # the helper was inlined into the converter: the spreading expression lives in from_ndbc itself, whose stored density is
        # typed with the other converters above; only the normalisation of the bracket remains to be checked here
        spreading_norm(repo, rep, repo.func("wavespectra.input.ndbc.from_ndbc"), "R-C12-1")
        spreading_norm(repo, rep, repo.func("wavespectra.input.ndbc_ascii.construct_spectra"), "R-C12-1")
        rep.floor("R-C12-1", "typed converter outputs", n, 9)
        return
    rows = {"ef": Q({"m": 2, "s": 1}, Fr(1)), "swd1": Q({"deg": 1}), "swd2": Q({"deg": 1}), "swr1": Q({}), "swr2": Q({}), "dir": Q({"deg": 1})}
    tab = NativeTable(repo, {})
    ev = UEval(repo, fi, {p: rows[p] for p in fi.params if p in rows}, {}, tab)
    ev.run()
    for p in ev.problems:
        if p.kind in ("units", "log", "clip"):
            msg = p.msg
            if p.kind == "clip":
                msg += ": the truncated Fourier spreading 0.5 + r1 cos + r2 cos2 integrates to one only with its negative lobes; clipping adds variance"
            rep.fail("R-C12-1", fi.file, p.node.lineno, fi.qualname, unparse(p.node)[:110], msg)
    for node, v in ev.returns:
        _check_q(rep, "R-C12-1", fi, "directional density", v, EFTH, line=node.lineno)
        n += 1
    for q2 in ("wavespectra.input.ndbc._construct_spectra", "wavespectra.input.ndbc_ascii.construct_spectra"):
        spreading_norm(repo, rep, repo.func(q2), "R-C12-1")
    rep.floor("R-C12-1", "typed converter outputs", n, 10)


def spreading_norm(repo, rep, fi, rule):
    """0.5 + r1 cos(D2R (dir - d1)) + r2 cos(2 D2R (dir - d2)), times D2R / pi: constant term integrates to one over 360 deg."""
    import math
    consts = []
    halves = [n for n in ast.walk(fi.node) if isinstance(n, ast.Constant) and n.value == 0.5]
    cos = [n for n in ast.walk(fi.node) if isinstance(n, ast.Call) and call_name(n) in ("np.cos", "numpy.cos")]
    harm = []
    for c in cos:
        a = c.args[0]
        k = 1
        for n in ast.walk(a):
            if isinstance(n, ast.Constant) and n.value == 2:
                k = 2
        harm.append(k)
    # overall factor: product of constants multiplying the bracket
    val = None
    for n in ast.walk(fi.node):
        if isinstance(n, (ast.Return, ast.Assign)):
            e = n.value
            fs = _flat(e)
            cs = [repo.const(fi.module, f) for f in fs]
            num = [c for c in cs if isinstance(c, float)]
            if num and len(num) >= 1 and any(abs(c - 0.017453292519943295) < 1e-12 for c in num):
                prod = 1.0
                for f in fs:
                    c = repo.const(fi.module, f)
                    if isinstance(c, (int, float)) and not isinstance(c, bool):
                        prod *= c
                # divisions
                val = _const_factor(repo, fi, e)
    if not halves or sorted(harm) != [1, 2] or val is None:
        raise AnalysisError(f"{fi.short}: NDBC spreading form not understood")
    total = 0.5 * val * 360.0
    if abs(total - 1.0) < 1e-9:
        rep.ok(rule, f"{fi.file}:{fi.node.lineno} {fi.short}", f"0.5 * {val:.6g} * 360 deg = {total:.6f}", "constant term integrates to one over the circle; harmonics k=1,2 integrate to zero")
    else:
        rep.fail(rule, fi.file, fi.node.lineno, fi.qualname, f"normalisation 0.5 * {val:.6g} * 360 = {total:.6f}",
                 "the spreading function must integrate to one over direction so that the 2-D spectrum integrates back to the 1-D spectrum")


def _flat(e):
    if isinstance(e, ast.BinOp) and isinstance(e.op, (ast.Mult, ast.Div)):
        return _flat(e.left) + _flat(e.right)
    return [e]


def _const_factor(repo, fi, e):
    """numeric value of the constant factors in a product/quotient expression (non-constant factors count as 1)."""
    if isinstance(e, ast.BinOp) and isinstance(e.op, ast.Mult):
        return _const_factor(repo, fi, e.left) * _const_factor(repo, fi, e.right)
    if isinstance(e, ast.BinOp) and isinstance(e.op, ast.Div):
        return _const_factor(repo, fi, e.left) / _const_factor(repo, fi, e.right)
    c = repo.const(fi.module, e)
    if isinstance(c, (int, float)) and not isinstance(c, bool):
        return float(c)
    return 1.0


def jacobian(repo, rep):
    fi = repo.func("wavespectra.input.wwm.from_wwm")
    import math
    two_pi_coord = two_pi_dens = False
    for n in ast.walk(fi.node):
        if isinstance(n, ast.Call) and isinstance(n.func, ast.Attribute) and n.func.attr == "assign_coords":
            t = unparse(n).replace(" ", "")
            if "SPSIG/(2*np.pi)" in t or "SPSIG/(np.pi*2)" in t:
                two_pi_coord = True
        if isinstance(n, ast.Assign) and isinstance(n.targets[0], ast.Subscript) and repo.const(fi.module, n.targets[0].slice) == repo.attrs.SPECNAME:
            fs = _flat(n.value)
            names = [unparse(f) for f in fs]
            has_sig = any(x.endswith("SPSIG") for x in names)
            c = _const_factor(repo, fi, n.value)
            if has_sig and abs(c - 2 * math.pi / 57.29577951308232) < 1e-12:
                two_pi_dens = True
    if two_pi_coord and two_pi_dens:
        rep.ok("R-C12-2", f"{fi.file}:{fi.node.lineno} from_wwm", "freq = SPSIG / 2pi and E = AC * SPSIG * 2pi / R2D", "sigma -> f Jacobian present on coordinate and density; action -> energy by sigma")
    else:
        rep.fail("R-C12-2", fi.file, fi.node.lineno, fi.qualname, f"2pi on coordinate: {two_pi_coord}; AC*SPSIG*2pi/R2D on density: {two_pi_dens}",
                 "converting N(sigma, theta) to E(f, theta) needs sigma (action -> energy) and 2 pi (d sigma / d f) on the density and 1/(2 pi) on "
                 "the frequency coordinate: the variance integral changes otherwise")


def dispatcher(repo, rep):
    fi = repo.func("wavespectra.input.dataset.read_dataset")
    sets = {}
    TAGS = ("wavespectra", "ncswan", "ww3", "wwm", "era5", "ndbc")
    tag_of = {}
    for n in ast.walk(fi.node):
        if isinstance(n, ast.Assign) and isinstance(n.targets[0], ast.Name) and isinstance(n.value, ast.Set):
            nm = n.targets[0].id
            tag = next((t for t in TAGS if t in nm), None)
            if tag is None:
                continue
            sets[nm] = frozenset(repo.const(fi.module, e) for e in n.value.elts)
            tag_of[nm] = tag
    # the same identifying sets hoisted to module level (VARS_ERA5 = {...}): every name subtracted-from in a test is looked up there too
    for n in ast.walk(fi.node):
        if isinstance(n, ast.BinOp) and isinstance(n.op, ast.Sub) and isinstance(n.left, ast.Name) and n.left.id not in sets:
            v_ = fi.module.consts.get(n.left.id)
            if v_ is None and n.left.id in fi.module.imports:
                src_ = repo.modules.get(fi.module.imports[n.left.id][0])
                v_ = src_.consts.get(fi.module.imports[n.left.id][1]) if src_ is not None else None
            if isinstance(v_, ast.Call) and call_name(v_) in ("set", "frozenset") and len(v_.args) == 1 and isinstance(v_.args[0], (ast.Set, ast.List, ast.Tuple)):
                v_ = v_.args[0]
            tag = next((t for t in TAGS if t in n.left.id.lower()), None)
            if isinstance(v_, (ast.Set, ast.List, ast.Tuple)) and tag is not None:
                sets[n.left.id] = frozenset(repo.const(fi.module, e) for e in v_.elts)
                tag_of[n.left.id] = tag
    # the if / elif chain
    chain = []
    disp = None
    from ..astutil import returns as _rets
    for rn, rv in _rets(fi.node):
        if isinstance(rv, ast.Call) and isinstance(rv.func, ast.Name) and rv.args and unparse(rv.args[0]) == fi.params[0]:
            disp = rv.func.id
    if disp is None:
        raise AnalysisError("read_dataset: final `return <reader>(dset, **kwargs)` not found")

    def walk_if(node):
        t = node.test
        if isinstance(t, ast.UnaryOp) and isinstance(t.op, ast.Not) and isinstance(t.operand, ast.BinOp) and isinstance(t.operand.op, ast.Sub):
            name = unparse(t.operand.left)
            target = None
            for s in node.body:
                if isinstance(s, ast.Assign) and unparse(s.targets[0]) == disp:
                    target = unparse(s.value)
                if isinstance(s, ast.Return):
                    target = "return " + unparse(s.value)
            chain.append((name, target, node))
        if len(node.orelse) == 1 and isinstance(node.orelse[0], ast.If):
            walk_if(node.orelse[0])
        elif node.orelse:
            chain.append(("else", unparse(node.orelse[0])[:40], node.orelse[0]))
    tops = [s for s in fi.node.body if isinstance(s, ast.If)]
    for tnode in tops:
        walk_if(tnode)
    if len(chain) < 6:
        # table-driven form:  for (tag, names, reader) in TABLE: if not names - vars_dset: break   else: raise ValueError
        table = None
        for n in ast.walk(fi.node):
            if isinstance(n, ast.Assign) and isinstance(n.targets[0], ast.Name) and isinstance(n.value, (ast.Tuple, ast.List)) and n.value.elts \
                    and all(isinstance(e, (ast.Tuple, ast.List)) for e in n.value.elts):
                rows = []
                for e in n.value.elts:
                    st_ = [x for x in e.elts if isinstance(x, ast.Set) or (isinstance(x, ast.Call) and call_name(x) in ("set", "frozenset"))]
                    rd_ = [x for x in e.elts if isinstance(x, ast.Name) and isinstance(repo.resolve_symbol(fi.module, x.id), FuncInfo)]
                    if len(st_) == 1 and len(rd_) == 1:
                        names_ = repo.const(fi.module, st_[0])
                        if isinstance(names_, (set, frozenset)):
                            rows.append((frozenset(names_), rd_[0].id, e))
                if len(rows) == len(n.value.elts):
                    table = (n.targets[0].id, rows)
        loop = None
        if table is not None:
            for l_ in ast.walk(fi.node):
                if isinstance(l_, ast.For) and unparse(l_.iter) == table[0] and isinstance(l_.target, ast.Tuple):
                    tnames = [unparse(x) for x in l_.target.elts]
                    brk = [i_ for i_ in l_.body if isinstance(i_, ast.If) and any(isinstance(b_, ast.Break) for b_ in i_.body)]
                    if brk:
                        t_ = brk[0].test
                        sub_ok = isinstance(t_, ast.UnaryOp) and isinstance(t_.op, ast.Not) and isinstance(t_.operand, ast.BinOp) and isinstance(t_.operand.op, ast.Sub) \
                            and unparse(t_.operand.left) in tnames
                        if sub_ok and disp in tnames:
                            loop = l_
        if loop is None:
            raise AnalysisError("read_dataset: dispatch chain not understood")
        # the wavespectra early return is the first chain entry already collected (if any); rebuild the chain from the table
        chain = [c_ for c_ in chain if c_[0] in sets and tag_of.get(c_[0]) == "wavespectra"]
        for names_, reader, node in table[1]:
            tag = reader.replace("from_", "")
            key = f"vars_{tag}"
            sets[key] = names_
            tag_of[key] = next((t for t in TAGS if t == tag), tag)
            chain.append((key, reader, node))
        if loop.orelse:
            chain.append(("else", unparse(loop.orelse[0])[:40], loop.orelse[0]))
        else:
            chain.append(("else", "falls through", loop))
    if not chain[-1][1].startswith("raise ValueError"):
        rep.fail("R-C12-3", fi.file, chain[-1][2].lineno, fi.qualname, chain[-1][1], "an unidentified dataset must be rejected with ValueError")
    else:
        rep.ok("R-C12-3", f"{fi.file}:{chain[-1][2].lineno} read_dataset", "else: raise ValueError", "unknown conventions rejected")
    order = [c for c in chain if c[0] in sets]
    rep.floor("R-C12-3", "identifying name sets of the dispatcher", len(order), 6)
    for i, (a, ta, na) in enumerate(order):
        for b, tb, nb in order[i + 1:]:
            if sets[a] < sets[b]:
                rep.fail("R-C12-3", fi.file, na.lineno, fi.qualname, f"{a} tested before {b}",
                         f"every dataset matching {b} also matches the earlier, less specific {a}: it is dispatched to the wrong reader")
    rep.ok("R-C12-3", f"{fi.file} read_dataset", " -> ".join(a for a, _, _ in order), "no earlier identifying set is a subset of a later one")
    # contract: the reader bound in each branch renames that branch's identifying names
    wavespectra_names = next((v for k, v in sets.items() if tag_of[k] == "wavespectra"), frozenset())
    for a, target, node in order:
        if target is None or target.startswith("return"):
            continue
        sym = repo.resolve_symbol(fi.module, target)
        if not isinstance(sym, FuncInfo):
            raise AnalysisError(f"read_dataset: reader {target} not resolved")
        expect = "from_" + tag_of[a]
        if sym.name != expect:
            rep.fail("R-C12-3", fi.file, node.lineno, fi.qualname, f"{a} -> {target}", f"branch identified as {a[5:]} must call {expect}")
            continue
        native = sets[a] - wavespectra_names
        mapping = repo.const(sym.module, ast.Name(id="MAPPING", ctx=ast.Load())) if "MAPPING" in sym.module.consts else None
        renamed = set(mapping) if isinstance(mapping, dict) else set()
        # names handled explicitly inside the converter (e.g. NDBC builds efth from spectral_wave_density)
        body_txt = unparse(sym.node)
        handled = {x for x in native if x in renamed or f"'{x}'" in body_txt or f".{x}" in body_txt}
        calls_rename = any(isinstance(c, ast.Call) and isinstance(c.func, ast.Attribute) and c.func.attr == "rename" for c in ast.walk(sym.node))
        if native and (not calls_rename or not native <= handled):
            rep.fail("R-C12-3", fi.file, node.lineno, fi.qualname, f"elif not {a} - vars_dset: func = {target}", anchor=f"read_dataset:{tag_of[a]}->{target}:no-rename", reason=
                     f"the dataset is identified by the native names {sorted(native)} but {target} does not map "
                     f"{sorted(native - handled) if calls_rename else sorted(native)} onto wavespectra names: the result keeps native variable / "
                     "dimension names")
        else:
            rep.ok("R-C12-3", f"{fi.file}:{node.lineno} read_dataset", f"{a} -> {target}", f"{target} renames {sorted(native)}")


def ndbc_pairing(repo, rep):
    """R-C12-6: first harmonic (r1) centred on the mean direction alpha1, second harmonic (r2, angle doubled) on the principal
    direction alpha2 - NDBC's definition of the four directional parameters."""
    rep.rule("R-C12-6", "NDBC directional reconstruction pairs r1 with mean_wave_dir (first harmonic) and r2 with principal_wave_dir (second "
                        "harmonic, doubled angle), through the argument binding of the helper")
    WANT = {1: ("wave_spectrum_r1", "mean_wave_dir"), 2: ("wave_spectrum_r2", "principal_wave_dir")}
    fn = repo.func("wavespectra.input.ndbc.from_ndbc")
    from ..astutil import bound_args, resolve
    holder, binding = fn, {}
    call = next((c for c in ast.walk(fn.node) if isinstance(c, ast.Call) and call_name(c).split(".")[-1] == "_construct_spectra"), None)
    if call is not None:
        holder = repo.func("wavespectra.input.ndbc._construct_spectra")
        b = bound_args(repo, fn, call)
        if b is None:
            raise AnalysisError("from_ndbc: arguments of _construct_spectra not bound")
        binding = b

    def origin(e):
        # -> the dataset variable name an operand comes from
        if isinstance(e, ast.Name) and e.id in binding:
            e = binding[e.id]
        elif isinstance(e, ast.Name):
            e = resolve(holder.node, e, before=10 ** 9) or e
        names = [x.attr for x in ast.walk(e) if isinstance(x, ast.Attribute)] + [x.value for x in ast.walk(e) if isinstance(x, ast.Constant) and isinstance(x.value, str)]
        return next((n for n in names if n in {w for v in WANT.values() for w in v}), None)
    found = {}
    for m in ast.walk(holder.node):
        if isinstance(m, ast.BinOp) and isinstance(m.op, ast.Mult):
            for cosn, other in ((m.left, m.right), (m.right, m.left)):
                if isinstance(cosn, ast.Call) and call_name(cosn).split(".")[-1] == "cos" and cosn.args:
                    arg = cosn.args[0]
                    subs = [x for x in ast.walk(arg) if isinstance(x, ast.BinOp) and isinstance(x.op, ast.Sub)]
                    if not subs:
                        continue
                    harmonic = 2 if any(isinstance(x, ast.Constant) and x.value == 2 for x in ast.walk(arg)) else 1
                    found[harmonic] = (origin(other), origin(subs[0].right), m)
    if set(found) != {1, 2}:
        raise AnalysisError("NDBC: the two harmonics r*cos(n*(dir - alpha)) were not found")
    for h in (1, 2):
        r_, a_, node = found[h]
        if (r_, a_) == WANT[h]:
            rep.ok("R-C12-6", f"{holder.file}:{node.lineno} {holder.short}", f"harmonic {h}: {r_} * cos({h}(dir - {a_}))", "NDBC pairing")
        else:
            rep.fail("R-C12-6", holder.file, (call or node).lineno, fn.qualname, f"harmonic {h}: {r_} * cos({h}(dir - {a_}))",
                     f"the {'first' if h == 1 else 'second'} harmonic must be {WANT[h][0]} * cos({h}(dir - {WANT[h][1]})): with the two directions "
                     "exchanged every bin's energy is put at another physical direction (the integral over direction is unchanged, so no "
                     "variance check notices)")


_LOSSY = ("round", "around", "round_", "rint", "floor", "ceil", "trunc", "fix")


def _lossy_calls(tree):
    out = []
    for c in ast.walk(tree):
        if isinstance(c, ast.Call):
            nm = call_name(c).split(".")[-1] if call_name(c) else (c.func.attr if isinstance(c.func, ast.Attribute) else "")
            if isinstance(c.func, ast.Attribute) and c.func.attr in _LOSSY:
                nm = c.func.attr
            if nm in _LOSSY:
                out.append(c)
            if isinstance(c.func, ast.Attribute) and c.func.attr == "astype" and c.args and "int" in unparse(c.args[0]):
                out.append(c)
    return out


def lossless_coordinates(repo, rep):
    """R-C12-7: the converters move every bin to its physical direction / frequency exactly: no rounding of converted values."""
    rep.rule("R-C12-7", "no converter rounds or truncates a converted coordinate or density (np.round / rint / floor / astype(int) ...): a rounded "
                        "direction or frequency moves bins and changes the bin widths the variance is integrated with")
    # positive control: the detector must recognise the idiom it is armed for
    if len(_lossy_calls(ast.parse("a = np.round(x * R2D, 2); b = x.round(1); c = x.astype(int)"))) != 3:
        raise AnalysisError("R-C12-7 self-test: rounding idioms not recognised")
    n = 0
    for q in list(NATIVE) + ["wavespectra.input.era5.from_era5", "wavespectra.input.ndbc.from_ndbc", "wavespectra.input.ndbc._construct_spectra"]:
        try:
            fi = repo.func(q)
        except AnalysisError:
            continue
        n += 1
        bad = _lossy_calls(fi.node)
        if bad:
            rep.fail("R-C12-7", fi.file, bad[0].lineno, fi.qualname, unparse(bad[0])[:100],
                     "converted values are rounded: bins no longer sit at their physical direction / frequency, and the converted bin widths differ "
                     "from the native ones, so the integrated variance changes")
        else:
            rep.ok("R-C12-7", f"{fi.file}:{fi.node.lineno} {fi.short}", "no rounding / truncation call", "conversions are exact affine maps")
    rep.floor("R-C12-7", "converters examined", n, 5)


def unconditional_factors(repo, rep):
    """R-C12-10: a unit-conversion factor applied to the spectrum or to a coordinate is one value, not a choice made at run time from the data:
    a local that multiplies / divides dataset contents in a converter has a single definition (or several identical ones)."""
    rep.rule("R-C12-10", "conversion factors in the model converters are unconditional: no factor is selected by a test on the data (a heuristic 'already in "
                         "degrees?' mis-fires on valid native files and leaves both the density and the labels unconverted)")
    n_ = 0
    for q in ("wavespectra.input.ww3.from_ww3", "wavespectra.input.ncswan.from_ncswan", "wavespectra.input.wwm.from_wwm", "wavespectra.input.era5.from_era5",
              "wavespectra.input.ndbc.from_ndbc"):
        fi = repo.try_func(q)
        if fi is None:
            raise AnalysisError(f"{q} vanished")
        p0 = fi.params[0] if fi.params else None
        for b in ast.walk(fi.node):
            if not (isinstance(b, ast.BinOp) and isinstance(b.op, (ast.Mult, ast.Div))):
                continue
            for data, fac in ((b.left, b.right), (b.right, b.left)):
                if not isinstance(fac, ast.Name) or fac.id in fi.params:
                    continue
                if not any(isinstance(x, (ast.Subscript, ast.Attribute)) and isinstance(x.value, ast.Name) and x.value.id == p0 for x in ast.walk(data)):
                    continue
                defs = [a for a in ast.walk(fi.node) if isinstance(a, ast.Assign) and any(isinstance(t, ast.Name) and t.id == fac.id for t in a.targets)]
                if not defs:
                    continue
                n_ += 1
                vals = {unparse(a.value) for a in defs}
                if len(vals) > 1:
                    rep.fail("R-C12-10", fi.file, b.lineno, fi.qualname, f"{unparse(b)[:70]}  with {fac.id} in {sorted(vals)}",
                             f"the factor '{fac.id}' is chosen at run time between {sorted(vals)}: for the files on which the test mis-fires the spectrum keeps its "
                             "native units and direction labels", anchor=f"conditional-factor:{fi.name}:{fac.id}")
                else:
                    rep.ok("R-C12-10", f"{fi.file}:{b.lineno} {fi.name}", unparse(b)[:70], f"{fac.id} has one definition")
    return n_


def dispatcher_names(repo, rep):
    """R-C12-8: the signature sets contain names that are only DIMENSIONS in real files (nfreq, ndir, nbstation, points, station), so the set
    they are tested against must contain the dataset's dimensions as well as its variables."""
    rep.rule("R-C12-8", "the name set the dispatcher tests the convention signatures against contains the dataset's dimension names as well as its "
                        "variable names (several signatures name dimensions that have no coordinate variable)")
    fi = repo.func("wavespectra.input.dataset.read_dataset")
    from ..astutil import resolve
    cands = {}
    for n in ast.walk(fi.node):
        if isinstance(n, ast.BinOp) and isinstance(n.op, ast.Sub) and isinstance(n.right, ast.Name) and isinstance(n.left, ast.Name):
            cands[n.right.id] = cands.get(n.right.id, 0) + 1
        if isinstance(n, ast.Call) and isinstance(n.func, ast.Attribute) and n.func.attr in ("issubset", "issuperset") and n.args and isinstance(n.args[0], ast.Name):
            cands[n.args[0].id] = cands.get(n.args[0].id, 0) + 1
        if isinstance(n, ast.Compare) and len(n.ops) == 1 and isinstance(n.ops[0], (ast.LtE, ast.GtE)) and isinstance(n.left, ast.Name) and isinstance(n.comparators[0], ast.Name):
            for x in (n.left.id, n.comparators[0].id):
                cands[x] = cands.get(x, 0) + 1
    if not cands:
        raise AnalysisError("read_dataset: signature tests not found")
    name = max(cands, key=cands.get)
    defs = [a for a in ast.walk(fi.node) if isinstance(a, ast.Assign) and any(isinstance(t, ast.Name) and t.id == name for t in a.targets)]
    if len(defs) != 1:
        raise AnalysisError(f"read_dataset: definition of the tested name set '{name}' not unique")
    attrs_ = set()
    stack = [defs[0].value]
    seen = set()
    while stack:
        e = stack.pop()
        for x in ast.walk(e):
            if isinstance(x, ast.Attribute):
                attrs_.add(x.attr)
            if isinstance(x, ast.Name) and x.id not in seen and x.id not in fi.params:
                seen.add(x.id)
                for a in ast.walk(fi.node):
                    if isinstance(a, ast.Assign) and any(isinstance(t, ast.Name) and t.id == x.id for t in a.targets) and a is not defs[0]:
                        stack.append(a.value)
    has_vars = bool(attrs_ & {"variables", "data_vars", "coords", "keys"}) or any(
        isinstance(c, ast.Call) and call_name(c) in ("set", "list", "frozenset") and c.args and unparse(c.args[0]) == fi.params[0] for c in ast.walk(defs[0].value))
    has_dims = bool(attrs_ & {"dims", "sizes"})
    if has_vars and has_dims:
        rep.ok("R-C12-8", f"{fi.file}:{defs[0].lineno} read_dataset", unparse(defs[0])[:100], "variables and dimensions")
    else:
        rep.fail("R-C12-8", fi.file, defs[0].lineno, fi.qualname, unparse(defs[0])[:100],
                 "the convention signatures name dimensions (nfreq, ndir, nbstation, points, station) that have no coordinate variable in the "
                 f"model files: a name set built from {'variables' if has_vars else 'dimensions'} only never matches them and the dataset is rejected or "
                 "mis-identified")


def no_positional_turn(repo, rep):
    """R-C12-9: direction conventions are converted by re-labelling the coordinate ((dir + 180) % 360, R2D * dir ...), never by moving the data
    along the axis: a roll by n/2 bins equals a 180-degree turn only on a regular full circle with an even number of bins stored in order."""
    rep.rule("R-C12-9", "converters change the direction convention by re-labelling the direction coordinate, never by rolling / shifting / reversing the data "
                        "along the direction axis (which assumes a regular, even-sized, ordered full circle)")
    n = 0
    for q in list(NATIVE) + ["wavespectra.input.era5.from_era5", "wavespectra.input.ndbc.from_ndbc"]:
        try:
            fi = repo.func(q)
        except AnalysisError:
            continue
        n += 1
        bad = [c for c in ast.walk(fi.node) if isinstance(c, ast.Call) and isinstance(c.func, ast.Attribute) and c.func.attr in ("roll", "shift")
               or (isinstance(c, ast.Call) and (call_name(c) or "").split(".")[-1] in ("roll", "flip", "fliplr", "flipud"))]
        if bad:
            rep.fail("R-C12-9", fi.file, bad[0].lineno, fi.qualname, unparse(bad[0])[:100],
                     "the data are moved along the direction axis instead of the coordinate being re-labelled: with an odd number of bins, unequal "
                     "spacing or bins stored out of order the bins are not turned by 180 degrees and energy lands at the wrong physical direction")
        else:
            rep.ok("R-C12-9", f"{fi.file}:{fi.node.lineno} {fi.short}", "no roll / shift / flip", "conventions converted through the coordinate labels")
    rep.floor("R-C12-9", "converters examined", n, 5)


def run(repo, rep, tier):
    rep.rule("R-C12-12", "the converters' density / coordinate conversions are unconditional (presence of variables and arguments aside) and linear in the density (no where / clip / fillna)")
    from .round7b import converters_unconditional_linear
    converters_unconditional_linear(repo, rep, "R-C12-12")
    from .round7b import hygiene
    hygiene(repo, rep, "C12", ('wavespectra.input.ww3', 'wavespectra.input.ncswan', 'wavespectra.input.wwm', 'wavespectra.input.era5', 'wavespectra.input.ndbc', 'wavespectra.input.dataset', 'wavespectra.core.utils'), falsy=True)
    rep.rule("R-C12-11", "direction / frequency grids built with arange / linspace keep NumPy's own (float) dtype or a literal float dtype: a dtype borrowed "
                         "from a data variable truncates a fractional step, placing the spectra on wrong directions")
    from .round7 import grid_dtype_from_data
    grid_dtype_from_data(repo, rep, "R-C12-11")
    unconditional_factors(repo, rep)
    rep.rule("R-C12-5", "every parameter of the functions behind this property is read (model-native converters): none is accepted and then ignored, and no control parameter (cutoff, limit, tolerance, window, count, switch) is replaced by another value before use (coercion and default filling aside)")
    from .shared import unused_parameters
    unused_parameters(repo, rep, "R-C12-5", ("wavespectra.input.ww3", "wavespectra.input.ncswan", "wavespectra.input.wwm", "wavespectra.input.era5", "wavespectra.input.ndbc", "wavespectra.input.dataset"), "model-native converters")
    rep.rule("R-C12-1", "starting from each format's native convention, the converted density types as m2 s deg-1 (linear in the native "
                        "density), frequency as Hz, directions as degrees nautical coming-from in [0,360); winds as m s-1 and coming-from")
    rep.rule("R-C12-2", "WWM: sigma -> f Jacobian (2 pi) present on both coordinate and density, action -> energy by sigma")
    rep.rule("R-C12-3", "dispatcher: specific-before-general order, ValueError otherwise, and each branch's reader renames that branch's "
                        "identifying names")
    rep.rule("R-C12-4", "(shared with C17) converters do not scale the caller's dataset in place")
    from ..effects import Engine
    eng = Engine(repo)
    eng.solve()
    for q in list(NATIVE) + ["wavespectra.input.era5.from_era5", "wavespectra.input.ndbc.from_ndbc", "wavespectra.input.dataset.read_dataset"]:
        fi = repo.func(q)
        effs = [(k, e) for k, e in eng.summ[fi.qualname].effects.items() if k[0].startswith("p:")]
        if effs:
            (r, rp), e = effs[0]
            rep.fail("R-C12-4", e.file, e.line, fi.qualname, e.construct, f"{e.what}: the caller's dataset is modified, a second conversion of the same object converts twice", list(e.via))
        else:
            rep.ok("R-C12-4", f"{fi.file}:{fi.node.lineno} {fi.short}", "no write effect on the input dataset", "effect summary")
    no_positional_turn(repo, rep)
    try:
        converters(repo, rep)
    except AnalysisError as e_:
        # an in-place scaling already reported above is also what defeats the typing of that converter: keep the violation, note the rest
        if not rep.has_new_findings():
            raise
        rep.note(f"typing of the converters stopped after the violation above: {e_}")
    jacobian(repo, rep)
    dispatcher(repo, rep)
    ndbc_pairing(repo, rep)
    lossless_coordinates(repo, rep)
    dispatcher_names(repo, rep)
    rep.trust("native-convention table NATIVE (format documentation / reader docstrings); Python ast; units algebra of sa/units.py")
    rep.assume("WWM SPDIR spans one circle [0, 2pi): a positive unit conversion keeps it in [0, 360)")
    rep.note("not decided: equality of integrated variance native vs converted (numeric); lon/lat time-dependence handling at run time")
    return ("Static unit / direction-convention typing of every converter: the units interpreter is seeded with each format's native "
            "convention (independent table) and the types of what the converter stores as efth / freq / dir / wspd / wdir are compared "
            "with wavespectra's convention (degree/radian factors, 180-degree turn, mod 360, log10 handling, action->energy Jacobian); "
            "plus dispatcher order and reader contract, and absence of in-place scaling (shared effect analysis).")
