"""C13 - instrument file readers: units/convention of the conversion step, spreading normalisation, 1-D passthrough,
2-D = 1-D x spreading, time sorting, direction reordering.  (Parsing correctness itself is not decidable statically.)"""
import ast
from fractions import Fraction as Fr

from ..model import UNKNOWN, FuncInfo, call_name, kwarg, unparse
from ..report import AnalysisError
from ..units import Q, UEval, lit
from ..astutil import resolve
from .c12 import NativeTable, spreading_norm


def conversions(repo, rep):
    n = 0
    # WW3 station: m2 s rad-1 -> deg-1 ; directions radians cartesian -> degrees nautical coming-from in [0,360)
    fi = repo.func("wavespectra.input.ww3_station.read_ww3_station")
    found = False
    for s in ast.walk(fi.node):
        if isinstance(s, ast.AugAssign) and isinstance(s.op, (ast.Mult, ast.Div)) and "spec" in unparse(s.target):
            c = repo.const(fi.module, s.value)
            if isinstance(c, float):
                found = True
                f = c if isinstance(s.op, ast.Mult) else 1 / c
                n += 1
                if abs(f - 0.017453292519943295) < 1e-12:
                    rep.ok("R-C13-1", f"{fi.file}:{s.lineno} read_ww3_station", unparse(s), "per radian -> per degree (x pi/180)")
                else:
                    rep.fail("R-C13-1", fi.file, s.lineno, fi.qualname, unparse(s), f"WW3 station densities are per radian: the factor to per-degree is pi/180, not {f:.6g}")
    if not found:
        rep.fail("R-C13-1", fi.file, fi.node.lineno, fi.qualname, "density conversion", "WW3 station densities (m2 s rad-1) are not converted to per degree")
    ed = repo.func("wavespectra.input.ww3_station.extract_direction")
    tab = NativeTable(repo, {})
    ev = UEval(repo, ed, {ed.params[0]: Q({}, ang={"conv": "cart", "sense": "to", "mod": False, "rad": True})}, {}, tab)
    ev.run()
    # structural: ((x - 2.5 pi) mod 2 pi) * R2D + 270, mod 360
    t = unparse(ed.node).replace(" ", "")
    from ..astutil import returns as _rets
    rr_ = _rets(ed.node)
    rets = [x[0] for x in rr_]
    rv = rr_[-1][1]
    if isinstance(rv, ast.BinOp) and isinstance(rv.op, ast.Mod) and repo.const(ed.module, rv.right) == 360 and "R2D" in unparse(rv):
        rep.ok("R-C13-1", f"{ed.file}:{rets[-1].lineno} extract_direction", unparse(rv), "radians -> degrees, reduced modulo 360")
    else:
        rep.fail("R-C13-1", ed.file, rets[-1].lineno, ed.qualname, unparse(rets[-1]), "directions must be converted to degrees (x R2D) and reduced modulo 360")
    n += 1
    # (dir, freq) -> (freq, dir)
    dname = fname = None
    for c in ast.walk(fi.node):
        if isinstance(c, ast.Call) and isinstance(c.func, ast.Attribute) and c.func.attr == "extend" and c.args and isinstance(c.args[0], ast.Call) \
                and call_name(c.args[0]) == "map" and c.args[0].args:
            m0 = unparse(c.args[0].args[0])
            if m0 == "extract_direction":
                dname = unparse(c.func.value)
            elif m0 == "float" and fname is None:
                fname = unparse(c.func.value)
    resh = [c for c in ast.walk(fi.node) if isinstance(c, ast.Call) and isinstance(c.func, ast.Attribute) and c.func.attr == "reshape" and len(c.args) == 5]
    swp = [c for c in ast.walk(fi.node) if isinstance(c, ast.Call) and isinstance(c.func, ast.Attribute) and c.func.attr == "swapaxes"
           and [repo.const(fi.module, a_) for a_ in c.args] == [3, 4]]
    if dname and fname and resh and swp and [unparse(a_).replace(" ", "") for a_ in resh[0].args[-2:]] == [f"len({dname})", f"len({fname})"]:
        rep.ok("R-C13-1", f"{fi.file} read_ww3_station", "reshape(..., ndir, nfreq).swapaxes(3, 4)", "file order (dir, freq) -> (freq, dir)")
    else:
        rep.fail("R-C13-1", fi.file, fi.node.lineno, fi.qualname, "axis order", "WW3 station blocks are (dir, freq): they must be reshaped so and swapped to (freq, dir)")
    # Obscape: x pi/180 ; XWaves: / R2D
    for qual, pat in (("wavespectra.input.xwaves.read_xwaves", "spec2d"),):
        f2 = repo.func(qual)
        ok = False
        for b in ast.walk(f2.node):
            if isinstance(b, ast.BinOp) and isinstance(b.op, (ast.Div, ast.Mult)) and pat in unparse(b.left):
                c = repo.const(f2.module, b.right)
                if isinstance(c, float):
                    f = 1 / c if isinstance(b.op, ast.Div) else c
                    n += 1
                    if abs(f - 0.017453292519943295) < 1e-12:
                        ok = True
                        rep.ok("R-C13-1", f"{f2.file}:{b.lineno} {f2.short}", unparse(b)[:60], "per radian -> per degree")
                    else:
                        rep.fail("R-C13-1", f2.file, b.lineno, f2.qualname, unparse(b)[:80], f"factor {f:.6g} is not pi/180")
                        ok = True
        if not ok:
            rep.fail("R-C13-1", f2.file, f2.node.lineno, f2.qualname, "density conversion", "XWaves densities (per radian) are not converted to per degree")
    ob = repo.module("wavespectra.input.obscape")
    from .c12 import _const_factor

    class _FI:      # minimal stand-in so that _const_factor can constant-evaluate in the module
        module = ob
    okob = False
    for b in ast.walk(ob.tree):
        if isinstance(b, ast.BinOp) and isinstance(b.op, (ast.Mult, ast.Div)) and not isinstance(getattr(b, "_parent", None), ast.BinOp):
            c = _const_factor(repo, _FI, b)
            if abs(c - 0.017453292519943295) < 1e-12 and repo.const(ob, b) is UNKNOWN:
                okob = True
                n += 1
                rep.ok("R-C13-1", f"{ob.relpath}:{b.lineno} obscape", unparse(b)[:70], "per radian -> per degree (constant factor pi/180)")
    if not okob:
        rep.fail("R-C13-1", ob.relpath, 1, "wavespectra.input.obscape", "density conversion", "Obscape densities (per radian) are not converted to per degree")
    # SWAN ASCII: / E2V only for J units; to_nautical only for CDIR
    sf = repo.cls("wavespectra.core.swan.SwanSpecFile")
    init, rd = sf.methods["__init__"], sf.methods["read"]
    def _self_assign(stmts, attr):
        for st in stmts:
            if isinstance(st, ast.Assign) and len(st.targets) == 1 and unparse(st.targets[0]) == f"self.{attr}":
                return st.value
        return None
    uf_ok = False
    for i_ in ast.walk(init.node):
        if isinstance(i_, ast.If) and any(isinstance(c, ast.Call) and isinstance(c.func, ast.Attribute) and c.func.attr == "startswith" and c.args
                                          and repo.const(init.module, c.args[0]) == "J" for c in ast.walk(i_.test)) and not isinstance(i_.test, ast.UnaryOp):
            tv, fv = _self_assign(i_.body, "units_factor"), _self_assign(i_.orelse, "units_factor")
            if tv is not None and fv is not None and unparse(tv) == "E2V" and repo.const(init.module, fv) == 1.0:
                uf_ok = True
    div_ok = any(isinstance(b_, ast.BinOp) and isinstance(b_.op, ast.Div) and unparse(b_.right) == "self.units_factor" for b_ in ast.walk(rd.node))
    if uf_ok and div_ok:
        rep.ok("R-C13-1", f"{init.file} SwanSpecFile", "J/m2 -> divide by rho g; otherwise factor 1", "ENERGY vs VaDens units")
    else:
        rep.fail("R-C13-1", init.file, init.node.lineno, init.qualname, "units factor", "energy-density files (J/m2/..) must be divided by rho*g, variance-density files left unchanged")
    e2v = repo.const(repo.module("wavespectra.core.swan"), repo.module("wavespectra.core.swan").consts["E2V"])
    if isinstance(e2v, float) and abs(e2v - 1025 * 9.81) < 1e-9:
        rep.ok("R-C13-1", "wavespectra/core/swan.py E2V", f"{e2v}", "rho g with rho = 1025, g = 9.81 (SWAN's constants)")
    else:
        rep.fail("R-C13-1", "wavespectra/core/swan.py", 1, "wavespectra.core.swan", f"E2V = {e2v}", "E2V must be rho*g = 1025*9.81")
    dc_ok = False
    for i_ in ast.walk(init.node):
        if isinstance(i_, ast.If) and unparse(i_.test) == "self.ndir":
            tv, fv = _self_assign(i_.body, "dirs"), _self_assign(i_.orelse, "dirs")
            if tv is not None and fv is not None:
                t_conv = any(isinstance(c, ast.Call) and call_name(c) == "to_nautical" for c in ast.walk(tv))
                f_conv = isinstance(fv, ast.Call) and call_name(fv) == "to_nautical" and "self.cdir" in unparse(fv)
                dc_ok = (not t_conv) and f_conv and "self.ndir" in unparse(tv)
    if dc_ok:
        rep.ok("R-C13-1", f"{init.file} SwanSpecFile", "NDIR as is; CDIR through to_nautical", "cartesian directions converted, nautical ones not")
    else:
        rep.fail("R-C13-1", init.file, init.node.lineno, init.qualname, "direction convention", "only CDIR (cartesian) directions may be passed through to_nautical")
    tn = repo.func("wavespectra.core.utils.to_nautical")
    from ..astutil import returns as _rets2
    tv_ = _rets2(tn.node)
    rv_ = tv_[-1][1] if tv_ else None
    def _is_tn(e):
        if isinstance(e, ast.Call) and call_name(e).split(".")[-1] == "mod" and len(e.args) == 2:
            x, m = e.args
        elif isinstance(e, ast.BinOp) and isinstance(e.op, ast.Mod):
            x, m = e.left, e.right
        else:
            return False
        return repo.const(tn.module, m) == 360 and isinstance(x, ast.BinOp) and isinstance(x.op, ast.Sub) and repo.const(tn.module, x.left) == 270 \
            and unparse(x.right) == tn.params[0]
    if len(tv_) == 1 and _is_tn(rv_):
        rep.ok("R-C13-1", f"{tn.file}:{tn.node.lineno} to_nautical", "mod(270 - ang, 360)", "cartesian going-to -> nautical coming-from")
    else:
        rep.fail("R-C13-1", tn.file, tn.node.lineno, tn.qualname, unparse(tn.node.body[-1]), "to_nautical must be (270 - ang) mod 360")
    rep.floor("R-C13-1", "conversion factors checked", n, 4)


def passthrough_and_product(repo, rep):
    """R-C13-3 / R-C13-4: Spotter.read / Datawell.read: with dd None efth is untouched; otherwise efth * cartwright(dir, dmf, dsprf)."""
    for qual in ("wavespectra.input.spotter.Spotter.read", "wavespectra.input.datawell.Datawell.read"):
        fi = repo.func(qual)
        guards = [n for n in ast.walk(fi.node) if isinstance(n, ast.If) and unparse(n.test).replace(" ", "") == "ddisnotNone"]
        if len(guards) != 1:
            raise AnalysisError(f"{fi.short}: `if dd is not None` not found")
        g = guards[0]
        spec = repo.attrs.SPECNAME
        stores_in = [s for s in ast.walk(g) if isinstance(s, ast.Assign) and isinstance(s.targets[0], ast.Subscript) and repo.const(fi.module, s.targets[0].slice) == spec]
        gnodes = {id(x) for x in ast.walk(g)}
        stores_out = [s for s in ast.walk(fi.node) if isinstance(s, (ast.Assign, ast.AugAssign)) and id(s) not in gnodes and
                      isinstance((s.targets[0] if isinstance(s, ast.Assign) else s.target), ast.Subscript) and
                      repo.const(fi.module, (s.targets[0] if isinstance(s, ast.Assign) else s.target).slice) == spec]
        # outside the guard efth may only be built from the file (Datawell: data column * smax)
        scaled_out = [s for s in stores_out if isinstance(s, ast.AugAssign)]
        if scaled_out:
            rep.fail("R-C13-3", fi.file, scaled_out[0].lineno, fi.qualname, unparse(scaled_out[0])[:100], "the 1-D spectrum must be returned as the file gives it")
        else:
            rep.ok("R-C13-3", f"{fi.file}:{g.lineno} {fi.short}", "dd is None: efth not multiplied by anything", "1-D form = the file's frequency spectrum")
        if len(stores_in) != 1:
            rep.fail("R-C13-4", fi.file, g.lineno, fi.qualname, "directional branch", "the 2-D spectrum must be assigned once as efth(f) * G(f, dir)")
            continue
        v = stores_in[0].value
        names = {unparse(v.left), unparse(v.right)} if isinstance(v, ast.BinOp) and isinstance(v.op, ast.Mult) else set()
        cw = [c for c in ast.walk(g) if isinstance(c, ast.Call) and call_name(c) == "cartwright"]
        okcw = False

        def dir_is_axis(nm):
            # the `dir` argument is the local built as the DataArray of the output direction axis (dims = DIRNAME)
            for a_ in ast.walk(fi.node):
                if isinstance(a_, ast.Assign) and isinstance(a_.targets[0], ast.Name) and a_.targets[0].id == nm:
                    for c_ in ast.walk(a_.value):
                        if isinstance(c_, ast.Call) and call_name(c_).split(".")[-1] == "arange" and [unparse(x) for x in c_.args] == ["0", "360", "dd"]:
                            return True
            return False
        if cw:
            from ..astutil import bound_args
            b_ = bound_args(repo, fi, cw[0]) or {}
            kws = {k_: unparse(v_) for k_, v_ in b_.items()}
            u90 = b_.get("under_90")
            okcw = kws.get("dm", "").endswith(".dmf") and kws.get("dspr", "").endswith(".dsprf") and dir_is_axis(kws.get("dir")) and \
                (u90 is None or repo.const(fi.module, u90) is False)
        spread_name = None
        for s in ast.walk(g):
            if isinstance(s, ast.Assign) and isinstance(s.value, ast.Call) and call_name(s.value) == "cartwright":
                spread_name = s.targets[0].id
        other = names - {spread_name}
        if okcw and spread_name in names and len(other) == 1 and (next(iter(other)).endswith(f".{spec}") or next(iter(other)).endswith(f"['{spec}']")):
            rep.ok("R-C13-4", f"{fi.file}:{stores_in[0].lineno} {fi.short}", unparse(stores_in[0]), "2-D = 1-D x normalised spreading (mean direction and spread per frequency)")
        else:
            rep.fail("R-C13-4", fi.file, stores_in[0].lineno, fi.qualname, unparse(stores_in[0])[:100] + ("; " + unparse(cw[0])[:80] if cw else ""),
                     "the directional spectrum must be exactly efth(f) * cartwright(dir, dm=dmf, dspr=dsprf): any other factor or argument breaks "
                     "'integrating over direction gives back the file's frequency spectrum'")
    # NDBC ascii: single-file path leaves specdens untouched
    fi = repo.func("wavespectra.input.ndbc_ascii.read_ndbc_ascii")
    g = [n for n in ast.walk(fi.node) if isinstance(n, ast.If) and unparse(n.test).replace(" ", "") == "len(filename)==1"]
    if g and not any(isinstance(s, (ast.Assign, ast.AugAssign)) and "specdens" in unparse(s.targets[0] if isinstance(s, ast.Assign) else s.target) for s in g[0].body):
        rep.ok("R-C13-3", f"{fi.file}:{g[0].lineno} read_ndbc_ascii", "one file: densities untouched, dirs = [0.0]", "1-D passthrough")
    else:
        rep.fail("R-C13-3", fi.file, fi.node.lineno, fi.qualname, "single-file path", "the 1-D spectrum must be returned as the file gives it")
    fi = repo.func("wavespectra.input.ndbc.from_ndbc")
    t = unparse(fi.node).replace(" ", "")
    if "else:dset=dset.spectral_wave_density" in t.replace("\n", ""):
        rep.ok("R-C13-3", f"{fi.file} from_ndbc", "directional=False: dset.spectral_wave_density as is", "1-D passthrough")
    else:
        rep.fail("R-C13-3", fi.file, fi.node.lineno, fi.qualname, "non-directional path", "the 1-D spectrum must be returned unchanged")


def time_sorted(repo, rep):
    for qual, what in (("wavespectra.input.spotter.Spotter.read", "merge(...).sortby('time')"),
                       ("wavespectra.input.datawell.read_datawell", "concat(...).sortby('time')"),
                       ("wavespectra.input.ndbc_ascii.read_ndbc_ascii", "sortby('time', ascending=True)")):
        fi = repo.func(qual)
        sb = [c for c in ast.walk(fi.node) if isinstance(c, ast.Call) and isinstance(c.func, ast.Attribute) and c.func.attr == "sortby"
              and c.args and repo.const(fi.module, c.args[0]) == repo.attrs.TIMENAME]
        asc = [c for c in sb if kwarg(c, "ascending") is None or repo.const(fi.module, kwarg(c, "ascending")) is True]
        # the sorted object must be what is returned (no conditional flip instead)
        flips = [n for n in ast.walk(fi.node) if isinstance(n, ast.Subscript) and isinstance(n.slice, ast.Slice) and n.slice.step is not None and "time" in unparse(n).lower()]
        if asc and not flips:
            rep.ok("R-C13-5", f"{fi.file}:{asc[0].lineno} {fi.short}", what, "records sorted by time whatever their order in the file(s)")
        else:
            rep.fail("R-C13-5", fi.file, fi.node.lineno, fi.qualname, "time ordering",
                     "the reader must sort the records by time (sortby('time')): reversing or trusting the file order returns unsorted "
                     "times for files whose records are neither ascending nor exactly descending")


_SORTERS = ("sorted", "sort", "unique", "argsort")


def _comp_groups(tree):
    """name -> (iterable name, wrapped in a sorting call?) for names assigned from a comprehension over a plain name."""
    out = {}
    for n in ast.walk(tree):
        if isinstance(n, ast.Assign) and len(n.targets) == 1 and isinstance(n.targets[0], ast.Name):
            v, wrapped = n.value, False
            while isinstance(v, ast.Call) and v.args and call_name(v).split(".")[-1] in _SORTERS + ("array", "asarray", "list", "tuple", "stack", "concatenate", "concat"):
                if call_name(v).split(".")[-1] in _SORTERS:
                    wrapped = True
                v = v.args[0]
            if isinstance(v, (ast.ListComp, ast.GeneratorExp)) and len(v.generators) == 1 and isinstance(v.generators[0].iter, ast.Name):
                out[n.targets[0].id] = (v.generators[0].iter.id, wrapped, n)
    # the loop form the model normalises list comprehensions to:  X = [];  for d in R: X.append(e)
    for n in ast.walk(tree):
        if isinstance(n, ast.For) and isinstance(n.iter, ast.Name) and len(n.body) == 1 and isinstance(n.body[0], ast.Expr):
            c = n.body[0].value
            if isinstance(c, ast.Call) and isinstance(c.func, ast.Attribute) and c.func.attr == "append" and isinstance(c.func.value, ast.Name):
                x = c.func.value.id
                resorted = any((isinstance(a, ast.Assign) and any(isinstance(t, ast.Name) and t.id == x for t in a.targets) and isinstance(a.value, ast.Call)
                                and call_name(a.value).split(".")[-1] in _SORTERS and a.lineno > n.lineno) or
                               (isinstance(a, ast.Call) and isinstance(a.func, ast.Attribute) and a.func.attr == "sort" and unparse(a.func.value) == x)
                               for a in ast.walk(tree))
                out.setdefault(x, (n.iter.id, resorted, n))
    return out


def parallel_lists(repo, rep):
    """R-C13-12: per-record lists drawn from one sequence of parsed records stay in that sequence's order together."""
    rep.rule("R-C13-12", "lists drawn by comprehension from the same sequence of parsed records (timestamps, spectra, positions) are either all "
                         "re-ordered together or none is: sorting one of them alone pairs every record's data with another record's label")
    ctrl = _comp_groups(ast.parse("a = [d['x'] for d in R]\nb = sorted(d['t'] for d in R)"))
    if not (ctrl.get("a", (0, 1))[1] is False and ctrl.get("b", (0, 0))[1] is True):
        raise AnalysisError("R-C13-12 self-test: comprehension / sorted idioms not recognised")
    ngroups = 0
    for fi in repo.all_funcs():
        if not fi.qualname.startswith("wavespectra.input."):
            continue
        g = {}
        for name, (it, wrapped, node) in _comp_groups(fi.node).items():
            g.setdefault(it, []).append((name, wrapped, node))
        for it, members in g.items():
            if len(members) < 2:
                continue
            ngroups += 1
            w = [m for m in members if m[1]]
            u = [m for m in members if not m[1]]
            if w and u:
                rep.fail("R-C13-12", fi.file, w[0][2].lineno, fi.qualname, f"{unparse(w[0][2])[:70]}  vs  {unparse(u[0][2])[:70]}",
                         f"'{w[0][0]}' is sorted on its own while '{u[0][0]}' keeps the order of '{it}': whenever the records are not already in "
                         "that order, each spectrum is paired with another record's value")
            else:
                rep.ok("R-C13-12", f"{fi.file}:{members[0][2].lineno} {fi.short}", f"{[m[0] for m in members]} over '{it}'", "same order for all")
    rep.floor("R-C13-12", "groups of parallel per-record lists", ngroups, 1)


def ndbc_date_columns(repo, rep):
    """R-C13-11: NDBC ASCII files come with 4 (YY MM DD hh) or 5 (.. mm) date columns; the number of leading columns dropped before the
    spectral columns must follow the detected header variant."""
    rep.rule("R-C13-11", "NDBC ASCII: the number of leading date columns dropped from the table is derived from the detected header variant "
                         "(4 or 5 date columns), at every place they are dropped")
    fi = repo.func("wavespectra.input.ndbc_ascii.read_file")
    variants = [a for a in ast.walk(fi.node) if isinstance(a, ast.Assign) and isinstance(a.value, ast.Dict) and len(a.value.keys) in (4, 5)
                and isinstance(a.targets[0], ast.Name)]
    names = {a.targets[0].id for a in variants}
    if len(variants) < 2 or len(names) != 1:
        raise AnalysisError("ndbc_ascii.read_file: the two date-column variants were not found")
    dc = next(iter(names))
    derived = {dc}
    for _ in range(3):
        for a in ast.walk(fi.node):
            if isinstance(a, ast.Assign) and isinstance(a.targets[0], ast.Name) and any(isinstance(x, ast.Name) and x.id in derived for x in ast.walk(a.value)):
                derived.add(a.targets[0].id)
    n = 0
    for s_ in ast.walk(fi.node):
        if isinstance(s_, ast.Subscript) and isinstance(s_.value, ast.Attribute) and s_.value.attr == "iloc" and isinstance(s_.slice, ast.Tuple) \
                and len(s_.slice.elts) == 2 and isinstance(s_.slice.elts[1], ast.Slice) and s_.slice.elts[1].lower is not None:
            n += 1
            lo = s_.slice.elts[1].lower
            if any(isinstance(x, ast.Name) and x.id in derived for x in ast.walk(lo)):
                rep.ok("R-C13-11", f"{fi.file}:{s_.lineno} read_file", unparse(s_)[:90], f"column offset derived from '{dc}'")
            else:
                rep.fail("R-C13-11", fi.file, s_.lineno, fi.qualname, unparse(s_)[:90],
                         f"a fixed number of leading columns is dropped although the header variant detected above has 4 or 5 date columns: for the "
                         "other variant the first frequency column is lost (or a date column is read as a spectral density)")
    rep.floor("R-C13-11", "date-column drops in read_file", n, 2)


def reader_buffers(repo, rep):
    """R-C13-13: a reader object that fills an array attribute element by element for every record allocates that array afresh,
    unconditionally, before filling it - the records already handed on keep their own storage.  R-C13-14: the numpy regridding kernel that
    the readers call per record returns a new array, never its input (the per-record list would otherwise hold one array many times)."""
    rep.rule("R-C13-13", "reader objects allocate an element-wise filled array attribute afresh and unconditionally in the method that fills it (a buffer "
                         "kept while its shape is unchanged is shared by every record already emitted)")
    n = 0
    for fi in repo.all_funcs():
        if not fi.qualname.startswith(("wavespectra.input.", "wavespectra.core.swan.")) or fi.cls is None:
            continue
        filled = {}
        for st in ast.walk(fi.node):
            tg = st.targets if isinstance(st, ast.Assign) else [st.target] if isinstance(st, ast.AugAssign) else []
            for t in tg:
                if isinstance(t, ast.Subscript) and isinstance(t.value, ast.Attribute) and isinstance(t.value.value, ast.Name) and t.value.value.id == "self":
                    filled.setdefault(t.value.attr, st)
        for attr, first_fill in filled.items():
            n += 1
            allocs = [a for a in ast.walk(fi.node) if isinstance(a, ast.Assign) and any(
                isinstance(t, ast.Attribute) and isinstance(t.value, ast.Name) and t.value.id == "self" and t.attr == attr for t in a.targets)
                and any(isinstance(x, ast.Call) for x in ast.walk(a.value))]
            if not allocs:
                continue        # filled in place but allocated elsewhere (constructor): R-C13-8 covers state kept across records
            from ..astutil import path_conditions
            uncond = [a for a in allocs if a.lineno < first_fill.lineno and not path_conditions(fi.node, a)]
            if uncond:
                rep.ok("R-C13-13", f"{fi.file}:{uncond[0].lineno} {fi.short}", unparse(uncond[0])[:80], f"self.{attr} allocated afresh before it is filled")
            else:
                a0 = allocs[0]
                pcs = path_conditions(fi.node, a0)
                rep.fail("R-C13-13", fi.file, a0.lineno, fi.qualname, f"{unparse(a0)[:70]}  under `{unparse(pcs[0][0])[:60] if pcs else '?'}`",
                         f"self.{attr} is filled element by element for each record but only re-allocated under a condition: records that keep the "
                         "shape share ONE array, so every record already collected shows the values of the last one read")
    rep.floor("R-C13-13", "element-wise filled reader attributes", n, 1)
    rep.rule("R-C13-14", "interp_spec (called once per record by the readers) returns a new array on every path, never its input array")
    from ..effects import Engine
    eng = Engine(repo)
    eng.solve()
    fi = repo.func("wavespectra.core.utils.interp_spec")
    ret = eng.summ[fi.qualname].ret
    roots = {r for r, _ in (ret.all_pairs() if ret is not None else [])}
    if "p:inspec" in roots:
        from ..astutil import returns as _rets
        rr = _rets(fi.node)
        rep.fail("R-C13-14", fi.file, rr[0][0].lineno if rr else fi.node.lineno, fi.qualname, "return value may be the input array 'inspec' itself",
                 "when no interpolation is needed the kernel hands back its input: a reader that re-uses one reading buffer then stores the same array "
                 "for every record")
    else:
        rep.ok("R-C13-14", f"{fi.file}:{fi.node.lineno} interp_spec", "return value", "fresh array on every path (alias analysis of the return value)")


def progression(expr, env):
    """(start, step, count) as rational functions of an expression that builds an arithmetic progression, or None:
    np.arange(a, b, s) / np.arange(n) * s + a / np.linspace(a, b, n[, endpoint=..]) - optionally wrapped in list() / np.array()."""
    from ..ratfun import rat_of, Rat
    from ..cast import Poly
    e = expr
    while isinstance(e, ast.Call) and call_name(e).split(".")[-1] in ("list", "array", "asarray", "tuple") and len(e.args) == 1:
        e = e.args[0]
    one = Rat(Poly.const(1))
    if isinstance(e, ast.Call) and call_name(e).split(".")[-1] == "arange":
        a = [rat_of(x, env) for x in e.args]
        if len(a) == 3:
            return a[0], a[2], (a[1] - a[0]) / a[2]
        if len(a) == 2:
            return a[0], one, a[1] - a[0]
        if len(a) == 1:
            return Rat(Poly.const(0)), one, a[0]
    if isinstance(e, ast.Call) and call_name(e).split(".")[-1] == "linspace" and len(e.args) >= 3:
        a, b, n = (rat_of(x, env) for x in e.args[:3])
        ep = kwarg(e, "endpoint")
        endpoint = True if ep is None else (ep.value if isinstance(ep, ast.Constant) else None)
        if len(e.args) >= 4 and isinstance(e.args[3], ast.Constant):
            endpoint = e.args[3].value
        if endpoint is None:
            return None
        return a, (b - a) / ((n - one) if endpoint else n), n
    if isinstance(e, ast.BinOp) and isinstance(e.op, (ast.Add, ast.Mult)):
        for x, y in ((e.left, e.right), (e.right, e.left)):
            p = progression(x, env)
            if p is not None:
                try:
                    c = rat_of(y, env)
                except Exception:
                    return None
                return (p[0] + c, p[1], p[2]) if isinstance(e.op, ast.Add) else (p[0] * c, p[1] * c, p[2])
    return None


def frequency_axes(repo, rep):
    """R-C13-15: the TRIAXYS frequency axis is the header's arithmetic progression f0 + k df, k = 0 .. nf-1 (decided as a rational-function identity).
    R-C13-16: a reader converts an epoch time stamp with an explicit time zone, never through the process's local time.
    R-C13-17: a reader of per-record positions keeps them per record."""
    from ..ratfun import rat_of, Rat, NotRational
    from ..cast import Poly
    rep.rule("R-C13-15", "Triaxys.freqs is f0 + k*df for k < nf of the header (start, step and count compared as rational functions of the header values)")
    cls = repo.cls("wavespectra.input.triaxys.Triaxys")
    fi = cls.methods["freqs"]
    fnode = fi.node
    # the property written as a one-line delegate to a function taking the reader object:  return _header_freqs(self)
    rets0 = [r for r in ast.walk(fnode) if isinstance(r, ast.Return) and r.value is not None]
    if len(rets0) == 1 and isinstance(rets0[0].value, ast.Call) and len(rets0[0].value.args) == 1 and isinstance(rets0[0].value.args[0], ast.Name) \
            and rets0[0].value.args[0].id == "self":
        g = repo.resolve_expr(fi.module, rets0[0].value.func)
        if isinstance(g, FuncInfo) and g.params:
            import re as _re
            fnode = ast.parse(_re.sub(rf"\b{_re.escape(g.params[0])}\b", "self", ast.unparse(g.node))).body[0]
    env = {}
    for a in ast.walk(fnode):
        if isinstance(a, ast.Assign) and len(a.targets) == 1:
            t, v = a.targets[0], a.value
            if isinstance(t, ast.Name):
                env[t.id] = v
            elif isinstance(t, (ast.Tuple, ast.List)) and isinstance(v, (ast.Tuple, ast.List)) and len(t.elts) == len(v.elts):
                for x, y in zip(t.elts, v.elts):
                    if isinstance(x, ast.Name):
                        env[x.id] = y
    def hv(k):
        return Rat(Poly.var(f"self.header['{k}']"))
    rets = [r for r in ast.walk(fnode) if isinstance(r, ast.Return) and r.value is not None]
    if not rets:
        raise AnalysisError("Triaxys.freqs: no returned value")
    for r in rets:
        try:
            pr = progression(r.value, env)
        except NotRational:
            pr = None
        if pr is None:
            raise AnalysisError("Triaxys.freqs: the returned axis is not built by a recognised progression idiom (arange / linspace / arange*step+start)")
        st, sp, cn = pr
        bad = []
        if not st.equals(hv("f0")):
            bad.append("start is not the header's INITIAL FREQUENCY")
        if not sp.equals(hv("df")):
            bad.append("step is not the header's FREQUENCY SPACING")
        if not cn.equals(hv("nf")):
            bad.append("count is not the header's NUMBER OF FREQUENCIES")
        if bad:
            rep.fail("R-C13-15", fi.file, r.lineno, fi.qualname, unparse(r.value)[:100],
                     "; ".join(bad) + ": the frequencies attached to the spectrum are not the ones the file states (identical only when f0 = 0)", anchor="triaxys:freq-progression")
        else:
            rep.ok("R-C13-15", f"{fi.file}:{r.lineno} Triaxys.freqs", unparse(r.value)[:80], "start f0, step df, nf values")
    rep.rule("R-C13-16", "epoch time stamps are converted with an explicit time zone (or a utc conversion), never through the local time of the process")
    n16 = 0
    for m in repo.modules.values():
        if not m.name.startswith("wavespectra.input"):
            continue
        for fi2 in m.all_funcs():
            for c in ast.walk(fi2.node):
                if isinstance(c, ast.Call) and isinstance(c.func, ast.Attribute) and c.func.attr in ("fromtimestamp", "localtime", "mktime", "utcfromtimestamp"):
                    n16 += 1
                    tz = kwarg(c, "tz") is not None or len(c.args) >= 2
                    if c.func.attr == "utcfromtimestamp" or (c.func.attr == "fromtimestamp" and tz and not (isinstance(kwarg(c, "tz"), ast.Constant) and kwarg(c, "tz").value is None)):
                        rep.ok("R-C13-16", f"{fi2.file}:{c.lineno} {fi2.short}", unparse(c)[:70], "explicit time zone")
                    else:
                        rep.fail("R-C13-16", fi2.file, c.lineno, fi2.qualname, unparse(c)[:90],
                                 "the file's epoch time is converted through the local time zone of the machine that reads it: the record times differ from "
                                 "what the file says by the UTC offset of the reader", anchor=f"local-time:{fi2.short}")
    rep.floor("R-C13-16", "epoch conversions in the readers", n16, 1)
    rep.rule("R-C13-17", "readers whose files carry one position per record (Spotter) keep lon / lat per record: no time slice of them is stored back")
    sp_ = repo.module("wavespectra.input.spotter")
    n17 = 0
    for fi3 in sp_.all_funcs():
        for c in ast.walk(fi3.node):
            if isinstance(c, ast.Call) and isinstance(c.func, ast.Attribute) and c.func.attr in ("isel", "sel", "squeeze", "mean", "first", "median") \
                    and any(x in unparse(c.func.value) for x in ("lon", "lat", "LONNAME", "LATNAME")) \
                    and (any(k.arg == "time" for k in c.keywords) or any(repo.const(sp_, a_) == "time" for a_ in c.args)):
                rep.fail("R-C13-17", fi3.file, c.lineno, fi3.qualname, unparse(c)[:90],
                         "every Spotter record carries its own GPS fix: reducing lon / lat over time attaches one position to all records (a drifting "
                         "buoy's track is lost)", anchor=f"spotter-position:{fi3.short}")
                n17 += 1
    rep.ok("R-C13-17", "wavespectra/input/spotter.py", f"{len(list(sp_.all_funcs()))} functions", "no reduction of lon / lat over time") if not n17 else None


def run(repo, rep, tier):
    rep.rule("R-C13-21", "readers return the positions the file holds: no longitude read from a file is reduced modulo 360")
    from .round7b import reader_positions_unchanged
    reader_positions_unchanged(repo, rep, "R-C13-21")
    from .round7b import hygiene
    hygiene(repo, rep, "C13", ('wavespectra.input.', 'wavespectra.core.swan'), falsy=True)
    rep.rule("R-C13-19", "(shared with C12) coordinate grids built with arange / linspace do not borrow their dtype from file data")
    rep.rule("R-C13-20", "no zip() in a reader pairs a fixed-length literal with file-derived columns / rows without strict=True (silent truncation of date "
                         "fields or trailing columns)")
    from .round7 import grid_dtype_from_data, silent_zip_truncation
    grid_dtype_from_data(repo, rep, "R-C13-19", prefixes=("wavespectra.input.", "wavespectra.core.swan"))
    silent_zip_truncation(repo, rep, "R-C13-20", prefixes=("wavespectra.input.", "wavespectra.core.swan"))
    rep.rule("R-C13-18", "(shared with C08) spectra of later TRIAXYS files are re-gridded with ZERO energy outside their own frequency range (np.interp left = right = 0): "
                         "a later file never shows energy at frequencies it does not contain")
    from .c08 import interp_zero_fill as _izf
    rep.floor("R-C13-18", "np.interp calls in interp_spec", _izf(repo, rep, "R-C13-18"), 2)
    frequency_axes(repo, rep)
    rep.rule("R-C13-10", "every parameter of the functions behind this property is read (file readers): none is accepted and then ignored, and no control parameter (cutoff, limit, tolerance, window, count, switch) is replaced by another value before use (coercion and default filling aside)")
    from .shared import unused_parameters
    unused_parameters(repo, rep, "R-C13-10", ("wavespectra.input", "wavespectra.core.swan"), "file readers")
    rep.rule("R-C13-1", "conversion steps carry the right factor and convention: per-radian -> per-degree (pi/180), J -> variance by rho g only for energy "
                        "units, cartesian -> nautical only for CDIR, WW3 station axes (dir, freq) -> (freq, dir)")
    rep.rule("R-C13-2", "spreading functions integrate to one (cartwright normaliser; NDBC constant term)")
    rep.rule("R-C13-3", "requesting the 1-D form returns the file's spectrum unchanged")
    rep.rule("R-C13-4", "the 2-D spectrum is exactly efth(f) x normalised spreading built from the file's mean direction and spread")
    rep.rule("R-C13-5", "multi-record readers sort by time")
    rep.rule("R-C13-6", "SWAN ASCII direction sorting gathers labels and data by the same permutation")
    conversions(repo, rep)
    from .c15 import spreading
    sub = type(rep)("C13-sub")
    spreading(repo, sub)
    for f in sub.findings:
        rep.fail("R-C13-2", f.file, f.line, f.func, f.construct, f.reason)
    rep.ok("R-C13-2", "wavespectra/construct/direction.py cartwright", f"{len(sub.obligations)} normalisation obligations", "shared with C15")
    spreading_norm(repo, rep, repo.func("wavespectra.input.ndbc_ascii.construct_spectra"), "R-C13-2")
    passthrough_and_product(repo, rep)
    time_sorted(repo, rep)
    parallel_lists(repo, rep)
    reader_buffers(repo, rep)
    ndbc_date_columns(repo, rep)
    from .c11 import dir_permutation
    dir_permutation(repo, rep, "R-C13-6")
    rep.rule("R-C13-9", "read_swanow: files are visited in ascending name order and each NEWER file takes precedence over what was "
                        "accumulated (combine_first keeps the receiver's values where both have data)")
    fi9 = repo.func("wavespectra.input.swan.read_swanow")
    ok9 = False
    for loop in ast.walk(fi9.node):
        if isinstance(loop, ast.For) and isinstance(loop.target, ast.Name):
            it = resolve(fi9.node, loop.iter, before=loop.lineno)
            asc = any(isinstance(c_, ast.Call) and call_name(c_) == "sorted" and not any(k.arg == "reverse" for k in c_.keywords) for c_ in ast.walk(it)) \
                and not any(isinstance(c_, ast.Call) and call_name(c_) == "reversed" for c_ in ast.walk(it)) \
                and not any(isinstance(x, ast.Slice) and x.step is not None for x in ast.walk(it))
            for st in loop.body:
                if isinstance(st, ast.Assign) and isinstance(st.targets[0], ast.Name) and isinstance(st.value, ast.Call) \
                        and isinstance(st.value.func, ast.Attribute) and st.value.func.attr == "combine_first" and len(st.value.args) == 1:
                    acc = st.targets[0].id
                    recv, arg = st.value.func.value, st.value.args[0]
                    recv = resolve(fi9.node, recv, before=st.lineno) if isinstance(recv, ast.Name) and recv.id != acc else recv
                    newer_wins = any(isinstance(x, ast.Name) and x.id == loop.target.id for x in ast.walk(recv)) and unparse(arg) == acc \
                        and not any(isinstance(x, ast.Name) and x.id == acc for x in ast.walk(recv))
                    if asc and newer_wins:
                        ok9 = True
                        rep.ok("R-C13-9", f"{fi9.file}:{st.lineno} read_swanow", unparse(st), "the file just read is the receiver: its dates win over older files'")
                    else:
                        ok9 = True
                        rep.fail("R-C13-9", fi9.file, st.lineno, fi9.qualname, unparse(st)[:100],
                                 "overlapping dates must come from the MOST RECENT file: the newly read file has to be the receiver of "
                                 "combine_first (receiver wins) while files are visited oldest first", anchor="read_swanow:precedence")
    if not ok9:
        raise AnalysisError("read_swanow: combine_first accumulation not found")
    rep.rule("R-C13-8", "reader classes memoise (cached_property / lru_cache) only values derived from state fixed at construction: "
                        "a memo over per-file state (header, stream) hands the first file's grid to every later file")
    n_memo = 0
    for m in repo.modules.values():
        if not m.name.startswith("wavespectra.input."):
            continue
        for c in m.classes.values():
            late = {}       # attribute -> method that (re)assigns it after construction
            for mn, fi in c.methods.items():
                if mn == "__init__":
                    continue
                for n in ast.walk(fi.node):
                    tg = n.targets if isinstance(n, ast.Assign) else [n.target] if isinstance(n, (ast.AugAssign, ast.AnnAssign)) else []
                    for t in tg:
                        if isinstance(t, ast.Attribute) and isinstance(t.value, ast.Name) and t.value.id == "self":
                            late.setdefault(t.attr, mn)
            memo = {mn: fi for mn, fi in c.methods.items()
                    if any(unparse(d).split(".")[-1].split("(")[0] in ("cached_property", "lru_cache", "cache") for d in fi.node.decorator_list)}
            props = {mn: fi for mn, fi in c.methods.items() if fi.is_property or mn in memo}

            def reads(fi, seen):
                out = set()
                for n in ast.walk(fi.node):
                    if isinstance(n, ast.Attribute) and isinstance(n.value, ast.Name) and n.value.id == "self" and isinstance(n.ctx, ast.Load):
                        out.add(n.attr)
                        if n.attr in props and n.attr not in seen and n.attr not in memo:
                            out |= reads(props[n.attr], seen | {n.attr})
                return out
            for mn, fi in memo.items():
                n_memo += 1
                bad = sorted(a for a in reads(fi, {mn}) if a in late and late[a] != mn)
                if bad:
                    rep.fail("R-C13-8", fi.file, fi.node.lineno, fi.qualname, f"@cached {mn} reads self.{bad[0]}",
                             f"'{mn}' is memoised on the reader instance but depends on self.{bad[0]}, which {late[bad[0]]}() reassigns for every "
                             "file/record: later files get the first file's value", anchor=f"memo:{c.name}.{mn}")
                else:
                    rep.ok("R-C13-8", f"{fi.file}:{fi.node.lineno} {c.name}.{mn}", "memoised value", "depends only on attributes bound in __init__")
    rep.floor("R-C13-8", "memoised reader properties examined", n_memo, 6)
    rep.rule("R-C13-7", "a per-record buffer that is filled in place and emitted once per iteration is allocated afresh inside the iteration")
    from .shared import per_iteration_buffers
    nl, nb = per_iteration_buffers(repo, rep, "R-C13-7", ("wavespectra.core.swan", "wavespectra.input."))
    rep.floor("R-C13-7", "per-record buffers examined", nb, 1)
    rep.trust("Python ast; format documentation for native units (WW3 station, XWaves, Obscape: m2 s rad-1; SWAN: J/m2 vs m2)")
    rep.note("NOT decided: parsing correctness (column order, header variants, timestamp parsing such as dayfirst handling, concatenation of several "
             "files) lives in runtime values of file contents; only the conversion, normalisation, passthrough, product, sorting and reordering "
             "clauses are decided")
    rep.note("observation: read_obscape builds its direction axis as arange(0, 360, dd) from the first two header columns instead of using the file's "
             "own direction labels")
    return ("Static structural rules over the instrument readers: constant-folded conversion factors and their guards, axis order of the "
            "WW3-station reshape, spreading normalisation (shared), absence of any scaling on the 1-D path, the exact product form of the 2-D "
            "reconstruction, presence of the time sort, and gather-by-the-same-permutation of SWAN's direction sorting.")
