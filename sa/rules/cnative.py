"""Rules over the clang AST of specpart.c shared by C04 / C18 / C20 (and used by C06)."""
import os

from ..cast import CFile, Poly, ex, poly_of, show, strip
from ..report import AnalysisError

SPECPART_C = "wavespectra/partition/specpart/specpart.c"
WRAP_C = "wavespectra/partition/specpart/specpart_wrap.c"

_cache = {}


def core(repo):
    k = ("core", repo.root)
    if k not in _cache:
        _cache[k] = CFile(os.path.join(repo.root, SPECPART_C))
    return _cache[k]


def wrap(repo):
    k = ("wrap", repo.root)
    if k not in _cache:
        _cache[k] = CFile(os.path.join(repo.root, WRAP_C), filt="specpart", need_python=True)
    return _cache[k]


# ---- helpers ------------------------------------------------------------------------------------

def stmts(compound):
    return [c for c in compound.get("inner", []) if isinstance(c, dict)]


def is_assign(n):
    return n.get("kind") in ("BinaryOperator", "CompoundAssignOperator") and n.get("opcode", "").endswith("=") \
        and n.get("opcode") not in ("==", "!=", "<=", ">=")


def conjuncts(t):
    if t[0] == "bin" and t[1] == "&&":
        return conjuncts(t[2]) + conjuncts(t[3])
    return [t]


def for_parts(n):
    """(init, cond, inc, body) of a ForStmt (clang keeps 5 slots: init, condvar, cond, inc, body)."""
    inner = n["inner"]
    if len(inner) != 5:
        raise AnalysisError("ForStmt with unexpected shape")
    return inner[0], inner[2], inner[3], inner[4]


def counted_loop(cf, n):
    """for (v = lo; v < hi; v++) -> (v, lo_tree, hi_tree, strict) or None."""
    init, cond, inc, body = for_parts(n)
    if not init or not cond or not inc or "kind" not in init or "kind" not in cond:
        return None
    it = ex(init) if init.get("kind") != "DeclStmt" else None
    if init.get("kind") == "DeclStmt":
        vd = init["inner"][0]
        if vd.get("kind") != "VarDecl" or "inner" not in vd:
            return None
        it = ("bin", "=", ("var", vd["name"]), ex(vd["inner"][0]))
    if not (it and it[0] == "bin" and it[1] == "=" and it[2][0] == "var"):
        return None
    v = it[2][1]
    ct = ex(cond)
    if not (ct[0] == "bin" and ct[1] in ("<", "<=") and ct[2] == ("var", v)):
        return None
    inct = ex(inc)
    ok_inc = (inct[0] == "un" and inct[1] in ("++", "++post") and inct[2] == ("var", v)) or \
             (inct[0] == "bin" and inct[1] == "+=" and inct[2] == ("var", v) and inct[3] == ("int", 1))
    if not ok_inc:
        return None
    return v, it[3], ct[3], ct[1] == "<"


def enclosing_loops(cf, n):
    out = []
    p = n.get("_p")
    while p is not None and p.get("kind") != "FunctionDecl":
        if p.get("kind") == "ForStmt":
            cl = counted_loop(cf, p)
            out.append((p, cl))
        p = p.get("_p")
    return out


def body_assigns_var(cf, loop, v):
    """Is loop variable v assigned inside the loop body (other than by the increment)?"""
    _, _, _, body = for_parts(loop)
    for n in cf.walk(body):
        if is_assign(n) and ex(n["inner"][0]) == ("var", v):
            return True
        if n.get("kind") == "UnaryOperator" and n.get("opcode") in ("++", "--") and ex(n["inner"][0]) == ("var", v):
            return True
    return False


NSPEC = Poly.var("mk") * Poly.var("mth")


def norm(p):
    """Normalise a polynomial under the invariant nspec == mk*mth (established in partinit)."""
    return p.subst("nspec", NSPEC) if p is not None else None


# ---- R-C18-4 / R-C06-6 : statics ----------------------------------------------------------------

SHAPE_INIT_FUNCS = ("partinit", "ptnghb")


def _global_names(cf):
    return [g["name"] for g in cf.globals]


def _accesses(cf, fn_node, bind):
    """Yield (node, gname, mode, is_content) for accesses to file-scope objects in a function.
    bind: local/param name -> global name (parameters that were passed a global)."""
    gl = set(_global_names(cf))
    params = set(c["name"] for c in fn_node.get("inner", []) if c.get("kind") == "ParmVarDecl")
    locals_ = set()
    for n in cf.walk(fn_node):
        if n.get("kind") == "VarDecl" and n.get("_p", {}).get("kind") == "DeclStmt":
            locals_.add(n["name"])

    def gname(name):
        if name in bind:
            return bind[name]
        if name in params or name in locals_:
            return None
        return name if name in gl else None

    for n in cf.walk(fn_node):
        if n.get("kind") != "DeclRefExpr":
            continue
        g = gname(n["referencedDecl"]["name"])
        if g is None:
            continue
        # classify by context
        p = n.get("_p")
        child = n
        while p is not None and p.get("kind") in ("ImplicitCastExpr", "ParenExpr", "CStyleCastExpr"):
            child, p = p, p.get("_p")
        content = False
        node = child
        if p is not None and p.get("kind") == "ArraySubscriptExpr" and strip(p["inner"][0]) is n:
            content = True
            node = p
        elif p is not None and p.get("kind") == "BinaryOperator" and p.get("opcode") in ("+", "-"):
            pp = p.get("_p")
            while pp is not None and pp.get("kind") in ("ImplicitCastExpr", "ParenExpr"):
                pp = pp.get("_p")
            if pp is not None and pp.get("kind") == "UnaryOperator" and pp.get("opcode") == "*":
                content = True
                node = pp
        elif p is not None and p.get("kind") == "UnaryOperator" and p.get("opcode") == "*":
            content = True
            node = p
        # store or load?
        q = node.get("_p")
        c2 = node
        while q is not None and q.get("kind") in ("ImplicitCastExpr", "ParenExpr"):
            c2, q = q, q.get("_p")
        mode = "read"
        if q is not None and is_assign(q) and strip(q["inner"][0]) is strip(node):
            mode = "write" if q.get("opcode") == "=" else "readwrite"
        elif q is not None and q.get("kind") == "UnaryOperator" and q.get("opcode") in ("++", "--"):
            mode = "readwrite"
        elif q is not None and q.get("kind") == "CallExpr" and not content:
            mode = "arg"
        yield node, g, mode, content


def pointer_aliases(cf):
    """Fail closed on what no rule here tracks: a file-scope buffer pointer copied into another pointer variable that survives the
    normalisation (a running pointer `float *out = zp; *out++ = ..`).  Accesses through such an alias are invisible to the
    per-buffer analyses (overwrite-before-read, bounds), so their verdicts would be unfounded."""
    gl = {g["name"] for g in cf.globals if "*" in g.get("type", {}).get("qualType", "")}

    def bare(r):
        stack = [r]
        while stack:
            x = stack.pop()
            if not isinstance(x, dict):
                continue
            k = x.get("kind")
            if k in ("ArraySubscriptExpr", "CallExpr") or (k == "UnaryOperator" and x.get("opcode") in ("*", "!")) or \
                    (k == "BinaryOperator" and x.get("opcode") in ("==", "!=", "<", ">", "<=", ">=")):
                continue
            if k == "DeclRefExpr" and x.get("referencedDecl", {}).get("name") in gl and x["referencedDecl"].get("kind") == "VarDecl":
                return x["referencedDecl"]["name"]
            stack.extend(x.get("inner") or [])
        return None
    for fname, fn in cf.funcs.items():
        for n in cf.walk(fn):
            tgt = rhs = None
            if n.get("kind") == "VarDecl" and n.get("init") and n.get("inner") and "*" in n.get("type", {}).get("qualType", ""):
                tgt, rhs = n.get("name"), n["inner"][-1]
            elif n.get("kind") == "BinaryOperator" and n.get("opcode") == "=" and "*" in n.get("type", {}).get("qualType", ""):
                l = ex(n["inner"][0])
                if l[0] == "var" and l[1] not in gl:
                    tgt, rhs = l[1], n["inner"][1]
            if tgt is not None:
                g = bare(rhs)
                if g is not None:
                    raise AnalysisError(f"{fname}: work buffer '{g}' is aliased by the pointer variable '{tgt}' (line {cf.line(n)}); accesses "
                                        "through a running pointer are not tracked by the buffer analyses")


def wrapper_state(wrap, rep, rule):
    """No object of the Python wrapper outlives a call: no function-static, no file-scope object other than the method / module tables."""
    nstat = 0
    for fname, fn in wrap.funcs.items():
        for n in wrap.walk(fn):
            if n.get("kind") == "VarDecl" and n.get("storageClass") == "static":
                nstat += 1
                rep.fail(rule, WRAP_C, wrap.line(n), fname, wrap.text(n)[:80],
                         "a function-static object in the wrapper outlives the call: the array handed back to one task is reused / "
                         "overwritten by the next call while the first task is still reading it")
    for g in wrap.globals:
        ty = g.get("type", {}).get("qualType", "")
        if "PyMethodDef" in ty or "PyModuleDef" in ty or ty.startswith("const "):
            continue
        nstat += 1
        rep.fail(rule, WRAP_C, wrap.line(g), "specpart_wrap.c", wrap.text(g)[:80],
                 "file-scope mutable object in the wrapper: state shared between calls / tasks")
    # the wrapper's AST is dumped through a name filter (Python.h is too large to dump whole), so a file-scope object with a new name is
    # invisible there: enumerate the file-scope declarations from the source text as well
    seen_g = {g.get("name") for g in wrap.globals}
    tg = wrap.text_globals()
    for name_, text_, line_ in tg:
        if name_ in seen_g or "PyMethodDef" in text_ or "PyModuleDef" in text_ or text_.startswith(("const ", "static const ")):
            continue
        nstat += 1
        rep.fail(rule, WRAP_C, line_, "specpart_wrap.c", text_[:80],
                 "file-scope object in the wrapper: whatever it holds (an output array, a cached shape) is shared by every call and every dask "
                 "task - the array handed back by one call is the one the next call overwrites")
    rep.ok(rule, WRAP_C, f"{len(wrap.funcs)} functions, {len(wrap.globals)} + {len(tg)} file-scope declarations (AST + text scan)", "no static / file-scope mutable object")
    return nstat


def statics(repo, rep, rule):
    cf = core(repo)
    pointer_aliases(cf)
    names = _global_names(cf)
    rep.analysed["c_file_scope_objects"] = names
    rep.floor(rule, "file-scope objects in specpart.c", len(names), 5)
    for g in cf.globals:
        qt = g.get("type", {}).get("qualType", "")
        if "const" in qt.split("*")[-1]:
            names.remove(g["name"])

    # ---- (b) the shape guard of partinit -------------------------------------------------------
    body = cf.body("partinit")
    params = cf.params("partinit")
    if len(params) != 2:
        raise AnalysisError("partinit no longer takes (nk, nth)")
    pk, pth = params
    order = stmts(body)
    guard_idx = None
    call_pos = None
    for i, s in enumerate(order):
        if any(n.get("kind") == "CallExpr" and show(ex(n)[1]) == "ptnghb" for n in cf.walk(s)):
            call_pos = i
            break
    for i, s in enumerate(order[: call_pos if call_pos is not None else len(order)]):
        has_ret = any(x.get("kind") == "ReturnStmt" for x in cf.walk(s))
        if not has_ret:
            continue
        if s.get("kind") != "IfStmt":
            rep.fail(rule, SPECPART_C, cf.line(s), "partinit", cf.text(s)[:80],
                     "unconditional return before the neighbour table is rebuilt")
            continue
        if guard_idx is None:
            guard_idx = i
        cond = ex(s["inner"][0])
        cj = conjuncts(cond)
        need = {frozenset(("mk", pk)), frozenset(("mth", pth))}
        have = set()
        for c in cj:
            if c[0] == "bin" and c[1] == "==" and c[2][0] == "var" and c[3][0] == "var":
                have.add(frozenset((c[2][1], c[3][1])))
        # an else-branch return would be taken under the negated condition
        else_ret = len(s["inner"]) > 2 and any(x.get("kind") == "ReturnStmt" for x in cf.walk(s["inner"][2]))
        if else_ret or not need <= have:
            rep.fail(rule, SPECPART_C, cf.line(s), "partinit", "if (" + cf.text(s["inner"][0]) + ") ... return;",
                     "re-initialisation of the shape-dependent tables (neigh, mk, mth) is skipped under a condition "
                     f"that does not imply mk == {pk} && mth == {pth}: two grids with the same number of bins but "
                     "different shapes would share one neighbour table")
        else:
            rep.ok(rule, f"{SPECPART_C}:{cf.line(s)} partinit", "early return guard",
                   f"condition implies mk == {pk} && mth == {pth}")
    if guard_idx is None:
        rep.ok(rule, f"{SPECPART_C} partinit", "no early return", "tables are rebuilt on every call")
        guard_idx = -1
    # writes to mk / mth / nspec must come after the guard and before ptnghb(); values must be the parameters
    seen = {}
    call_idx = None
    for i, s in enumerate(order):
        for n in cf.walk(s):
            if is_assign(n):
                lhs = ex(n["inner"][0])
                if lhs[0] == "var" and lhs[1] in ("mk", "mth", "nspec"):
                    seen[lhs[1]] = (i, ex(n["inner"][1]), n)
                    if i <= guard_idx and guard_idx >= 0 and not _inside(cf, n, order[guard_idx]):
                        if i < guard_idx:
                            rep.fail(rule, SPECPART_C, cf.line(n), "partinit", cf.text(n),
                                     f"'{lhs[1]}' is updated before the shape guard, so the guard compares the new shape "
                                     "with itself / skips rebuilding the neighbour table")
            if n.get("kind") == "CallExpr" and show(ex(n)[1]) == "ptnghb":
                call_idx = i
    expect = {"mk": ("var", pk), "mth": ("var", pth)}
    for v, want in expect.items():
        if v not in seen:
            rep.fail(rule, SPECPART_C, cf.line(body), "partinit", f"{v} = {want[1]}", f"'{v}' is never set from '{want[1]}'")
        elif seen[v][1] != want:
            rep.fail(rule, SPECPART_C, cf.line(seen[v][2]), "partinit", cf.text(seen[v][2]),
                     f"'{v}' must be set to the current '{want[1]}'")
        else:
            rep.ok(rule, f"{SPECPART_C}:{cf.line(seen[v][2])} partinit", cf.text(seen[v][2]), "cached shape = current shape")
    if "nspec" in seen:
        p = poly_of(seen["nspec"][1])
        if p != Poly.var(pk) * Poly.var(pth):
            rep.fail(rule, SPECPART_C, cf.line(seen["nspec"][2]), "partinit", cf.text(seen["nspec"][2]),
                     "nspec must equal nk*nth")
        else:
            rep.ok(rule, f"{SPECPART_C}:{cf.line(seen['nspec'][2])} partinit", cf.text(seen["nspec"][2]), "nspec = nk*nth")
    else:
        rep.fail(rule, SPECPART_C, cf.line(body), "partinit", "nspec = nk*nth", "nspec is not set in partinit")
    if call_idx is None:
        rep.fail(rule, SPECPART_C, cf.line(body), "partinit", "ptnghb()", "neighbour table is not rebuilt in partinit")
    else:
        for v, (i, _, n) in seen.items():
            if i > call_idx:
                rep.fail(rule, SPECPART_C, cf.line(n), "partinit", cf.text(n),
                         f"'{v}' is set after ptnghb() built the neighbour table from the old value")
    # partition() must call partinit before anything else touches the statics
    pbody = stmts(cf.body("partition"))
    first_call = None
    for i, s in enumerate(pbody):
        t = ex(s) if s.get("kind") == "CallExpr" else None
        if t and show(t[1]) == "partinit":
            first_call = i
            if list(t[2]) != [("var", cf.params("partition")[2]), ("var", cf.params("partition")[3])]:
                rep.fail(rule, SPECPART_C, cf.line(s), "partition", cf.text(s), "partinit must receive (nk, nth)")
            break
    if first_call is None:
        rep.fail(rule, SPECPART_C, cf.line(cf.body("partition")), "partition", "partinit(nk, nth)",
                 "partition() no longer (re)initialises the shape-dependent state")
    else:
        for s in pbody[:first_call]:
            for node, g, mode, content in _accesses(cf, {"inner": [s], "kind": "X"}, {}):
                rep.fail(rule, SPECPART_C, cf.line(s), "partition", cf.text(s)[:100],
                         f"file-scope '{g}' used before partinit()")
        rep.ok(rule, f"{SPECPART_C}:{cf.line(pbody[first_call])} partition", "partinit(nk, nth) first", "dominates every use of the statics")

    # ---- (a)+(c) classification of every file-scope object ---------------------------------------
    writers = {g: set() for g in names}
    readers = {g: set() for g in names}
    for fname, fn in cf.funcs.items():
        for node, g, mode, content in _accesses(cf, fn, _param_bind(cf, fname)):
            if g not in writers:
                continue
            if mode in ("write", "readwrite"):
                writers[g].add((fname, content))
            if mode in ("read", "readwrite", "arg"):
                readers[g].add((fname, content))
    for g in names:
        wf = {f for f, _ in writers[g]}
        content_w = {f for f, c in writers[g] if c}
        content_r = {f for f, c in readers[g] if c}
        scalar_r = {f for f, c in readers[g] if not c}
        is_ptr = "*" in next(x for x in cf.globals if x["name"] == g).get("type", {}).get("qualType", "")
        if not is_ptr:
            if wf <= set(SHAPE_INIT_FUNCS):
                rep.ok(rule, f"{SPECPART_C} static {g}", "scalar state", f"written only in {sorted(wf)} under the shape guard")
            elif not (scalar_r - set()):
                rep.ok(rule, f"{SPECPART_C} static {g}", "scalar state", "write-only (never read)")
            elif not scalar_r - wf and all(_written_before_read_scalar(cf, f, g) for f in scalar_r):
                rep.ok(rule, f"{SPECPART_C} static {g}", "scalar state", "assigned before read in every function that reads it")
            else:
                for f in sorted(wf - set(SHAPE_INIT_FUNCS)):
                    n = _first_write(cf, f, g)
                    rep.fail(rule, SPECPART_C, cf.line(n) if n else 0, f, cf.text(n)[:100] if n else g,
                             f"file-scope scalar '{g}' is written at call time and read by {sorted(scalar_r)}: its value "
                             "survives into the next call")
            continue
        # pointer to a work buffer: pointer value set only in the init functions
        ptr_w = {f for f, c in writers[g] if not c}
        if not ptr_w <= set(SHAPE_INIT_FUNCS):
            rep.fail(rule, SPECPART_C, 0, ",".join(sorted(ptr_w)), f"{g} = ...", f"buffer pointer '{g}' reassigned outside partinit")
        if content_w <= set(SHAPE_INIT_FUNCS) and content_w:
            rep.ok(rule, f"{SPECPART_C} static {g}[]", "buffer contents", f"written only in {sorted(content_w)}: a function of the grid shape alone")
            continue
        res = first_access(cf, "partition", g, {}, rep)
        if res is None:
            rep.ok(rule, f"{SPECPART_C} static {g}[]", "buffer contents", "never accessed from partition()")
        elif res[0] == "overwrite":
            rep.ok(rule, f"{SPECPART_C} static {g}[]", "buffer contents", f"fully overwritten before first read in each call: {res[1]}")
            if res[2]:
                rep.assume(res[2])
        else:
            n = res[1]
            rep.fail(rule, SPECPART_C, cf.line(n), cf.enclosing_function(n) or "partition", cf.text(n)[:100],
                     f"work buffer '{g}' is read (or only partly written) before being fully overwritten in this call: "
                     "values left by the previous spectrum leak into this one")


def _inside(cf, n, anc):
    while n is not None:
        if n is anc:
            return True
        n = n.get("_p")
    return False


def _param_bind(cf, fname):
    """Parameters of `fname` that receive a bare file-scope variable at every call site -> that global."""
    gl = set(_global_names(cf))
    params = cf.params(fname)
    bind = None
    for caller, fn in cf.funcs.items():
        for n in cf.walk(fn):
            if n.get("kind") == "CallExpr":
                t = ex(n)
                if show(t[1]) == fname:
                    b = {}
                    for p, a in zip(params, t[2]):
                        if a[0] == "var" and a[1] in gl and a[1] not in cf.params(caller):
                            b[p] = a[1]
                    bind = b if bind is None else {k: v for k, v in bind.items() if b.get(k) == v}
    return bind or {}


def _first_write(cf, fname, g):
    for node, gg, mode, content in _accesses(cf, cf.func(fname), _param_bind(cf, fname)):
        if gg == g and mode in ("write", "readwrite"):
            return node.get("_p") or node
    return None


def _written_before_read_scalar(cf, fname, g):
    first = None
    for s in stmts(cf.body(fname)):
        for node, gg, mode, content in _accesses(cf, {"kind": "X", "inner": [s]}, {}):
            if gg == g:
                return mode == "write"
    return True


def first_access(cf, fname, g, bind, rep, depth=0):
    """Program-order scan of `fname` for the first statement touching the contents of buffer g.
    Returns None | ('overwrite', description, assumption|None) | ('read', node)."""
    if depth > 6:
        return ("read", cf.func(fname))
    fn = cf.func(fname)
    full_bind = dict(_param_bind(cf, fname))
    full_bind.update(bind)
    for s in stmts(cf.body(fname)):
        touched = [(n, m) for n, gg, m, c in _accesses(cf, {"kind": "X", "inner": [s]}, full_bind) if gg == g and c]
        calls = []
        for n in cf.walk(s):
            if n.get("kind") == "CallExpr":
                t = ex(n)
                callee = show(t[1])
                if callee in cf.funcs and callee != fname:
                    calls.append((n, callee, t))
        if not touched:
            # a call may touch it
            for n, callee, t in calls:
                b = {}
                for p, a in zip(cf.params(callee), t[2]):
                    if a[0] == "var":
                        gg = full_bind.get(a[1], a[1] if a[1] in _global_names(cf) and a[1] not in cf.params(fname) else None)
                        if gg:
                            b[p] = gg
                r = first_access(cf, callee, g, b, rep, depth + 1)
                if r is not None:
                    return r
            continue
        # the statement touches g: must be a full overwrite
        if s.get("kind") != "ForStmt":
            return ("read", touched[0][0])
        stores = []
        for n, m in touched:
            if m != "write":
                return ("read", n)
            stores.append(n)
        assumption = None
        desc = None
        for st in stores:
            cov = full_cover(cf, st, fname, full_bind)
            if cov is None:
                return ("read", st)
            desc, a = cov
            assumption = assumption or a
        return ("overwrite", f"{fname}(): {desc}", assumption)
    return None


def _bound_poly(cf, tree, fname, bind):
    """Loop bound as polynomial in mk, mth (parameters bound to nspec / ihmax at the call sites are substituted)."""
    env = {}
    # parameters of fname that always receive a known symbol
    for caller, fn in cf.funcs.items():
        for n in cf.walk(fn):
            if n.get("kind") == "CallExpr":
                t = ex(n)
                if show(t[1]) == fname:
                    for p, a in zip(cf.params(fname), t[2]):
                        pa = poly_of(a)
                        if pa is not None and a[0] == "var" and a[1] in ("nspec", "mk", "mth"):
                            env[p] = pa
    p = poly_of(tree, env)
    return norm(p)


def counting_sort_slot(cf, fn, idx):
    """Is `idx` (an index expression in function fn) a slot handed out by a counting sort - a value read from the prefix-sum table P of a
    histogram H (H[..] = 0; H[level[i]]++ ; P[0] = 0; P[i+1] = P[i] + H[i]; then per point: slot = P[v]; P[v] = slot + 1), directly, through a
    local, or through a table filled with such values only?  Recognised structurally (no names); the bound slot < number of points is the
    counting argument that stays an ASSUMPTION."""
    body = cf.body(fn)
    asg = []            # (lhs, rhs)
    incs = []           # incremented lvalues
    for n in cf.walk(body):
        if is_assign(n):
            asg.append((ex(n["inner"][0]), ex(n["inner"][1])))
        elif n.get("kind") == "UnaryOperator" and n.get("opcode") == "++":
            incs.append(ex(n["inner"][0]))
    arrays = {l[1][1] for l, _ in asg if l[0] == "idx" and l[1][0] == "var"} | {t[1][1] for t in incs if t[0] == "idx" and t[1][0] == "var"}

    def var_defs(v):
        return [r for l, r in asg if l == ("var", v)]

    def reads_of(P, t, depth=0):
        """t is P[..], or a local defined only by such reads"""
        if t[0] == "idx" and t[1] == ("var", P):
            return True
        if t[0] == "var" and depth < 3:
            ds = var_defs(t[1])
            return bool(ds) and all(reads_of(P, d, depth + 1) for d in ds)
        return False
    for P in sorted(arrays):
        st = [(l, r) for l, r in asg if l[0] == "idx" and l[1] == ("var", P)]
        if not st or any(t[0] == "idx" and t[1] == ("var", P) for t in incs):
            continue
        zero = cum = bump = 0
        H = None
        okP = True
        for l, r in st:
            if l[2] == ("int", 0) and r == ("int", 0):
                zero += 1
            elif r[0] == "bin" and r[1] == "+" and r[2][0] == "idx" and r[2][1] == ("var", P) and r[3][0] == "idx" and r[3][1][0] == "var" \
                    and l[2] == ("bin", "+", r[2][2], ("int", 1)) and r[3][2] == r[2][2]:
                cum += 1
                H = r[3][1][1]
            elif r[0] == "bin" and r[1] == "+" and r[3] == ("int", 1) and reads_of(P, r[2]):
                bump += 1
            else:
                okP = False
        if not (okP and zero and cum and bump and H):
            continue
        hst = [(l, r) for l, r in asg if l[0] == "idx" and l[1] == ("var", H)]
        hinc = [t for t in incs if t[0] == "idx" and t[1] == ("var", H)]
        if not hinc or any(r != ("int", 0) for _, r in hst):
            continue
        if reads_of(P, idx):
            return f"{show(idx)} is a slot handed out by the counting sort over {P} (prefix sums of the histogram {H}), each slot < number of points"
        if idx[0] == "idx" and idx[1][0] == "var":
            T = idx[1][1]
            tst = [(l, r) for l, r in asg if l[0] == "idx" and l[1] == ("var", T)]
            if tst and all(reads_of(P, r) for _, r in tst) and not any(t[0] == "idx" and t[1] == ("var", T) for t in incs):
                return f"{T} holds slots handed out by the counting sort over {P} (prefix sums of the histogram {H}): a permutation of 0..nspec-1"
    return None


def full_cover(cf, store, fname, bind):
    """Does the store `g[idx] = ..` inside its counted loops cover 0 <= idx < mk*mth ?"""
    t = ex(store)
    if t[0] != "idx":
        return None
    idx = t[2]
    loops = [(l, cl) for l, cl in enclosing_loops(cf, store)]
    if any(cl is None for _, cl in loops):
        return None
    for l, cl in loops:
        if body_assigns_var(cf, l, cl[0]):
            return None
        if poly_of(cl[1]) != Poly.const(0) or not cl[3]:
            return None
        # the store must execute on every iteration: no enclosing if / break between loop and store
        p = store.get("_p")
        while p is not l:
            if p.get("kind") in ("IfStmt", "SwitchStmt", "WhileStmt", "DoStmt", "ConditionalOperator"):
                return None
            p = p.get("_p")
        for n in cf.walk(for_parts(l)[3]):
            if n.get("kind") in ("BreakStmt", "ContinueStmt", "ReturnStmt", "GotoStmt"):
                return None
    pidx = poly_of(idx)
    if len(loops) == 1:
        v, lo, hi, _ = loops[0][1]
        if pidx == Poly.var(v) and _bound_poly(cf, hi, fname, bind) == NSPEC:
            return (f"for {v} in [0, nspec): [{show(idx)}] = ...", None)
        if _bound_poly(cf, hi, fname, bind) == NSPEC:
            why_ = counting_sort_slot(cf, fname, idx)
            if why_ is not None:
                # one slot per point, nspec points: the slots are a permutation of 0..nspec-1 (counting argument, assumed), so every element is stored
                return (f"for {v} in [0, nspec): [{show(idx)}] = ...",
                        "counting sort recognised structurally: its slots are a permutation of 0..nspec-1, so the store covers every slot")
        return None
    if len(loops) == 2 and pidx is not None:
        (l1, (v1, _, h1, _)), (l2, (v2, _, h2, _)) = loops
        b1, b2 = _bound_poly(cf, h1, fname, bind), _bound_poly(cf, h2, fname, bind)
        for (a, ba), (b, bb) in (((v1, b1), (v2, b2)), ((v2, b2), (v1, b1))):
            # idx = a + ba*b  with a in [0,ba), b in [0,bb)  covers [0, ba*bb)
            if ba is not None and bb is not None and pidx == Poly.var(a) + ba * Poly.var(b) and ba * bb == NSPEC:
                return (f"for {b} in [0,{bb}) for {a} in [0,{ba}): [{show(idx)}] = ...", None)
    return None


def sweep_coverage(repo, rep, rule):
    """Every counted loop of specpart.c whose bound is the spectrum size must sweep ALL bins: upper bound exactly nspec
    (strict), lower bound 0 - or 1 when the statement(s) just before consume element 0 (running min/max seeded from [0])."""
    cf = core(repo)
    n_sw = 0
    for fname, fn in cf.funcs.items():
        for n in cf.walk(fn):
            if n.get("kind") != "ForStmt":
                continue
            cl = counted_loop(cf, n)
            if cl is None:
                continue
            v, lo, hi, strict = cl
            try:
                hp = _bound_poly(cf, hi, fname, None)
            except Exception:
                hp = None
            if hp is None or not ({"mk", "mth"} <= set(hp.vars())):
                continue            # not a sweep over the whole spectrum
            n_sw += 1
            lop = poly_of(lo)
            where = f"{SPECPART_C}:{cf.line(n)} {fname}"
            full_hi = (hp == NSPEC and strict) or (hp == NSPEC - Poly.const(1) and not strict)
            ok_lo = lop == Poly.const(0)
            if lop == Poly.const(1):
                # legal only for a running reduction seeded from element 0 immediately before the loop
                par = n.get("_p")
                sib = [x for x in par.get("inner", []) if isinstance(x, dict)]
                i = sib.index(n)
                prev = sib[max(0, i - 3):i]
                ok_lo = any(is_assign(s) and ex(s["inner"][1])[0] == "idx" and ex(s["inner"][1])[2] == ("int", 0) for s in prev)
            if full_hi and ok_lo:
                rep.ok(rule, where, cf.text(n).split(")")[0][:60] + ")", "sweeps every bin 0 .. nspec-1")
            else:
                rep.fail(rule, SPECPART_C, cf.line(n), fname, " ".join(cf.text(n).split("{")[0].split())[:80],
                         "a sweep over the spectrum must visit every bin 0 .. nspec-1: a bin left out of the min/max scan, the "
                         "discretisation, a copy or the reassignment keeps a stale or unset value and changes the partitions when the "
                         "extremum / peak sits there", anchor=f"sweep:{fname}:{show(ex(for_parts(n)[3]['inner'][0]) if for_parts(n)[3].get('inner') else ('var', v))[:40]}")
    return n_sw


def double_buffer(repo, rep, rule):
    """pt_fld step 2: watershed-line bins take the label of their closest labelled neighbour AS IT WAS AT THE START OF THE SWEEP:
    the store goes to a snapshot array, the neighbour labels are read from the other one, and full copies frame the sweep.
    Writing into the array being read makes the result depend on the scan order (not invariant under a circular shift)."""
    cf = core(repo)
    fn = cf.funcs.get("pt_fld")
    if fn is None:
        raise AnalysisError("pt_fld vanished")
    found = 0
    for n in cf.walk(fn):
        if not is_assign(n):
            continue
        l, r = ex(n["inner"][0]), ex(n["inner"][1])
        # X[jl] = Y[neigh[...]]
        if l[0] == "idx" and r[0] == "idx" and r[2][0] == "idx" and r[2][1] == ("var", "neigh") and l[1][0] == "var" and r[1][0] == "var":
            found += 1
            X, Y = l[1][1], r[1][1]
            loops = enclosing_loops(cf, n)
            outer = loops[-1][0] if loops else None
            body = for_parts(outer)[3] if outer is not None else None
            copies_in = copies_out = False
            if body is not None:
                for m in cf.walk(body):
                    if is_assign(m):
                        a, b = ex(m["inner"][0]), ex(m["inner"][1])
                        if a[0] == "idx" and b[0] == "idx" and a[2] == b[2] and a[2][0] == "var":
                            if a[1] == ("var", X) and b[1] == ("var", Y) and cf.pb(m) < cf.pb(n):
                                copies_in = True
                            if a[1] == ("var", Y) and b[1] == ("var", X) and cf.pb(m) > cf.pb(n):
                                copies_out = True
            if X != Y and copies_in and copies_out:
                rep.ok(rule, f"{SPECPART_C}:{cf.line(n)} pt_fld", cf.text(n)[:60], f"labels read from {Y}, written to the snapshot {X}; copies before and after the sweep")
            else:
                rep.fail(rule, SPECPART_C, cf.line(n), "pt_fld", cf.text(n)[:70],
                         f"the reassignment writes into the array it reads neighbour labels from (or the framing copies are missing): "
                         "a bin relabelled earlier in the sweep is seen as labelled by later bins, so the result depends on scan order "
                         "and changes under a circular shift of the direction axis", anchor="pt_fld:reassignment-snapshot")
    return found


# ---- R-C04-8: the immersion's decisions, by exhaustive evaluation over the finite label classes ------------------------

class _Break(Exception):
    pass


class _DefEnv(dict):
    """Environment with a default for variables that are not one of the named markers (used where the only other scalar is the
    running label counter)."""

    def __init__(self, d, default):
        super().__init__(d)
        self.default = default

    def __contains__(self, k):
        return True

    def __missing__(self, k):
        return self.default


def _ceval(t, env, arr):
    k = t[0]
    if k == "int":
        return t[1]
    if k == "float":
        return t[1]
    if k == "var":
        if t[1] not in env:
            raise AnalysisError(f"immersion: variable '{t[1]}' has no abstract value")
        return env[t[1]]
    if k == "idx":
        key = (show(t[1]), show(t[2]))
        if key not in arr:
            raise AnalysisError(f"immersion: array element {key[0]}[{key[1]}] has no abstract value")
        return arr[key]
    if k == "un":
        v = _ceval(t[2], env, arr)
        if t[1] == "-":
            return -v
        if t[1] == "!":
            return int(not v)
        if t[1] == "+":
            return v
        raise AnalysisError(f"immersion: unary {t[1]} not understood")
    if k == "bin":
        op = t[1]
        if op == "&&":
            return int(bool(_ceval(t[2], env, arr)) and bool(_ceval(t[3], env, arr)))
        if op == "||":
            return int(bool(_ceval(t[2], env, arr)) or bool(_ceval(t[3], env, arr)))
        a, b = _ceval(t[2], env, arr), _ceval(t[3], env, arr)
        ops = {"+": lambda: a + b, "-": lambda: a - b, "*": lambda: a * b, "<": lambda: int(a < b), "<=": lambda: int(a <= b),
               ">": lambda: int(a > b), ">=": lambda: int(a >= b), "==": lambda: int(a == b), "!=": lambda: int(a != b)}
        if op not in ops:
            raise AnalysisError(f"immersion: operator {op} not understood")
        return ops[op]()
    raise AnalysisError(f"immersion: expression kind {k} not understood")


def _cexec(cf, n, env, arr, out):
    k = n.get("kind")
    if k == "CompoundStmt":
        for c in n.get("inner", []):
            _cexec(cf, c, env, arr, out)
    elif k == "IfStmt":
        inner = n["inner"]
        if _ceval(ex(inner[0]), env, arr):
            _cexec(cf, inner[1], env, arr, out)
        elif len(inner) > 2:
            _cexec(cf, inner[2], env, arr, out)
    elif k == "BreakStmt":
        raise _Break()
    elif k == "NullStmt":
        pass
    elif is_assign(n):
        lhs, rhs = ex(n["inner"][0]), ex(n["inner"][1])
        if rhs[0] == "call":
            fn = show(rhs[1])
            if fn == "fifo_add":
                out.setdefault("enq", []).append(show(rhs[2][2]))
                return
            raise AnalysisError(f"immersion: call {fn} not understood")
        v = _ceval(rhs, env, arr)
        if lhs[0] == "var":
            env[lhs[1]] = v
        elif lhs[0] == "idx":
            arr[(show(lhs[1]), show(lhs[2]))] = v
        else:
            raise AnalysisError("immersion: assignment target not understood")
    elif k == "UnaryOperator" and n.get("opcode") in ("++", "--"):
        t = ex(n["inner"][0])
        if t[0] == "var":
            env[t[1]] = env.get(t[1], 0) + (1 if n["opcode"] == "++" else -1)
    elif k == "CallExpr":
        t = ex(n)
        if show(t[1]) == "fifo_add":
            out.setdefault("enq", []).append(show(t[2][2]))
        else:
            raise AnalysisError(f"immersion: call {show(t[1])} not understood")
    else:
        raise AnalysisError(f"immersion: statement kind {k} not understood: {cf.text(n)[:50]}")


def immersion_decisions(repo, rep, rule):
    """Vincent & Soille's immersion, decision by decision.  The label of a bin only ever takes one of five classes (MASK, INIT,
    WSHED, label A, another label B) and the algorithm touches labels only through comparisons, so each decision's code is evaluated
    over ALL combinations of classes (a finite set of orderings) and compared with the reference transition of the published
    algorithm.  Robust to renaming, re-nesting, De Morgan and `>= 0` for `> 0 || == 0`; it fires when some combination of classes is
    treated differently - which is exactly when a basin is split, merged or orphaned for some spectrum."""
    cf = core(repo)
    fn = cf.func("pt_fld")
    # true constants: scalars assigned exactly once, from an integer constant, and never incremented
    nassign, first = {}, {}
    for n in cf.walk(cf.body("pt_fld")):
        if is_assign(n):
            l, r = ex(n["inner"][0]), ex(n["inner"][1])
            if l[0] == "var":
                nassign[l[1]] = nassign.get(l[1], 0) + 1
                first.setdefault(l[1], r)
        elif n.get("kind") == "UnaryOperator" and n.get("opcode") in ("++", "--"):
            t_ = ex(n["inner"][0])
            if t_[0] == "var":
                nassign[t_[1]] = nassign.get(t_[1], 0) + 5
    from_call = set()
    for n in cf.walk(cf.body("pt_fld")):
        if is_assign(n):
            l, r = ex(n["inner"][0]), ex(n["inner"][1])
            if l[0] == "var" and r[0] == "call":
                from_call.add(l[1])
    CONST = {}
    for v, k_ in nassign.items():
        if k_ == 1:
            try:
                CONST[v] = _ceval(first[v], {}, {})
            except AnalysisError:
                pass
    # roles by use: MASK = what step 1a stores into the bin's label; INIT = what the initial fill stores; WSHED = 0
    mask_vals, init_vals = set(), set()
    for n in cf.walk(cf.body("pt_fld")):
        if is_assign(n):
            l, r = ex(n["inner"][0]), ex(n["inner"][1])
            if l[0] == "idx" and l[1] == ("var", "imo") and r[0] in ("var", "int", "un"):
                try:
                    v_ = _ceval(r, CONST, {})
                except AnalysisError:
                    continue
                loops_ = enclosing_loops(cf, n)
                if loops_ and loops_[0][1] is not None and l[2] == ("var", loops_[0][1][0]):
                    init_vals.add(v_)          # imo[i] = INIT inside a counted loop over i
                elif v_ < 0:
                    mask_vals.add(v_)
    mask_vals -= init_vals
    if len(mask_vals) != 1 or len(init_vals) != 1:
        raise AnalysisError(f"pt_fld: MASK / INIT markers not identified (mask candidates {sorted(mask_vals)}, init {sorted(init_vals)})")
    MASK, INIT, WSHED = next(iter(mask_vals)), next(iter(init_vals)), 0
    if not (MASK < 0 and INIT < 0 and MASK != INIT):
        rep.fail(rule, SPECPART_C, cf.line(fn), "pt_fld", f"mask={MASK} init={INIT}",
                 "labels > 0, the watershed marker 0 and two distinct negative markers are what every comparison in the immersion relies on")
        return
    LA, LB = 1, 2
    loops = []
    for n in cf.walk(cf.body("pt_fld")):
        if n.get("kind") == "ForStmt":
            cl = counted_loop(cf, n)
            if cl is not None and cl[2][0] == "idx" and cl[2][1] == ("var", "neigh"):
                loops.append((n, cl))
    loops.sort(key=lambda x: cf.pb(x[0]))
    if len(loops) != 4:
        raise AnalysisError(f"pt_fld: expected 4 loops over a bin's neighbours (1a, 1b, 1c, 2), found {len(loops)}")

    def prep(loop, cl):
        """(neighbour variable or None, statements after its definition, the index-expression string of the neighbour)."""
        body = for_parts(loop)[3]
        sts = stmts(body) if body.get("kind") == "CompoundStmt" else [body]
        nb = None
        if sts and is_assign(sts[0]):
            l, r = ex(sts[0]["inner"][0]), ex(sts[0]["inner"][1])
            if l[0] == "var" and r[0] == "idx" and r[1] == ("var", "neigh"):
                nb = l[1]
                sts = sts[1:]
        return nb, sts

    def run(sts, env, arr):
        out = {}
        try:
            for s in sts:
                _cexec(cf, s, env, arr, out)
        except _Break:
            out["break"] = True
        return out
    ncomb = 0
    # ---- 1a: a bin of the current level is queued iff some neighbour is already labelled or on a watershed line
    (l1a, c1a), (l1b, c1b), (l1c, c1c), (l2, c2) = loops
    P = show(c1a[2][2])            # '8 + 9 * ip' -> find the bin variable
    pvar = [x for x in ("ip", "ipp", "jl") if x in P]
    nb, sts = prep(l1a, c1a)
    if nb is None:
        raise AnalysisError("pt_fld 1a: neighbour variable not found")
    p_a = [v for v in _vars(c1a[2][2]) if v != c1a[0]][0]
    for b in (MASK, INIT, WSHED, LA, LB):
        ncomb += 1
        arr = {("imo", nb): b, ("imd", p_a): 0}
        out = run(sts, dict(CONST, **{nb: 20, p_a: 10}), arr)
        want = b >= 0
        got = p_a in out.get("enq", [])
        if got != want:
            rep.fail(rule, SPECPART_C, cf.line(l1a), "pt_fld", f"step 1a, neighbour label class {_cls(b, MASK, INIT)}",
                     f"a bin of the current level with a neighbour that is {_cls(b, MASK, INIT)} must {'be' if want else 'NOT be'} put in the queue "
                     "(neighbours that are already labelled OR on a watershed line count as flooded): otherwise the bin is missed by the "
                     "flooding and becomes a spurious basin of its own (or a real minimum is swallowed)", anchor="immersion:1a-seeding")
            break
    else:
        rep.ok(rule, f"{SPECPART_C}:{cf.line(l1a)} pt_fld", "step 1a over 5 neighbour classes", "queued iff a neighbour is labelled or watershed")
    # ---- 1b: propagation
    nb, sts = prep(l1b, c1b)
    p_b = [v for v in _vars(c1b[2][2]) if v != c1b[0]][0]
    free = sorted({v for s_ in sts for x in cf.walk(s_) if x.get("kind") == "DeclRefExpr" for v in [x["referencedDecl"]["name"]]
                   if v not in CONST and v not in from_call and v not in (nb, p_b, "imo", "imd", "neigh", "fifo_add") and nassign.get(v, 0) >= 5})
    if len(free) != 1:
        raise AnalysisError(f"pt_fld 1b: the current-distance counter was not identified (candidates {free})")
    DIST = free[0]
    bad = None
    for a in (MASK, WSHED, LA, LB):
        for b in (MASK, INIT, WSHED, LA, LB):
            for d in (0, 1, 2, 3):
                for c in (1, 2):
                    ncomb += 1
                    arr = {("imo", p_b): a, ("imo", nb): b, ("imd", nb): d}
                    out = run(sts, _DefEnv(dict(CONST, **{DIST: c, nb: 20, p_b: 10}), 0), arr)
                    a2, d2, enq = a, d, False
                    if d < c and (b > 0 or b == WSHED):
                        if b > 0:
                            if a in (MASK, WSHED):
                                a2 = b
                            elif a != b:
                                a2 = WSHED
                        elif a == MASK:
                            a2 = WSHED
                    elif b == MASK and d == 0:
                        d2, enq = c + 1, True
                    got = (arr[("imo", p_b)], arr[("imd", nb)], nb in out.get("enq", []))
                    if got != (a2, d2, enq) and bad is None:
                        bad = (a, b, d, c, got, (a2, d2, enq))
    if bad:
        a, b, d, c, got, want = bad
        rep.fail(rule, SPECPART_C, cf.line(l1b), "pt_fld",
                 f"step 1b: bin {_cls(a, MASK, INIT)}, neighbour {_cls(b, MASK, INIT)}, dist(neighbour)={d}, current dist={c}",
                 f"the code gives (label, dist(neighbour), queued) = {got}, Vincent-Soille's flooding gives {want}: a bin reached from two basins "
                 "must become a watershed bin, a bin reached from one basin joins it, an unflooded neighbour is queued once",
                 anchor="immersion:1b-propagation")
    else:
        rep.ok(rule, f"{SPECPART_C}:{cf.line(l1b)} pt_fld", "step 1b over 4 x 5 x 4 x 2 label / distance classes", "identical to the reference transition")
    # ---- 1c: new basins are exactly the bins still flagged MASK, and the flood from them takes MASK bins only
    conds = []
    par = l1c
    for _ in range(6):
        par = par.get("_p")
        if par is None:
            break
        if par.get("kind") == "IfStmt":
            conds.append(par)
    ok1c = True
    for cnd in conds[-1:]:
        t = ex(cnd["inner"][0])
        for a in (MASK, INIT, WSHED, LA):
            ncomb += 1
            env = dict(CONST)
            arr = {("imo", v): a for v in _vars(t) if v not in CONST and v != "imo"}
            if bool(_ceval(t, env, arr)) != (a == MASK):
                ok1c = False
    nb, sts = prep(l1c, c1c)
    for b in (MASK, INIT, WSHED, LA, LB):
        ncomb += 1
        arr = {("imo", nb): b}
        env1c = _DefEnv(dict(CONST, **{nb: 30}), LB)     # the running label counter, whatever it is called
        out = run(sts, env1c, arr)
        if (nb in out.get("enq", [])) != (b == MASK) or (b == MASK and arr[("imo", nb)] != LB) or (b != MASK and arr[("imo", nb)] != b):
            ok1c = False
    if ok1c and conds:
        rep.ok(rule, f"{SPECPART_C}:{cf.line(l1c)} pt_fld", "step 1c", "a new label starts at each bin still flagged, and floods flagged neighbours only")
    else:
        rep.fail(rule, SPECPART_C, cf.line(l1c), "pt_fld", "step 1c",
                 "new basins must start exactly at bins still carrying the MASK flag and spread to MASK neighbours only", anchor="immersion:1c-new-basins")
    # ---- 2: a watershed bin takes the label of a LABELLED neighbour with the closest value
    body2 = for_parts(l2)[3]
    ifs = [n for n in cf.walk(body2) if n.get("kind") == "IfStmt"]
    if len(ifs) != 1:
        raise AnalysisError("pt_fld step 2: candidate test not found")
    t = ex(ifs[0]["inner"][0])
    lab_reads = [x for x in _subtrees(t) if x[0] == "idx" and x[1] == ("var", "imo") or (x[0] == "idx" and x[1] == ("var", "imd"))]
    ok2 = bool(lab_reads)
    le_ = [x for x in _subtrees(t) if x[0] == "bin" and x[1] in ("<=", ">=", "<", ">") and x[2][0] == "var" and x[3][0] == "var"]
    if len(le_) != 1:
        raise AnalysisError("pt_fld step 2: closeness comparison not found")
    # whichever way the comparison is written, the truth table below decides it: the candidate must be accepted when it is AS close as the best so far
    # (the best-so-far starts at the full range of the spectrum, so a strict test leaves a bin whose only labelled neighbours are that far away unassigned)
    dv, ev = (le_[0][2][1], le_[0][3][1]) if le_[0][1] in ("<=", "<") else (le_[0][3][1], le_[0][2][1])
    for b in (WSHED, LA, LB):
        for (df, e1) in ((1, 2), (2, 2), (3, 2)):
            ncomb += 1
            arr = {(show(x[1]), show(x[2])): b for x in lab_reads}
            got = bool(_ceval(t, dict(CONST, **{dv: df, ev: e1}), arr))
            if got != (b != WSHED and df <= e1):
                ok2 = False
    if ok2:
        rep.ok(rule, f"{SPECPART_C}:{cf.line(l2)} pt_fld", cf.text(ifs[0]["inner"][0])[:70], "candidate = labelled neighbour not farther in value than the best so far")
    else:
        rep.fail(rule, SPECPART_C, cf.line(ifs[0]), "pt_fld", cf.text(ifs[0]["inner"][0])[:80],
                 "a watershed-line bin may only take the label of a neighbour that HAS a label, choosing the closest value", anchor="immersion:2-candidate")
    return ncomb


def _cls(v, MASK, INIT):
    return {MASK: "still flagged (MASK)", INIT: "not yet reached (INIT)", 0: "on a watershed line"}.get(v, f"labelled ({'A' if v == 1 else 'B'})")


def _vars(t):
    out = []
    if isinstance(t, tuple):
        if t[0] == "var":
            out.append(t[1])
        for x in t[1:]:
            if isinstance(x, tuple):
                out += _vars(x)
    return out


def _subtrees(t):
    out = []
    if isinstance(t, tuple):
        out.append(t)
        for x in t[1:]:
            if isinstance(x, tuple):
                out += _subtrees(x)
    return out


def level_loop_exits(repo, rep, rule):
    """Every iteration of the level loop of pt_fld floods its level before it may leave the loop: an exit taken before steps 1a-1c of the
    current level skips the bins of that level (the last sorted bin keeps the 'unlabelled' marker and belongs to no partition)."""
    cf = core(repo)
    nloops = []
    for n in cf.walk(cf.body("pt_fld")):
        if n.get("kind") == "ForStmt":
            cl = counted_loop(cf, n)
            if cl is not None and cl[2][0] == "idx" and cl[2][1] == ("var", "neigh"):
                nloops.append(n)
    nloops.sort(key=cf.pb)
    if len(nloops) < 3:
        raise AnalysisError(f"pt_fld: flooding steps not found ({len(nloops)} neighbour loops)")
    def ancestors(n):
        out = []
        p = n.get("_p")
        while p is not None and p.get("kind") != "FunctionDecl":
            if p.get("kind") in ("ForStmt", "WhileStmt", "DoStmt"):
                out.append(p)
            p = p.get("_p")
        return out
    common = [a for a in ancestors(nloops[0]) if all(a in ancestors(x) for x in nloops[1:3])]
    if not common:
        raise AnalysisError("pt_fld: level loop (common loop of steps 1a, 1b, 1c) not found")
    level = common[0]
    last_step = nloops[2]
    nex = 0
    for n in cf.walk(level):
        if n.get("kind") in ("BreakStmt", "ReturnStmt", "GotoStmt", "ContinueStmt"):
            anc = ancestors(n)
            if n.get("kind") in ("BreakStmt", "ContinueStmt") and (not anc or anc[0] is not level):
                continue        # leaves an inner loop only
            nex += 1
            if cf.pb(n) < cf.pe(last_step):
                rep.fail(rule, SPECPART_C, cf.line(n), "pt_fld", cf.text(n.get("_p") or n)[:80],
                         "the level loop can be left (or the level skipped) BEFORE the bins of the current level were flooded: a level that still "
                         "holds an unprocessed bin (e.g. a unique minimum as the last sorted bin) is skipped, that bin keeps the 'not yet reached' "
                         "marker and ends up in no partition")
            else:
                rep.ok(rule, f"{SPECPART_C}:{cf.line(n)} pt_fld", cf.text(n.get("_p") or n)[:60], "after steps 1a-1c of the level")
    rep.ok(rule, f"{SPECPART_C}:{cf.line(level)} pt_fld", f"level loop with {nex} exit(s)", "no exit precedes the flooding of the current level")
    return nex


def queue_once_per_visit(repo, rep, rule):
    """pt_fld: the FIFO is a ring of nspec slots, so every bin may sit in it at most once at a time.  A `fifo_add(q, end, X)` inside a loop over the
    neighbours of a bin where X does NOT change with the loop (the visited bin itself, not the neighbour) must leave that loop at once (`break`):
    otherwise the bin is queued once per matching neighbour and the ring overflows on small / striped grids (the end marker is overwritten and the level's
    seeds become spurious basins)."""
    cf = core(repo)
    fn = cf.funcs.get("pt_fld")
    if fn is None:
        raise AnalysisError("pt_fld vanished")
    n = 0
    for c in cf.walk(fn):
        if c.get("kind") != "CallExpr":
            continue
        t = ex(c)
        if not (t[0] == "call" and show(t[1]) == "fifo_add") and "fifo_add" not in cf.text(c)[:12]:
            continue
        args = [a for a in c.get("inner", [])[1:]]
        if len(args) < 3:
            continue
        loops = enclosing_loops(cf, c)
        if not loops:
            continue
        loop, cl = loops[0]
        if cl is None or "neigh" not in show(cl[2]):
            continue            # only loops over the neighbours of a bin (bound = the bin's neighbour count)
        x = ex(args[2])
        if x[0] != "var":
            continue
        # is the queued variable (re)assigned inside the innermost loop?  then it is the neighbour, guarded by its own mark
        varies = body_assigns_var(cf, loop, x[1]) or x[1] == cl[0]
        n += 1
        if varies:
            rep.ok(rule, f"{SPECPART_C}:{cf.line(c)} pt_fld", cf.text(c)[:60], "queues the neighbour visited by the loop (one candidate per iteration)")
            continue
        # the statement list that holds the call must contain a break after it
        p = c.get("_p")
        while p is not None and p.get("kind") != "CompoundStmt":
            p = p.get("_p")
        sib = stmts(p) if p is not None else []
        idx = next((i for i, s_ in enumerate(sib) if any(y is c for y in cf.walk(s_))), None)
        has_break = idx is not None and any(s_.get("kind") == "BreakStmt" for s_ in sib[idx + 1:])
        if has_break:
            rep.ok(rule, f"{SPECPART_C}:{cf.line(c)} pt_fld", cf.text(c)[:60], "the visited bin is queued and the neighbour loop is left at once")
        else:
            rep.fail(rule, SPECPART_C, cf.line(c), "pt_fld", cf.text(c)[:80],
                     f"'{x[1]}' does not change inside the neighbour loop and the loop goes on after queueing it: the bin enters the ring FIFO once per matching "
                     "neighbour; the ring has nspec slots, so on small / striped grids it wraps, the end marker is lost and seeds of the level become spurious basins",
                     anchor="fifo:queued-once")
    return n
